#!/usr/bin/env python3
"""Regenerates MANIFEST.json from the table below (kept next to the code so it stays current)."""
import json, subprocess, sys

CHECKS = {
 "C05": dict(level="model_checking", engine="E1-enum",
   technique="bounded-exhaustive enumeration of content lists and destination spellings on the real planner vs a reference planner",
   text="All content lists of length <=2 (thorough: <=3 over a reduced universe) over a universe of overlapping destinations x 11 entry kinds x packager tags, for 4 packagers, and all destination strings up to length 6/7 over {a,b,/,.}, are run through files.PrepareForPackager and compared with an independent reference planner (collision <=> error, plan set equality, uniqueness/cleanliness/order/ancestor invariants). Exhaustive within that alphabet; nothing is sampled.",
   note="Trusted: the reference planner (mc/model/plan.go) as the statement of the documented denotation; the fixture tree; Go runtime. Map-iteration-order independence is decided by the woven map-order exploration (see C07/C05 woven part) where available.",
   ref="§3 C05"),
}
CHECKS["C01"] = dict(level="model_checking", engine="E1-enum",
   technique="bounded-exhaustive enumeration of content lists x build settings, all five packagers run for real, payload decoded by independent readers and compared with a reference planner",
   text="Every content list of length <=2 over an alphabet of 25 (thorough 36) entry templates + 15 packager-tagged ones (thorough: also triples over the 12 simplest), crossed with every <=1-deviation build setting (umask, mtime A/B/unset, disable_globbing, deb compression xz/zstd/none, rpm compression gzip:9/xz/lzma/zstd/zstd:fastest), is built for all five formats through Parse->Get->WithDefaults->Package. The payload is decoded by harness-owned ar/tar/cpio/rpm-header readers and compared entry by entry (path set, bytes, 12 mode bits, owner, group, mtime, link target, implied parents, rpm without implied dirs) with the reference plan. Exhaustive within that alphabet.",
   note="Trusted: reference planner mc/model/plan.go; decoders in mc/pkgread (stdlib tar/gzip readers, own ar/cpio/rpm parsers, xi2/xz, klauspost zstd decoder, xz CLI for lzma); symlink modes and directory mtimes not compared.",
   ref="§3 C01")
CHECKS["C08"] = dict(level="model_checking", engine="E1-enum",
   technique="exhaustive enumeration of (entry type x packager tag x format) and type pairs on the real packagers, incl. a validate+all-formats operation history on one parsed config; decoded conffiles / FILEFLAGS / backup vs declaration",
   text="Every (13 entry types x 6 packager tags) singleton with and without file_info, each paired with a plain file, every ordered pair of types, and config globs / directory sources that expand to several files are built for all five formats - once from a fresh parse and again after Validate plus every other format on one parsed configuration (two orders). deb/ipk conffiles, rpm FILEFLAGS / ghost mode / cpio presence, archlinux backup lines and the absence of rpm-only entries elsewhere are compared with the declaration. Exhaustive over the type x tag x format matrix.",
   note="Trusted: reference planner for the expected entry set; rpm flag constants from rpm's rpmfiles.h; pkgread decoders.", ref="§3 C08")
CHECKS["C09"] = dict(level="model_checking", engine="E1-enum",
   technique="exhaustive enumeration of all subsets of script slots per format x script byte classes, incl. a rebuild after the script files were rewritten; slot bytes decoded from the real packages",
   text="All 2^7+2^7+2^6+2^6+2^4 subsets of configurable script slots x byte classes (normal, no trailing newline, CRLF, bytes 0x80-0xff, one file shared by all slots; thorough: empty, NUL) are packaged for real; every slot's bytes are decoded from control members / rpm scriptlet tags / .INSTALL functions and must equal the configured file, slots populated iff configured, modes 0755/0644. Every non-empty subset is also rebuilt after a priming build whose script files (same paths) held other bytes.",
   note="Trusted: pkgread decoders incl. the .INSTALL function splitter; rpm scriptlets with NUL excluded (impossible by format).", ref="§3 C09")
CHECKS["C03"] = dict(level="model_checking", engine="E1-enum",
   technique="bounded-exhaustive enumeration of payload shapes x name classes x compressions on the real packagers; every stored digest/size recomputed from the decoded shipped bytes; incl. a rebuild after a source was rewritten",
   text="Every multiset of <=2 (thorough <=3) payload items over {files of 0,1,1023,1024,5000 B and 200 KiB/3 MiB, dir, symlink, config, ghost, mutable file} plus the empty payload, destination name classes (space, %, #, backslash, non-ASCII), all compression settings, five formats. deb md5sums + Installed-Size, apk datahash + PAX SHA-1 + size, archlinux .MTREE (type/mode/time/size/md5/sha256/link, .PKGINFO first) + size, rpm sig SHA256/SIGSIZE/PAYLOADSIZE, PAYLOADDIGEST, FILEDIGESTS/FILESIZES/SIZE, ipk Installed-Size are recomputed from the bytes as shipped. A second build after a source file was rewritten with equal length and mtime must describe the new bytes.",
   note="Trusted: pkgread decoders; mtree(5) word splitting and \\ooo escapes as in libarchive (cross-checked once with bsdtar); size tags accepted in the ranges listed in the evidence assumptions.", ref="§3 C03")
CHECKS["C04"] = dict(level="model_checking", engine="E1-enum",
   technique="enumeration of one configuration per structural class incl. exhaustive alignment-residue sweeps on the real packagers; structure validators plus independent readers (dpkg-deb, GNU tar, bsdtar, go-rpmutils)",
   text="Every entry template alone, the empty payload, pairs, every compression, scripts, signed variants (deb debsign/dpkg-sig x 4 compressions, rpm, apk with 2048/4096-bit keys), member names of 99..260 bytes and with odd characters, one destination spelled two ways, and exhaustive alignment sweeps (all 512 residues of the apk control segment, 64 for the deb ar members, 16 for rpm/ipk/archlinux; apk script lengths around 512/1024) are built; each package is walked end to end by harness validators (ar members and padding, tar block structure and end markers, apk segment rules, rpm lead/alignment/header-cpio correspondence and order, archlinux member order, tar name rules) and by an independent implementation.",
   note="Trusted: pkgread validators; dpkg-deb, GNU tar, bsdtar, go-rpmutils as second opinions when installed; rpm/apk-tools/pacman/opkg themselves are not in the image.", ref="§3 C04")
CHECKS["C02"] = dict(level="model_checking", engine="E1-enum",
   technique="exhaustive enumeration of the documented architecture table x formats x override, all optional-version-component combinations, <=1/2-deviation scalar fields, description shapes, relation-kind subsets and extras on the real packagers; control metadata parsed by harness parsers and compared with a reference Meta model",
   text="Exhaustive over every GOARCH of the documentation (+undocumented pass-through values) x five formats x with/without <format>.arch; all 192 combinations of v-prefix/epoch/prerelease/metadata/release/schema; every scalar field x {ASCII, Unicode, punctuation} (thorough: pairs); 7 description shapes; every single relation kind and every pair of the 8 kinds in plain / versioned / same-name-twice form plus all 8 at once, rendered in each format's own syntax; every format extra alone and all together; non-linux platforms. Each is built fresh and again after ConventionalFileName on the same Info; deb/ipk control, rpm header tags, apk/archlinux .PKGINFO are parsed by the harness (dpkg-deb -f as second opinion) and compared field by field, including 'a relation kind without a slot must not surface elsewhere'. The architecture table is read from the documentation of the tree under test.",
   note="Trusted: model/meta.go (version syntax per format, relation slots), pkgread parsers, the documentation table as the statement of the expected translation (ipk has none: only override/pass-through judged).", ref="§3 C02")
CHECKS["C14"] = dict(level="model_checking", engine="E1-enum",
   technique="exhaustive enumeration of the version grammar through the real WithDefaults vs a reference grammar; all ordering pairs on versions decoded from really built packages vs ports of dpkg/rpm comparison (dpkg --compare-versions as second opinion)",
   text="All 5376 strings of [v]N[.N[.N]][-pre][+meta] over N in {0,1,2,10}, 7 prerelease and 3 metadata shapes, plus 24 near-misses and the empty version, x explicit prerelease/metadata x schema {default, semver, none} go through nfpm.WithDefaults and are compared with the documented split. For deb, ipk and rpm every (prerelease, its release) pair over 64 bases x 7 prereleases x release x metadata, every ordered pair of the 64 numeric bases and every epoch pair are packaged for real and the decoded version strings compared with ports of the Debian and rpm algorithms. 256 version configurations x 5 formats are packaged twice from one effective-settings object and must state the same version.",
   note="Trusted: model/version.go (semver grammar, DebCompare, RPMVerCmp ports); dpkg --compare-versions agreeing with the port on every pair is enforced (disagreement = harness error).", ref="§3 C14")
CHECKS["C15"] = dict(level="model_checking", engine="E1-enum",
   technique="exhaustive enumeration of version-component x architecture x format combinations: ConventionalFileName then Package on one effective-settings object, name re-derived from the decoded metadata; the built nfpm binary driven over all target spellings x -p",
   text="All 96 epoch/prerelease/metadata/release/schema/v-prefix combinations x {amd64, arm5, override} and every documented GOARCH (base version) x 5 formats: the conventional name is asked first, then the package is built from the same settings; the name must equal the one the format's naming rule derives from the metadata inside that package, end in the conventional extension, be stable, and the bytes must equal a build without the name call. The nfpm binary built from the tree is run for target in {file, existing dir, empty, file with another format's extension, file in a missing dir} x -p given/absent x 5 formats x 2 versions: exactly the requested file (or conventional name in the dir / cwd) is created, with the right packager; failing invocations leave nothing behind.",
   note="Trusted: naming rules as transcribed in props/c15.go (epoch not part of deb/ipk/archlinux names); pkgread parsers; non-linux platforms excluded.", ref="§3 C15")
CHECKS["C13"] = dict(level="model_checking", engine="E1-enum",
   technique="reflection-driven exhaustive enumeration of every overridable leaf x override-key format x asked format (and Get order) on the real Parse/Get, judged differentially against the same settings written out without override block",
   text="Every leaf of Overridables (by reflection from the tree under test: lists, maps, bools, modes, *string key ids, nested rpm/deb/apk/archlinux/ipk blocks, content and alternatives lists as wholesale values) x each of the five formats as override key x {non-empty, empty} override value: Get(key) first and then Get(f) for every format (plus: every other format asked first) must deep-equal the effective settings of a freshly parsed document in which exactly that field was replaced by hand. Validate is run on 15 override keys (registered, unregistered names sorting before/after the registered ones, wrong case). Base and override content lists with entries addressed to every packager are built for all formats and the packages inspected.",
   note="Trusted: the differential reference is nfpm's own parser on a document without overrides (so a defect of plain parsing common to both sides is C16's business); merge rules as in the statement.", ref="§3 C13")
CHECKS["C16"] = dict(level="model_checking", engine="E1-enum",
   technique="reflection-driven exhaustive enumeration of every mapping level / key path of the configuration types with injected undefined keys, and of every string-valued leaf x value shapes x environment mappings, on the real parser",
   text="Every mapping level of nfpm.Config (36 levels by reflection: top, nested blocks, list elements, overrides.<format>.*, file_info) gets an undefined sibling key (3 spellings) and every one of the 163 leaf keys is misspelt: the strict parser must reject each (with a parsing control document per level). Every string / *string / list / map leaf x {plain, ${V}, pre-$V-post, '  $E  ', '  padded  '} x {V=val, V=empty, nil mapping}: values without '$' unchanged (documented lists trimmed), fields that configuration.md documents as expandable (table parsed from the docs at run time) substituted through the caller's mapping, empty list items dropped; contents src/dst expanded iff expand:true at top level and in overrides; all 16 presence combinations of the passphrase variables.",
   note="Trusted: the documentation's list of expandable fields as parsed by props/c16.go; fields expanded beyond it are not judged when they contain '$'.", ref="§3 C16")
CHECKS["C17"] = dict(level="model_checking", engine="E1-enum",
   technique="exhaustive enumeration of every parser key path (reflection) and schema key path in both directions, every documented/accepted enumerated value, and generated valid configurations, judged by the schema the built binary emits (harness validator + python jsonschema on every document); byte comparison with the published file",
   text="The schema is produced by the nfpm binary built from the tree (-o file and stdout). The published www/docs/static/schema.json must be byte-identical. Every key path of the parser (163, by reflection over yaml tags) and every key path the schema allows are compared both ways and each is exercised with a minimal document through the real strict parser and the validator. Every value of every enumerated setting (13 content types, deb/rpm compression incl. algo:level, signature method/type, version_schema, the five override keys, platforms, documented architectures) in a document the parser accepts and the packager really builds must validate; so must the C01 entry templates and C02 metadata configurations. python jsonschema (Draft 2020-12) re-judges every document of the run and must agree with the harness validator (disagreement = harness error).",
   note="Trusted: the harness mini-validator for the keyword subset the schema uses (an unknown keyword is a harness error) and python jsonschema as second opinion; reflection over yaml tags as the statement of what the strict parser accepts, confirmed by real parses.", ref="§3 C17")
CHECKS["C06"] = dict(level="fault_enumeration", engine="E3-fault",
   technique="exhaustive fault enumeration on the real packagers: every destination-write index x 3 failure shapes, every file reference broken one at a time, every invalid-setting class, every signer call failing, and the built CLI on /dev/full and pre-existing targets",
   text="For every format x {unsigned, signed} x compression class the writes of a clean run are counted and every write index k is failed as (error, short write, sticky from k on), each from a fresh parse; Package must return an error whenever the fault was consumed, and bytes accepted under a nil error are decoded. Every file reference of the configuration (content sources, each script slot, changelog, key file) is removed / replaced by a directory / made a dangling symlink, one at a time. 20 invalid-setting classes. A signing callback failing at each of its calls. The nfpm binary built from the tree is run with missing source, missing script, invalid settings, missing/invalid config file, a target (file or conventional name inside a directory) that is a symlink to /dev/full, and a pre-existing target: exit status != 0, a cause printed, nothing left at the target path.",
   note="Trusted: the harness fault writer (counts Write calls; faults obey the io.Writer contract); /dev/full as ENOSPC device; a tree source that is itself a symlink is outside the alphabet.", ref="§3 C06")
CHECKS["C10"] = dict(level="model_checking", engine="E1-enum",
   technique="bounded-exhaustive enumeration of signing methods x key kinds x payloads x compressions x {key file, callback}, every callback call failing, and a key-file rotation history, on the real packagers; signatures extracted by the harness and verified with go-crypto/crypto-rsa and gpgv/openssl over the verifier's bytes",
   text="deb debsign (types origin/maint/archive/invalid), deb dpkg-sig, rpm and apk x 12 OpenPGP key kinds (armored, binary, protected with general/format-specific passphrase variable, subkey-only, explicit primary/subkey key id, wrong/missing passphrase, several keys, invalid key id, missing file) resp. 7 RSA key kinds (PKCS#1, PKCS#8, 4096-bit, encrypted PEM, wrong passphrase, garbage) x 4 payloads x deb compressions x {key file, signing callback}. The harness extracts the signature member/tags and verifies them over exactly the verifier's bytes (members as stored; clear-signed manifest lines vs stored members; rpm header and header+payload; apk control segment as shipped) with go-crypto / crypto/rsa and gpgv / openssl. A capturing callback must have received precisely those bytes. A callback failing at each of its calls, invalid types and unusable keys must give no success and an error identifiable as ErrSigningFailure that carries the signer's error. The key file is also replaced between two builds in one process.",
   note="Trusted: go-crypto/crypto-rsa as verifier with gpgv/openssl as independent second implementations (disagreement = harness error); ErrSigningFailure.Err counts as wrapping.", ref="§3 C10")
NOT_YET = {}
ALL = ["C%02d" % i for i in range(1, 18)]

def main():
    checks = []
    for pid in sorted(CHECKS):
        c = CHECKS[pid]
        checks.append({
            "property_id": pid,
            "quick_cmd": "./check %s quick" % pid,
            "thorough_cmd": "./check %s thorough" % pid,
            "evidence_file": "/verif/evidence/%s.json" % pid,
            "replay_cmd_template": "./check replay {path}",
            "engine": c["engine"],
            "level_claimed": {"category": c["level"], "text": c["text"], "design_ref": c["ref"]},
            "level_note": c["note"],
            "technique": c["technique"],
        })
    na = [{"property_id": p, "reason": NOT_YET.get(p, "check not built yet in this round (work in progress; see DESIGN.md §3 for the plan)")} for p in ALL if p not in CHECKS]
    m = {
        "version": 1,
        "setup_cmd": "./setup.sh",
        "hooks": {
            "guard": "verif",
            "enable": "no hooks live in /repo: instrumentation (clock / map-order / memory-access seams) is woven into a scratch copy of /repo's current working tree at check time by `mc weave` and compiled with -tags verif; files are only added through go build -overlay",
            "baseline_off_cmd": "cd /repo && go test -mod=mod -vet=off -count=1 -timeout 25m ./...",
            "source_commits": [],
            "add_only": True,
        },
        "engines": [
            {"name": "E1-enum", "path": "mc/engine", "serves_properties": sorted(k for k in CHECKS if CHECKS[k]["engine"]=="E1-enum"), "kind_free_text": "deterministic bounded-exhaustive enumeration of a declared case space, sharded over 16 worker processes, each case executed on the real code and judged by a reference model"},
            {"name": "E3-fault", "path": "mc/props/c06.go", "serves_properties": sorted(k for k in CHECKS if CHECKS[k]["engine"]=="E3-fault"), "kind_free_text": "exhaustive enumeration of environment faults (failing write k, broken file reference, failing signer call, full device) against the real packagers and the built CLI"},
        ],
        "checks": checks,
        "not_applicable": na,
        "notes": "All checks rebuild the harness against /repo's current working tree (go build in ./check). Known findings: known_findings.txt. Seeded property-breaking changes used to test the checks: seeded/.",
    }
    json.dump(m, open("/verif/MANIFEST.json", "w"), indent=1)
    print("wrote MANIFEST.json with", len(checks), "checks,", len(na), "not_applicable")

main()
