// Package engine is the bounded-exhaustive exploration driver shared by all
// property checks: deterministic enumeration of a declared case space,
// sharding over worker processes, violation re-confirmation, known-finding
// matching, replay files and evidence.
package engine

import (
	"encoding/json"
	"fmt"
	"hash/fnv"
	"os"
	"os/exec"
	"sort"
	"time"
)

// Violation is one observed breach of a property on one case.
type Violation struct {
	// Sig is the structured signature <oracle>:<defect class>:<format>:<what>
	// used for known-finding matching. It must be as narrow as the defect.
	Sig    string `json:"sig"`
	Detail string `json:"detail"`
}

// Outcome is what checking one case produced.
type Outcome struct {
	// Key identifies the observable outcome of the case (used to count distinct cases).
	Key string
	// Nontrivial says the case really exercised the property (by the prop's Rule).
	Nontrivial  bool
	Violations  []Violation
	Transitions int // operations executed on the real code (default 1)
	States      int // extra distinct states discovered inside the case (BFS props)
	Counters    map[string]int
	// HarnessError marks a case the harness could not judge (never a violation).
	HarnessError string
}

// Prop is one property check.
type Prop struct {
	ID          string
	Level       string // evidence level
	Rule        string
	Assumptions []string
	// Enumerate yields every case of the tier's bounded space, simplest first,
	// in a deterministic order. Cases are JSON-marshalable values.
	Enumerate func(env *Env, yield func(c any) bool)
	// Decode turns a replay file's case back into the value Check expects.
	Decode func(raw json.RawMessage) (any, error)
	// Check runs one case on the real code.
	Check func(env *Env, c any) Outcome
	// Setup prepares per-worker fixtures.
	Setup func(env *Env) error
	// Bounds describes the alphabet / bound of the tier (for evidence).
	Bounds func(env *Env) map[string]any
	// Serial props run in one worker only (they shard internally or need the whole machine).
	Serial bool
	// MaxWorkers caps the worker count (0 = all cores).
	MaxWorkers int
}

var registry = map[string]*Prop{}

func Register(p *Prop)       { registry[p.ID] = p }
func Lookup(id string) *Prop { return registry[id] }
func IDs() []string {
	var ids []string
	for k := range registry {
		ids = append(ids, k)
	}
	sort.Strings(ids)
	return ids
}

// Env is the per-process environment of a check.
// ProcScratch is the scratch directory of this process (set before a property's Setup runs), for helpers that have
// no Env at hand.
var ProcScratch string

type Env struct {
	Tier     string
	Seed     int64
	Scratch  string // private scratch dir of this process
	Repo     string // repository under test
	Verif    string // /verif
	Shard    int
	Of       int
	Deadline time.Time
	Data     map[string]any // per-prop fixtures
	Tools    map[string]string
	Self     string // path of this binary (for fresh-process re-confirmation)
}

func (e *Env) Thorough() bool { return e.Tier == "thorough" }
func (e *Env) Expired() bool  { return !e.Deadline.IsZero() && time.Now().After(e.Deadline) }

// Tool returns the path of an optional external tool ("" if absent).
func (e *Env) Tool(name string) string { return e.Tools[name] }

// FoundCase is a violation with the case that produced it.
type FoundCase struct {
	Sig    string          `json:"sig"`
	Detail string          `json:"detail"`
	Index  int             `json:"index"`
	Case   json.RawMessage `json:"case"`
	Count  int             `json:"count"`
	Repro  int             `json:"repro"`
}

// WorkerResult is what one worker writes.
type WorkerResult struct {
	Shard       int               `json:"shard"`
	Enumerated  int               `json:"enumerated"`
	Evaluations int               `json:"evaluations"`
	Transitions int               `json:"transitions"`
	ExtraStates int               `json:"extra_states"`
	Keys        []uint64          `json:"keys"`
	NontrivKeys []uint64          `json:"nontriv_keys"`
	Found       []FoundCase       `json:"found"`
	Flaky       []FoundCase       `json:"flaky"`
	HarnessErrs map[string]int    `json:"harness_errs"`
	Samples     []json.RawMessage `json:"samples"`
	Counters    map[string]int    `json:"counters"`
	Capped      bool              `json:"capped"`
	WallS       float64           `json:"wall_s"`
	Fatal       string            `json:"fatal,omitempty"`
}

func hash64(s string) uint64 {
	h := fnv.New64a()
	h.Write([]byte(s))
	return h.Sum64()
}

// RunWorker runs shard env.Shard of env.Of of prop p.
func RunWorker(p *Prop, env *Env) *WorkerResult {
	start := time.Now()
	res := &WorkerResult{Shard: env.Shard, HarnessErrs: map[string]int{}, Counters: map[string]int{}}
	if p.Setup != nil {
		ProcScratch = env.Scratch
		if err := p.Setup(env); err != nil {
			res.Fatal = "setup: " + err.Error()
			return res
		}
	}
	keys := map[uint64]bool{}
	nkeys := map[uint64]bool{}
	found := map[string]*FoundCase{}
	flaky := map[string]*FoundCase{}
	idx := -1
	nsamples := 0
	p.Enumerate(env, func(c any) bool {
		idx++
		if env.Of > 1 && idx%env.Of != env.Shard {
			return true
		}
		if env.Expired() {
			res.Capped = true
			return false
		}
		out := p.Check(env, c)
		res.Evaluations++
		if out.Transitions == 0 {
			out.Transitions = 1
		}
		res.Transitions += out.Transitions
		res.ExtraStates += out.States
		for k, v := range out.Counters {
			res.Counters[k] += v
		}
		if out.HarnessError != "" {
			res.HarnessErrs[out.HarnessError]++
			return true
		}
		h := hash64(out.Key)
		keys[h] = true
		if out.Nontrivial {
			nkeys[h] = true
		}
		// a few samples: the first cases of this shard plus seed-rotated ones
		if nsamples < 3 || (nsamples < 6 && (int64(idx)+env.Seed)%997 == 0) {
			if raw, err := json.Marshal(c); err == nil {
				res.Samples = append(res.Samples, raw)
				nsamples++
			}
		}
		for _, v := range out.Violations {
			if f, ok := found[v.Sig]; ok {
				f.Count++
				continue
			}
			if f, ok := flaky[v.Sig]; ok {
				f.Count++
				continue
			}
			raw, _ := json.Marshal(c)
			fc := &FoundCase{Sig: v.Sig, Detail: v.Detail, Index: idx, Case: raw, Count: 1}
			// re-confirm 5x: the same case must fail with the same signature every time
			for i := 0; i < 5; i++ {
				again := p.Check(env, c)
				for _, w := range again.Violations {
					if w.Sig == v.Sig {
						fc.Repro++
						break
					}
				}
			}
			if fc.Repro < 5 && env.Self != "" {
				// the case may depend on what this process did before (a cache, a mutated global):
				// the arbiter is a fresh process, which is also what `check replay` gives
				if freshRepro(p, env, raw, v.Sig) {
					fc.Repro = 5
					fc.Detail += "\n(reproduced 3/3 in fresh processes; in this worker process, after other cases, it reproduced " + fmt.Sprint(fc.Repro) + "/5 times)"
				}
			}
			if fc.Repro == 5 {
				found[v.Sig] = fc
			} else {
				flaky[v.Sig] = fc
			}
		}
		return true
	})
	res.Enumerated = idx + 1
	for k := range keys {
		res.Keys = append(res.Keys, k)
	}
	for k := range nkeys {
		res.NontrivKeys = append(res.NontrivKeys, k)
	}
	for _, f := range found {
		res.Found = append(res.Found, *f)
	}
	for _, f := range flaky {
		res.Flaky = append(res.Flaky, *f)
	}
	sort.Slice(res.Found, func(i, j int) bool { return res.Found[i].Index < res.Found[j].Index })
	res.WallS = time.Since(start).Seconds()
	return res
}

// freshRepro runs the case three times, each in a new process, and reports
// whether every run raises the signature.
func freshRepro(p *Prop, env *Env, raw json.RawMessage, sig string) bool {
	dir, err := os.MkdirTemp(env.Scratch, "fresh-")
	if err != nil {
		return false
	}
	defer os.RemoveAll(dir)
	cf := dir + "/case.json"
	if err := os.WriteFile(cf, raw, 0o644); err != nil {
		return false
	}
	for i := 0; i < 3; i++ {
		out, err := exec.Command(env.Self, "casecheck", p.ID, env.Tier, cf, dir+fmt.Sprintf("/s%d", i)).Output()
		if err != nil {
			return false
		}
		var sigs []string
		if json.Unmarshal(out, &sigs) != nil {
			return false
		}
		hit := false
		for _, s := range sigs {
			if s == sig {
				hit = true
			}
		}
		if !hit {
			return false
		}
	}
	return true
}

// CaseCheck runs one case in this (fresh) process and prints the signatures it raises.
func CaseCheck(p *Prop, env *Env, caseFile string) int {
	raw, err := os.ReadFile(caseFile)
	if err != nil {
		return 2
	}
	if p.Setup != nil {
		ProcScratch = env.Scratch
		if err := p.Setup(env); err != nil {
			return 2
		}
	}
	c, err := p.Decode(raw)
	if err != nil {
		return 2
	}
	out := p.Check(env, c)
	sigs := []string{}
	for _, v := range out.Violations {
		sigs = append(sigs, v.Sig)
	}
	b, _ := json.Marshal(sigs)
	fmt.Println(string(b))
	return 0
}

// WriteJSON writes v to path atomically.
func WriteJSON(path string, v any) error {
	b, err := json.MarshalIndent(v, "", " ")
	if err != nil {
		return err
	}
	tmp := path + ".tmp"
	if err := os.WriteFile(tmp, append(b, '\n'), 0o644); err != nil {
		return err
	}
	return os.Rename(tmp, path)
}

func Errf(format string, a ...any) error { return fmt.Errorf(format, a...) }
