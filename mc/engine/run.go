package engine

import (
	"bufio"
	"crypto/sha256"
	"encoding/hex"
	"encoding/json"
	"fmt"
	"os"
	"os/exec"
	"path/filepath"
	"runtime"
	"sort"
	"strconv"
	"strings"
	"sync"
	"time"
)

// Known is one line of known_findings.txt.
type Known struct {
	Kind     string // known | fixed
	Property string
	Sig      string
	Text     string
}

// LoadKnown parses /verif/known_findings.txt (never written at run time).
func LoadKnown(path string) ([]Known, error) {
	f, err := os.Open(path)
	if err != nil {
		if os.IsNotExist(err) {
			return nil, nil
		}
		return nil, err
	}
	defer f.Close()
	var out []Known
	sc := bufio.NewScanner(f)
	sc.Buffer(make([]byte, 1<<20), 1<<20)
	for sc.Scan() {
		line := strings.TrimSpace(sc.Text())
		if line == "" || strings.HasPrefix(line, "#") {
			continue
		}
		var k Known
		switch {
		case strings.HasPrefix(line, "known:"):
			k.Kind = "known"
			line = strings.TrimSpace(strings.TrimPrefix(line, "known:"))
		case strings.HasPrefix(line, "fixed:"):
			k.Kind = "fixed"
			line = strings.TrimSpace(strings.TrimPrefix(line, "fixed:"))
		default:
			continue
		}
		fields := strings.Fields(line)
		rest := []string{}
		for _, fl := range fields {
			switch {
			case strings.HasPrefix(fl, "property=") && k.Property == "":
				k.Property = strings.TrimPrefix(fl, "property=")
			case strings.HasPrefix(fl, "signature=") && k.Sig == "":
				k.Sig = strings.TrimPrefix(fl, "signature=")
			default:
				rest = append(rest, fl)
			}
		}
		k.Text = strings.Join(rest, " ")
		out = append(out, k)
	}
	return out, sc.Err()
}

// RunOptions configures a parent run.
type RunOptions struct {
	Tier    string
	Seed    int64
	Verif   string
	Repo    string
	Self    string // path of this binary
	Budget  time.Duration
	Workers int
}

// Evidence mirrors EVIDENCE.schema.json.
type Evidence struct {
	PropertyID  string         `json:"property_id"`
	Tier        string         `json:"tier"`
	Seed        int64          `json:"seed"`
	Level       string         `json:"level"`
	Coverage    map[string]any `json:"coverage"`
	Assumptions []string       `json:"assumptions"`
	WallS       float64        `json:"wall_s"`
	Violations  int            `json:"violations"`
}

// RunParent runs prop p over all shards and reports. Returns the exit code.
func RunParent(p *Prop, o RunOptions) int {
	start := time.Now()
	n := o.Workers
	if n <= 0 {
		n = runtime.NumCPU()
	}
	if p.MaxWorkers > 0 && n > p.MaxWorkers {
		n = p.MaxWorkers
	}
	if p.Serial {
		n = 1
	}
	scratch, err := os.MkdirTemp(scratchRoot(), "run-"+p.ID+"-")
	if err != nil {
		fmt.Fprintln(os.Stderr, "scratch:", err)
		return 2
	}
	defer os.RemoveAll(scratch)
	deadline := time.Now().Add(o.Budget)
	results := make([]*WorkerResult, n)
	var wg sync.WaitGroup
	for i := 0; i < n; i++ {
		wg.Add(1)
		go func(i int) {
			defer wg.Done()
			results[i] = spawnWorker(p, o, scratch, i, n, deadline, 0)
			if results[i].Fatal != "" && strings.HasPrefix(results[i].Fatal, "crash:") {
				// a crashed worker's shard is re-run once
				again := spawnWorker(p, o, scratch, i, n, deadline, 1)
				if again.Fatal == "" {
					results[i] = again
				}
			}
		}(i)
	}
	wg.Wait()

	// merge
	keys := map[uint64]bool{}
	nkeys := map[uint64]bool{}
	found := map[string]*FoundCase{}
	flaky := map[string]*FoundCase{}
	herrs := map[string]int{}
	counters := map[string]int{}
	var samples []json.RawMessage
	evals, trans, extra, enumerated := 0, 0, 0, 0
	capped := false
	var fatals []string
	for _, r := range results {
		if r.Fatal != "" {
			fatals = append(fatals, fmt.Sprintf("shard %d: %s", r.Shard, r.Fatal))
			capped = true
		}
		evals += r.Evaluations
		trans += r.Transitions
		extra += r.ExtraStates
		if r.Enumerated > enumerated {
			enumerated = r.Enumerated
		}
		capped = capped || r.Capped
		for _, k := range r.Keys {
			keys[k] = true
		}
		for _, k := range r.NontrivKeys {
			nkeys[k] = true
		}
		for k, v := range r.HarnessErrs {
			herrs[k] += v
		}
		for k, v := range r.Counters {
			counters[k] += v
		}
		for i := range r.Found {
			f := r.Found[i]
			if g, ok := found[f.Sig]; !ok || f.Index < g.Index {
				cnt := f.Count
				if ok {
					cnt += g.Count
				}
				ff := f
				ff.Count = cnt
				found[f.Sig] = &ff
			} else {
				g.Count += f.Count
			}
		}
		for i := range r.Flaky {
			f := r.Flaky[i]
			if _, ok := flaky[f.Sig]; !ok {
				flaky[f.Sig] = &f
			}
		}
		if len(samples) < 8 {
			for _, s := range r.Samples {
				if len(samples) < 8 {
					samples = append(samples, s)
				}
			}
		}
	}
	if len(herrs) > 0 {
		capped = true
	}

	known, err := LoadKnown(filepath.Join(o.Verif, "known_findings.txt"))
	if err != nil {
		fmt.Fprintln(os.Stderr, "known findings:", err)
	}
	knownSig := map[string]Known{}
	for _, k := range known {
		if k.Kind == "known" && k.Property == p.ID {
			knownSig[k.Sig] = k
		}
	}
	var sigs []string
	for s := range found {
		sigs = append(sigs, s)
	}
	sort.Slice(sigs, func(i, j int) bool { return found[sigs[i]].Index < found[sigs[j]].Index })
	nviol := 0
	var knownHit []string
	var violSummaries []map[string]any
	for _, s := range sigs {
		f := found[s]
		if k, ok := knownSig[s]; ok {
			kp := writeReplayNamed(o.Verif, p.ID, o.Tier, f, "known-")
			fmt.Printf("KNOWN-FINDING: property=%s signature=%s %s (seen in %d cases; example %s)\n", p.ID, s, k.Text, f.Count, kp)
			knownHit = append(knownHit, s)
			continue
		}
		nviol++
		path := writeReplay(o.Verif, p.ID, o.Tier, f)
		fmt.Printf("VIOLATION property=%s replay=%s\n", p.ID, path)
		fmt.Printf("  signature=%s cases=%d\n  %s\n", s, f.Count, strings.ReplaceAll(f.Detail, "\n", "\n  "))
		violSummaries = append(violSummaries, map[string]any{"signature": s, "detail": trunc(f.Detail, 600), "cases": f.Count, "replay": path})
	}
	for s, f := range flaky {
		fmt.Printf("HARNESS-NONDETERMINISM property=%s signature=%s reproduced %d/5 (not reported as violation)\n  %s\n", p.ID, s, f.Repro, trunc(f.Detail, 300))
		capped = true
	}
	for _, m := range fatals {
		fmt.Printf("HARNESS-ERROR property=%s %s\n", p.ID, m)
	}
	for k, v := range herrs {
		fmt.Printf("HARNESS-ERROR property=%s %s (%d cases not judged)\n", p.ID, k, v)
	}

	states := len(keys) + extra
	cov := map[string]any{
		"evaluations":                   evals,
		"distinct_nontrivial":           len(nkeys),
		"rule":                          p.Rule,
		"samples":                       samplesOrPlaceholder(samples),
		"states":                        states,
		"transitions":                   trans,
		"traces_validated_against_impl": evals,
		"exhaustive":                    !capped,
		"cases_in_space":                enumerated,
		"known_findings_hit":            knownHit,
		"workers":                       n,
	}
	if len(counters) > 0 {
		cov["counters"] = counters
	}
	if len(violSummaries) > 0 {
		cov["violations"] = violSummaries
	}
	if len(herrs) > 0 || len(fatals) > 0 || len(flaky) > 0 {
		he := map[string]any{}
		for k, v := range herrs {
			he[k] = v
		}
		if len(fatals) > 0 {
			he["fatal"] = fatals
		}
		if len(flaky) > 0 {
			var fs []string
			for s := range flaky {
				fs = append(fs, s)
			}
			sort.Strings(fs)
			he["nondeterministic"] = fs
		}
		cov["harness_errors"] = he
	}
	if p.Bounds != nil {
		env := &Env{Tier: o.Tier, Seed: o.Seed, Repo: o.Repo, Verif: o.Verif}
		cov["bounds"] = p.Bounds(env)
	}
	ev := Evidence{
		PropertyID: p.ID, Tier: o.Tier, Seed: o.Seed, Level: p.Level,
		Coverage: cov, Assumptions: p.Assumptions,
		WallS: time.Since(start).Seconds(), Violations: nviol,
	}
	if ev.Assumptions == nil {
		ev.Assumptions = []string{}
	}
	os.MkdirAll(filepath.Join(outDir(o.Verif), "evidence"), 0o755)
	if err := WriteJSON(filepath.Join(outDir(o.Verif), "evidence", p.ID+".json"), ev); err != nil {
		fmt.Fprintln(os.Stderr, "evidence:", err)
	}
	fmt.Printf("SUMMARY property=%s tier=%s cases=%d evaluated=%d distinct=%d nontrivial=%d transitions=%d exhaustive=%v known=%d violations=%d wall=%.1fs\n",
		p.ID, o.Tier, enumerated, evals, len(keys), len(nkeys), trans, !capped, len(knownHit), nviol, ev.WallS)
	if nviol > 0 {
		return 1
	}
	return 0
}

func samplesOrPlaceholder(s []json.RawMessage) []json.RawMessage {
	if len(s) == 0 {
		return []json.RawMessage{json.RawMessage(`"(no case evaluated)"`)}
	}
	return s
}

func trunc(s string, n int) string {
	if len(s) > n {
		return s[:n] + "…"
	}
	return s
}

// outDir is where evidence/ and replays/ are written: /verif, unless VERIF_OUT
// redirects them (used when the checks are run against seeded changes).
func outDir(verif string) string {
	if d := os.Getenv("VERIF_OUT"); d != "" {
		return d
	}
	return verif
}

func scratchRoot() string {
	root := os.Getenv("VERIF_SCRATCH")
	if root == "" {
		root = "/var/tmp/nfpm-verif"
	}
	os.MkdirAll(root, 0o755)
	return root
}

// ReplayFile is the on-disk form of one violating case.
type ReplayFile struct {
	Property string          `json:"property"`
	Tier     string          `json:"tier"`
	Sig      string          `json:"signature"`
	Detail   string          `json:"detail"`
	Case     json.RawMessage `json:"case"`
}

func writeReplay(verif, id, tier string, f *FoundCase) string {
	return writeReplayNamed(verif, id, tier, f, "")
}

func writeReplayNamed(verif, id, tier string, f *FoundCase, prefix string) string {
	dir := filepath.Join(outDir(verif), "replays", id)
	os.MkdirAll(dir, 0o755)
	sum := sha256.Sum256(append([]byte(f.Sig+"\x00"), f.Case...))
	path := filepath.Join(dir, prefix+hex.EncodeToString(sum[:6])+".json")
	WriteJSON(path, ReplayFile{Property: id, Tier: tier, Sig: f.Sig, Detail: f.Detail, Case: f.Case})
	return path
}

func spawnWorker(p *Prop, o RunOptions, scratch string, shard, of int, deadline time.Time, attempt int) *WorkerResult {
	out := filepath.Join(scratch, fmt.Sprintf("w%d-%d.json", shard, attempt))
	wscratch := filepath.Join(scratch, fmt.Sprintf("w%d-%d", shard, attempt))
	os.MkdirAll(wscratch, 0o755)
	cmd := exec.Command(o.Self, "worker", p.ID, o.Tier,
		"--shard", strconv.Itoa(shard), "--of", strconv.Itoa(of),
		"--out", out, "--scratch", wscratch,
		"--deadline", strconv.FormatInt(deadline.Unix(), 10),
		"--seed", strconv.FormatInt(o.Seed, 10))
	cmd.Env = append(os.Environ(), "GOMAXPROCS=2")
	logf, _ := os.Create(filepath.Join(scratch, fmt.Sprintf("w%d-%d.log", shard, attempt)))
	cmd.Stdout = logf
	cmd.Stderr = logf
	hard := time.Until(deadline) + 5*time.Minute
	if err := cmd.Start(); err != nil {
		return &WorkerResult{Shard: shard, Fatal: "spawn: " + err.Error()}
	}
	done := make(chan error, 1)
	go func() { done <- cmd.Wait() }()
	var werr error
	select {
	case werr = <-done:
	case <-time.After(hard):
		cmd.Process.Kill()
		<-done
		logf.Close()
		return &WorkerResult{Shard: shard, Fatal: "timeout: worker killed after hard deadline", Capped: true}
	}
	logf.Close()
	b, rerr := os.ReadFile(out)
	if werr != nil || rerr != nil {
		logb, _ := os.ReadFile(logf.Name())
		return &WorkerResult{Shard: shard, Fatal: fmt.Sprintf("crash: %v %v: %s", werr, rerr, trunc(tail(string(logb), 1500), 1500))}
	}
	var r WorkerResult
	if err := json.Unmarshal(b, &r); err != nil {
		return &WorkerResult{Shard: shard, Fatal: "crash: bad worker output: " + err.Error()}
	}
	return &r
}

func tail(s string, n int) string {
	if len(s) > n {
		return s[len(s)-n:]
	}
	return s
}

// Replay re-runs one recorded case without the explorer. Returns exit code.
func Replay(path string, env *Env) int {
	b, err := os.ReadFile(path)
	if err != nil {
		fmt.Fprintln(os.Stderr, err)
		return 2
	}
	var rf ReplayFile
	if err := json.Unmarshal(b, &rf); err != nil {
		fmt.Fprintln(os.Stderr, err)
		return 2
	}
	p := Lookup(rf.Property)
	if p == nil {
		fmt.Fprintln(os.Stderr, "unknown property", rf.Property)
		return 2
	}
	if rf.Tier != "" {
		env.Tier = rf.Tier
	}
	if p.Setup != nil {
		ProcScratch = env.Scratch
		if err := p.Setup(env); err != nil {
			fmt.Fprintln(os.Stderr, "setup:", err)
			return 2
		}
	}
	c, err := p.Decode(rf.Case)
	if err != nil {
		fmt.Fprintln(os.Stderr, "decode:", err)
		return 2
	}
	out := p.Check(env, c)
	if out.HarnessError != "" {
		fmt.Println("HARNESS-ERROR", out.HarnessError)
		return 0
	}
	if len(out.Violations) == 0 {
		fmt.Printf("replay %s: property %s holds on this case\n", path, rf.Property)
		return 0
	}
	for _, v := range out.Violations {
		fmt.Printf("VIOLATION property=%s replay=%s\n  signature=%s\n  %s\n", rf.Property, path, v.Sig, strings.ReplaceAll(v.Detail, "\n", "\n  "))
	}
	return 1
}
