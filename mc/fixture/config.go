package fixture

import (
	"bytes"
	"os"
	"path/filepath"
	"strings"
	"time"

	"gopkg.in/yaml.v3"
)

// Doc is a configuration document under construction (rendered to YAML text so
// the real parser is always on the path).
type Doc map[string]any

// Base returns a minimal valid configuration.
func Base() Doc {
	return Doc{
		"name":        "pkg",
		"arch":        "amd64",
		"version":     "1.2.3",
		"maintainer":  "Jane Roe <jane@example.com>",
		"description": "A test package",
	}
}

// Clone copies the top level (nested values are shared; treat them as immutable).
func (d Doc) Clone() Doc {
	o := Doc{}
	for k, v := range d {
		o[k] = v
	}
	return o
}

func (d Doc) With(k string, v any) Doc {
	o := d.Clone()
	if v == nil {
		delete(o, k)
	} else {
		o[k] = v
	}
	return o
}

// YAML renders the document deterministically.
func (d Doc) YAML() string {
	var buf bytes.Buffer
	enc := yaml.NewEncoder(&buf)
	enc.SetIndent(2)
	if err := enc.Encode(map[string]any(d)); err != nil {
		panic(err)
	}
	enc.Close()
	return buf.String()
}

// ContentSpec mirrors one contents item for rendering.
type ContentSpec struct {
	Src, Dst, Type, Packager string
	Owner, Group             string
	Mode                     os.FileMode
	MTime                    time.Time
	HasInfo                  bool
	Expand                   bool
}

// ContentsYAML converts content specs to the generic form; on-disk sources are
// resolved below root (absolute), symlink sources stay literal.
func ContentsYAML(list []ContentSpec, root string) []any {
	var out []any
	for _, e := range list {
		m := map[string]any{"dst": e.Dst}
		if e.Src != "" {
			if e.Type == "symlink" || root == "" {
				m["src"] = e.Src
			} else {
				s := filepath.Join(root, e.Src)
				if strings.HasSuffix(e.Src, "/") {
					s += "/"
				}
				m["src"] = s
			}
		}
		if e.Type != "" {
			m["type"] = e.Type
		}
		if e.Packager != "" {
			m["packager"] = e.Packager
		}
		if e.Expand {
			m["expand"] = true
		}
		if e.HasInfo || e.Owner != "" || e.Group != "" || e.Mode != 0 || !e.MTime.IsZero() {
			fi := map[string]any{}
			if e.Owner != "" {
				fi["owner"] = e.Owner
			}
			if e.Group != "" {
				fi["group"] = e.Group
			}
			if e.Mode != 0 {
				fi["mode"] = int(e.Mode)
			}
			if !e.MTime.IsZero() {
				fi["mtime"] = e.MTime
			}
			m["file_info"] = fi
		}
		out = append(out, m)
	}
	return out
}
