// Package fixture materialises the standard source tree T and renders
// configurations as YAML text.
package fixture

import (
	"crypto/sha256"
	"encoding/hex"
	"fmt"
	"os"
	"path/filepath"
	"sort"
	"strings"
	"time"

	"golang.org/x/sys/unix"
)

// Node is one object of the source tree as the harness created it (ground truth).
type Node struct {
	Rel    string
	Kind   string // file | dir | symlink
	Mode   os.FileMode
	MTime  time.Time
	Data   []byte
	Target string
	LinkOf string // file: created as a hard link to this node
}

func (n *Node) SHA256() string {
	s := sha256.Sum256(n.Data)
	return hex.EncodeToString(s[:])
}

// Tree is the materialised tree.
type Tree struct {
	Root  string
	Nodes map[string]*Node
}

func (t *Tree) P(rel string) string { return filepath.Join(t.Root, rel) }

// Get returns the node for a path relative to Root (or absolute below Root).
func (t *Tree) Get(p string) *Node {
	if filepath.IsAbs(p) {
		r, err := filepath.Rel(t.Root, p)
		if err != nil {
			return nil
		}
		p = r
	}
	return t.Nodes[filepath.Clean(p)]
}

// Children lists the nodes strictly below rel, sorted.
func (t *Tree) Below(rel string) []*Node {
	rel = filepath.Clean(rel)
	var out []*Node
	for k, n := range t.Nodes {
		if strings.HasPrefix(k, rel+"/") {
			out = append(out, n)
		}
	}
	sort.Slice(out, func(i, j int) bool { return out[i].Rel < out[j].Rel })
	return out
}

// Noise produces n deterministic, poorly compressible bytes.
func Noise(n int, seed uint64) []byte {
	b := make([]byte, n)
	x := seed*2862933555777941757 + 3037000493
	for i := range b {
		x ^= x << 13
		x ^= x >> 7
		x ^= x << 17
		b[i] = byte(x >> 24)
	}
	return b
}

func text(name string, n int) []byte {
	var sb strings.Builder
	i := 0
	for sb.Len() < n {
		fmt.Fprintf(&sb, "%s line %d\n", name, i)
		i++
	}
	return []byte(sb.String()[:n])
}

// Changelog is a chglog file with two entries.
const Changelog = `- semver: "1.1.0-1"
  date: "2009-12-08T22:00:00Z"
  packager: "Jane Roe <jane@example.com>"
  urgency: "low"
  distribution: "stable"
  deb:
    urgency: medium
    distributions:
      - bookworm
  changes:
    - note: "second release note one"
    - note: "second release note two"
- semver: "1.0.0-1"
  date: "2009-11-10T23:00:00Z"
  packager: "Jane Roe <jane@example.com>"
  urgency: "low"
  distribution: "stable"
  deb:
    urgency: medium
    distributions:
      - bookworm
  changes:
    - note: "first release note"
- semver: "0.9.0"
  date: "2009-10-01T12:00:00+02:00"
  changes:
    - note: "entry without packager"
- semver: "0.8.0"
  date: "2009-09-01T09:00:00Z"
  packager: "Jane Roe <jane@example.com>"
  deb:
    urgency: high
`

// UnorderedChangelog: versions 1.0.1, 2.0.0, 0.9.0-rc1, 2.0.0, 1.5.0 in this order; the first entry is dated far in
// the future (an announced release, a build host whose clock is behind): an entry of the file all the same.
const UnorderedChangelog = `- semver: "1.0.1"
  date: "2099-12-08T22:00:00Z"
  packager: "Jane Roe <jane@example.com>"
  changes:
    - note: "note of 1.0.1 (first in the file)"
- semver: "2.0.0"
  date: "2009-11-10T23:00:00Z"
  packager: "Jane Roe <jane@example.com>"
  changes:
    - note: "note of 2.0.0 (second in the file)"
- semver: "0.9.0-rc1"
  date: "2009-10-01T10:00:00Z"
  packager: "Jane Roe <jane@example.com>"
  changes:
    - note: "note of 0.9.0-rc1 (third in the file)"
- semver: "2.0.0"
  date: "2009-09-01T09:00:00Z"
  packager: "Jane Roe <jane@example.com>"
  changes:
    - note: "note of the second 2.0.0 (fourth in the file)"
- semver: "1.5.0"
  date: "2009-08-01T09:00:00Z"
  packager: "Jane Roe <jane@example.com>"
  changes:
    - note: "note of 1.5.0 (last in the file)"
`

// BigChangelog renders 240 changelog entries (about 40 KB as Debian changelog text, about 2 KB gzipped).
func BigChangelog() string {
	var b strings.Builder
	for i := 240; i >= 1; i-- {
		fmt.Fprintf(&b, "- semver: \"1.%d.0\"\n  date: \"2009-%02d-%02dT10:00:00Z\"\n  packager: \"Jane Roe <jane@example.com>\"\n  changes:\n    - note: \"release note number %d with some repetitive explanatory text\"\n    - note: \"another repetitive line for entry %d\"\n", i, 1+i%12, 1+i%28, i, i)
	}
	return b.String()
}

// T0 is the base instant; every fixture mtime lies in 2001..2005.
var T0 = time.Date(2001, 2, 3, 4, 5, 6, 0, time.UTC)

// FracOf gives the sub-second part of the on-disk mtime of the fixture nodes that have one.
var FracOf = map[string]time.Duration{"frac": 750 * time.Millisecond, "frac/f75.txt": 750 * time.Millisecond, "frac/f25.txt": 250 * time.Millisecond,
	"frac/f999.txt": 999999999 * time.Nanosecond, "frac/f5.txt": 500 * time.Millisecond, "frac/sub": 600 * time.Millisecond, "frac/sub/g.txt": 900 * time.Millisecond, "frac/l": 800 * time.Millisecond}

// TimeOf gives the on-disk mtime of the fixture nodes whose time lies outside the usual years: before the epoch,
// exactly the epoch, beyond 2^31 and beyond 2^32 seconds.
var TimeOf = map[string]time.Time{
	"epochs/y1960.txt": time.Date(1960, 1, 2, 3, 4, 5, 0, time.UTC),
	"epochs/y1970.txt": time.Unix(0, 0).UTC(),
	"epochs/y2040.txt": time.Date(2040, 1, 2, 3, 4, 5, 0, time.UTC),
	"epochs/y2110.txt": time.Date(2110, 1, 2, 3, 4, 5, 0, time.UTC),
	// the two names of one file have one time
	"hardlinks/first.bin":  T0.Add(4321 * time.Hour),
	"hardlinks/second.bin": T0.Add(4321 * time.Hour),
}

// OddNames are the file names below oddnames/.
var OddNames = []string{"caf\xe9-latin1.txt", "nf-cafe\u0301.txt", "nf-caf\u00e9.txt", "trailing-blank ", " leading-blank", "-rf", "#hash", "semi;colon", "back`tick", "star*", "brace{a,b}", "q'uo\"te", "pct%41", "colon:name", "comma,name", "dollar$HOME", "amp&ersand", "pipe|name", "lt<gt>", "excl!", "tilde~", "eq=ual", "at@sign", "plus+"}

// BoundarySizes are the sizes of the sizes/s<N>.bin fixture files.
var BoundarySizes = []int{511, 512, 513, 4095, 4096, 4097, 32767, 32768, 32769, 65535, 65536, 65537, 1<<20 - 1, 1 << 20, 1<<20 + 1}

func mt(i int) time.Time { return T0.Add(time.Duration(i) * 1013 * time.Hour) }

// Spec returns the standard tree; big is the size of share/big.bin.
func Spec(big int) []Node {
	ns := []Node{
		{Rel: "bin", Kind: "dir", Mode: 0o755},
		{Rel: "bin/app", Kind: "file", Mode: 0o755, Data: Noise(4097, 1)},
		{Rel: "bin/suid", Kind: "file", Mode: 0o755 | os.ModeSetuid, Data: text("suid", 300)},
		{Rel: "etc", Kind: "dir", Mode: 0o755},
		{Rel: "etc/app.conf", Kind: "file", Mode: 0o644, Data: text("app.conf", 1024)},
		{Rel: "etc/empty", Kind: "file", Mode: 0o644, Data: []byte{}},
		{Rel: "etc/conf", Kind: "dir", Mode: 0o755},
		{Rel: "etc/conf/main.conf", Kind: "file", Mode: 0o644, Data: text("main.conf", 64)},
		{Rel: "etc/conf.d", Kind: "dir", Mode: 0o755},
		{Rel: "etc/conf.d/a.conf", Kind: "file", Mode: 0o640, Data: text("a.conf", 1023)},
		{Rel: "etc/conf.d/b.conf", Kind: "file", Mode: 0o600, Data: text("b.conf", 1)},
		{Rel: "share", Kind: "dir", Mode: 0o755},
		{Rel: "share/a b.txt", Kind: "file", Mode: 0o664, Data: text("a b", 5000)},
		{Rel: "share/we[i]rd*.txt", Kind: "file", Mode: 0o644, Data: text("weird", 77)},
		{Rel: "share/big.bin", Kind: "file", Mode: 0o644, Data: Noise(big, 7)},
		{Rel: "share/ww.txt", Kind: "file", Mode: 0o666, Data: text("ww", 10)},
		{Rel: "share/f5000.bin", Kind: "file", Mode: 0o644, Data: Noise(5000, 11)},
		{Rel: "share/f1024.bin", Kind: "file", Mode: 0o644, Data: Noise(1024, 12)},
		{Rel: "share/mut.bin", Kind: "file", Mode: 0o644, Data: Noise(3000, 13)},
		{Rel: "link", Kind: "symlink", Target: "bin/app"},
		{Rel: "tree", Kind: "dir", Mode: 0o755},
		{Rel: "tree/x", Kind: "file", Mode: 0o644, Data: text("x", 40)},
		{Rel: "tree/sub", Kind: "dir", Mode: 0o755},
		{Rel: "tree/sub/y", Kind: "file", Mode: 0o600, Data: text("y", 2048)},
		{Rel: "tree/sub/l", Kind: "symlink", Target: "../x"},
		{Rel: "tree/emptydir", Kind: "dir", Mode: 0o750},
		// on-disk symlinks whose targets are not in canonical form: they must be shipped literally
		{Rel: "links", Kind: "dir", Mode: 0o755},
		{Rel: "links/store", Kind: "dir", Mode: 0o755},
		{Rel: "links/store/lib.so.1.2", Kind: "file", Mode: 0o755, Data: Noise(777, 21)},
		{Rel: "links/dot", Kind: "symlink", Target: "./store/lib.so.1.2"},
		{Rel: "links/updown", Kind: "symlink", Target: "store/../store/lib.so.1.2"},
		{Rel: "links/dirslash", Kind: "symlink", Target: "store/"},
		{Rel: "links/plain", Kind: "symlink", Target: "store/lib.so.1.2"},
		{Rel: "links/dangling", Kind: "symlink", Target: "../nowhere//x"},
		{Rel: "scripts", Kind: "dir", Mode: 0o755},
		{Rel: "doc", Kind: "dir", Mode: 0o755},
		{Rel: "doc/README", Kind: "file", Mode: 0o644, Data: text("readme", 120)},
		{Rel: "doc/LICENSE", Kind: "file", Mode: 0o644, Data: text("license", 130)},
		{Rel: "doc/manual.txt", Kind: "file", Mode: 0o644, Data: text("manual", 140)},
		{Rel: "changelog.yaml", Kind: "file", Mode: 0o644, Data: []byte(Changelog)},
		// sources whose on-disk mtimes are not whole seconds (see FracOf)
		{Rel: "frac", Kind: "dir", Mode: 0o755},
		{Rel: "frac/f75.txt", Kind: "file", Mode: 0o644, Data: text("f75", 75)},
		{Rel: "frac/f25.txt", Kind: "file", Mode: 0o644, Data: text("f25", 25)},
		{Rel: "frac/f999.txt", Kind: "file", Mode: 0o644, Data: text("f999", 99)},
		{Rel: "frac/f5.txt", Kind: "file", Mode: 0o644, Data: text("f5", 50)},
		{Rel: "frac/sub", Kind: "dir", Mode: 0o755},
		{Rel: "frac/sub/g.txt", Kind: "file", Mode: 0o644, Data: text("g", 60)},
		{Rel: "frac/l", Kind: "symlink", Target: "f75.txt"},
	}
	// a directory with dot files next to files of the same name without the dot
	for _, n := range []Node{
		{Rel: "dots", Kind: "dir", Mode: 0o755},
		{Rel: "dots/.env", Kind: "file", Mode: 0o600, Data: text(".env", 20)},
		{Rel: "dots/env", Kind: "file", Mode: 0o644, Data: text("env", 21)},
		{Rel: "dots/.config", Kind: "dir", Mode: 0o700},
		{Rel: "dots/.config/settings", Kind: "file", Mode: 0o644, Data: text("settings", 22)},
		{Rel: "dots/sub", Kind: "dir", Mode: 0o755},
		{Rel: "dots/sub/.keep", Kind: "file", Mode: 0o644, Data: []byte{}},
		{Rel: "dots/..data", Kind: "file", Mode: 0o644, Data: text("dotdot", 23)},
	} {
		ns = append(ns, n)
	}
	// a tree with symbolic links whose targets are absolute paths into the tree itself ({ROOT} = the fixture root)
	for _, n := range []Node{
		{Rel: "abslinks", Kind: "dir", Mode: 0o755},
		{Rel: "abslinks/releases", Kind: "dir", Mode: 0o755},
		{Rel: "abslinks/releases/v1", Kind: "file", Mode: 0o644, Data: text("v1", 41)},
		{Rel: "abslinks/current", Kind: "symlink", Target: "{ROOT}/abslinks/releases/v1"},
		{Rel: "abslinks/self", Kind: "symlink", Target: "{ROOT}/abslinks"},
	} {
		ns = append(ns, n)
	}
	// a directory in which a symbolic link sorts before (and between) regular files
	for _, n := range []Node{
		{Rel: "mixed", Kind: "dir", Mode: 0o755},
		{Rel: "mixed/0link.conf", Kind: "symlink", Target: "b.conf"},
		{Rel: "mixed/a.conf", Kind: "file", Mode: 0o644, Data: text("mixed a", 31)},
		{Rel: "mixed/b.conf", Kind: "file", Mode: 0o640, Data: text("mixed b", 32)},
		{Rel: "mixed/m-link.conf", Kind: "symlink", Target: "/etc/elsewhere.conf"},
		{Rel: "mixed/z.conf", Kind: "file", Mode: 0o600, Data: text("mixed z", 33)},
	} {
		ns = append(ns, n)
	}
	// a changelog with an entry dated by day only, one that has no date (and one without packager)
	ns = append(ns, Node{Rel: "changelog-undated.yaml", Kind: "file", Mode: 0o644, Data: []byte(`- semver: "1.1.0"
  date: "2009-12-08T22:00:00Z"
  packager: "Jane Roe <jane@example.com>"
  changes:
    - note: "dated entry"
- semver: "1.0.5"
  date: 2009-11-20
  packager: "Jane Roe <jane@example.com>"
  changes:
    - note: "entry dated with a day only (midnight UTC, whatever the zone of the build host)"
- semver: "1.0.0"
  packager: "Jane Roe <jane@example.com>"
  changes:
    - note: "entry without a date"
- semver: "0.9.0"
  changes:
    - note: "entry without date and packager"
`)})
	// a changelog whose entries are not in descending version order (kept as written), two of them with equal versions
	ns = append(ns, Node{Rel: "changelog-unordered.yaml", Kind: "file", Mode: 0o644, Data: []byte(UnorderedChangelog)})
	// a changelog file without entries
	ns = append(ns, Node{Rel: "changelog-empty.yaml", Kind: "file", Mode: 0o644, Data: []byte("[]\n")})
	// a long changelog: its text is many times larger than its gzip form
	ns = append(ns, Node{Rel: "changelog-big.yaml", Kind: "file", Mode: 0o644, Data: []byte(BigChangelog())})
	// a root file system image: packaged as a tree at "/", most of its directories belong to the distribution's
	// filesystem package
	for _, n := range []Node{
		{Rel: "rootfs", Kind: "dir", Mode: 0o755},
		{Rel: "rootfs/usr", Kind: "dir", Mode: 0o750},
		{Rel: "rootfs/usr/bin", Kind: "dir", Mode: 0o755},
		{Rel: "rootfs/usr/bin/tool", Kind: "file", Mode: 0o755, Data: text("tool", 200)},
		{Rel: "rootfs/usr/share", Kind: "dir", Mode: 0o755},
		{Rel: "rootfs/usr/share/licenses", Kind: "dir", Mode: 0o755},
		{Rel: "rootfs/usr/share/licenses/logrotate", Kind: "dir", Mode: 0o755},
		{Rel: "rootfs/usr/share/licenses/logrotate/COPYING", Kind: "file", Mode: 0o644, Data: text("copying", 90)},
		{Rel: "rootfs/etc", Kind: "dir", Mode: 0o750},
		{Rel: "rootfs/etc/app", Kind: "dir", Mode: 0o750},
		{Rel: "rootfs/etc/app/app.conf", Kind: "file", Mode: 0o640, Data: text("rootfs app.conf", 70)},
		{Rel: "rootfs/etc/logrotate.d", Kind: "dir", Mode: 0o755},
		{Rel: "rootfs/etc/logrotate.d/app", Kind: "file", Mode: 0o644, Data: text("logrotate", 80)},
		{Rel: "rootfs/var", Kind: "dir", Mode: 0o755},
		{Rel: "rootfs/var/lib", Kind: "dir", Mode: 0o755},
		{Rel: "rootfs/var/lib/logrotate", Kind: "dir", Mode: 0o700},
		{Rel: "rootfs/var/lib/logrotate/status", Kind: "file", Mode: 0o600, Data: text("status", 10)},
		{Rel: "rootfs/opt", Kind: "dir", Mode: 0o755},
		{Rel: "rootfs/opt/x", Kind: "dir", Mode: 0o700},
		{Rel: "rootfs/opt/x/f", Kind: "file", Mode: 0o644, Data: text("f", 30)},
		{Rel: "rootfs/sbin", Kind: "symlink", Target: "usr/sbin"},
		{Rel: "rootfs/mnt", Kind: "dir", Mode: 0o755}, // an empty directory of the filesystem package
	} {
		ns = append(ns, n)
	}
	// files whose sizes sit on block, buffer and streaming-threshold boundaries
	ns = append(ns, Node{Rel: "sizes", Kind: "dir", Mode: 0o755})
	for i, n := range BoundarySizes {
		ns = append(ns, Node{Rel: fmt.Sprintf("sizes/s%d.bin", n), Kind: "file", Mode: 0o644, Data: Noise(n, uint64(100+i))})
	}
	// many small files in many directories, and files larger than every window and block size a compressor uses
	firstMany := len(ns)
	ns = append(ns, Node{Rel: "many", Kind: "dir", Mode: 0o755})
	for d := 0; d < ManyDirs; d++ {
		ns = append(ns, Node{Rel: fmt.Sprintf("many/d%02d", d), Kind: "dir", Mode: 0o755})
		for f := 0; f < ManyFiles; f++ {
			ns = append(ns, Node{Rel: fmt.Sprintf("many/d%02d/f%03d", d, f), Kind: "file", Mode: 0o644, Data: []byte(fmt.Sprintf("file %d of directory %d\n", f, d))})
		}
	}
	// one directory with more entries than a directory read returns at once; a chain of DeepLevels directories;
	// files of one name in sibling directories
	ns = append(ns, Node{Rel: "wide", Kind: "dir", Mode: 0o755})
	for f := 0; f < WideFiles; f++ {
		ns = append(ns, Node{Rel: fmt.Sprintf("wide/w%04d", f), Kind: "file", Mode: 0o644, Data: []byte(fmt.Sprintf("wide %d\n", f))})
	}
	deep := "deep"
	ns = append(ns, Node{Rel: deep, Kind: "dir", Mode: 0o755})
	for l := 0; l < DeepLevels; l++ {
		deep += fmt.Sprintf("/l%d", l)
		ns = append(ns, Node{Rel: deep, Kind: "dir", Mode: 0o755})
	}
	ns = append(ns, Node{Rel: deep + "/bottom", Kind: "file", Mode: 0o644, Data: text("bottom", 40)})
	// a source whose path is at most 100 bytes when written relative to the tree and longer when written absolutely
	ns = append(ns, Node{Rel: "longsrc", Kind: "dir", Mode: 0o755})
	ns = append(ns, Node{Rel: LongSrcDir, Kind: "dir", Mode: 0o755})
	ns = append(ns, Node{Rel: LongSrcDir + "/payload.bin", Kind: "file", Mode: 0o644, Data: Noise(3000, 4242)})
	ns = append(ns, Node{Rel: LongSrcDir + "/settings.conf", Kind: "file", Mode: 0o640, Data: text("long source settings", 60)})
	// names that are not plain text: bytes that are not UTF-8, the two Unicode spellings of one letter, blanks at
	// the ends, characters that mean something to a shell, a glob or a line-oriented file
	ns = append(ns, Node{Rel: "oddnames", Kind: "dir", Mode: 0o755})
	for i, n := range OddNames {
		ns = append(ns, Node{Rel: "oddnames/" + n, Kind: "file", Mode: 0o644, Data: text(fmt.Sprintf("odd name %d", i), 20+i)})
	}
	// two names of one file (hard links), a symbolic link to a directory
	ns = append(ns, Node{Rel: "hardlinks", Kind: "dir", Mode: 0o755})
	ns = append(ns, Node{Rel: "hardlinks/first.bin", Kind: "file", Mode: 0o644, Data: Noise(5000, 31337)})
	ns = append(ns, Node{Rel: "hardlinks/second.bin", Kind: "file", Mode: 0o644, Data: Noise(5000, 31337), LinkOf: "hardlinks/first.bin"})
	ns = append(ns, Node{Rel: "hardlinks/other.bin", Kind: "file", Mode: 0o644, Data: Noise(300, 31338)})
	ns = append(ns, Node{Rel: "dirlink", Kind: "symlink", Target: "tree"})
	// the special mode bits on disk: a sticky directory and file, set-group-id directory and file, all three at once
	ns = append(ns, Node{Rel: "modes", Kind: "dir", Mode: 0o755})
	ns = append(ns, Node{Rel: "modes/sticky-dir", Kind: "dir", Mode: 0o777 | os.ModeSticky})
	ns = append(ns, Node{Rel: "modes/sticky-dir/inside.txt", Kind: "file", Mode: 0o644, Data: text("inside sticky dir", 40)})
	ns = append(ns, Node{Rel: "modes/setgid-dir", Kind: "dir", Mode: 0o775 | os.ModeSetgid})
	ns = append(ns, Node{Rel: "modes/setgid-dir/inside.txt", Kind: "file", Mode: 0o664, Data: text("inside setgid dir", 41)})
	ns = append(ns, Node{Rel: "modes/both-dir", Kind: "dir", Mode: 0o775 | os.ModeSetgid | os.ModeSticky})
	ns = append(ns, Node{Rel: "modes/both-dir/inside.txt", Kind: "file", Mode: 0o600, Data: text("inside both dir", 42)})
	ns = append(ns, Node{Rel: "modes/sticky-file", Kind: "file", Mode: 0o644 | os.ModeSticky, Data: text("sticky file", 43)})
	ns = append(ns, Node{Rel: "modes/setgid-file", Kind: "file", Mode: 0o755 | os.ModeSetgid, Data: text("setgid file", 44)})
	ns = append(ns, Node{Rel: "modes/all-file", Kind: "file", Mode: 0o755 | os.ModeSetuid | os.ModeSetgid | os.ModeSticky, Data: text("all bits file", 45)})
	ns = append(ns, Node{Rel: "epochs", Kind: "dir", Mode: 0o755})
	for _, n := range []string{"epochs/y1960.txt", "epochs/y1970.txt", "epochs/y2040.txt", "epochs/y2110.txt"} {
		ns = append(ns, Node{Rel: n, Kind: "file", Mode: 0o644, Data: text(n, 30)})
	}
	ns = append(ns, Node{Rel: "samename", Kind: "dir", Mode: 0o755})
	for _, a := range []string{"amd64", "arm64", "riscv64"} {
		ns = append(ns, Node{Rel: "samename/" + a, Kind: "dir", Mode: 0o755})
		ns = append(ns, Node{Rel: "samename/" + a + "/libfoo.so", Kind: "file", Mode: 0o755, Data: text("libfoo "+a, 50)})
		ns = append(ns, Node{Rel: "samename/" + a + "/only-" + a, Kind: "file", Mode: 0o644, Data: text("only "+a, 20)})
	}
	ns = append(ns, Node{Rel: "huge", Kind: "dir", Mode: 0o755})
	ns = append(ns, Node{Rel: "huge/noise.bin", Kind: "file", Mode: 0o644, Data: Noise(9<<20+5, 777)})
	ns = append(ns, Node{Rel: "huge/zeros.bin", Kind: "file", Mode: 0o644, Data: make([]byte, 12<<20)})
	for i := range ns {
		ns[i].MTime = mt(i + 1).Add(FracOf[ns[i].Rel])
		if i >= firstMany {
			// minutes apart: thousands of nodes stay within the years of the others
			ns[i].MTime = mt(firstMany + 1).Add(time.Duration(i-firstMany) * 61 * time.Second)
		}
		if t, ok := TimeOf[ns[i].Rel]; ok {
			ns[i].MTime = t
		}
	}
	return ns
}

// ManyDirs x ManyFiles small files make up the many/ fixture tree.
const (
	ManyDirs   = 20
	ManyFiles  = 100
	WideFiles  = 1500
	DeepLevels = 40
)

// LongSrcDir is a directory whose files have relative paths of 85-95 bytes.
const LongSrcDir = "longsrc/a-directory-name-of-seventy-bytes-so-that-paths-cross-one-hundred-00"

// DeepPath is the path of the deep/ chain below the fixture root down to level n.
func DeepPath(n int) string {
	p := "deep"
	for l := 0; l < n; l++ {
		p += fmt.Sprintf("/l%d", l)
	}
	return p
}

// Materialize creates the nodes under root (root must not exist or be empty).
func Materialize(root string, nodes []Node) (*Tree, error) {
	old := unix.Umask(0)
	defer unix.Umask(old)
	if err := os.MkdirAll(root, 0o755); err != nil {
		return nil, err
	}
	t := &Tree{Root: root, Nodes: map[string]*Node{}}
	for i := range nodes {
		n := nodes[i]
		p := filepath.Join(root, n.Rel)
		switch n.Kind {
		case "dir":
			if err := os.MkdirAll(p, 0o755); err != nil {
				return nil, err
			}
			if err := os.Chmod(p, n.Mode); err != nil {
				return nil, err
			}
		case "file":
			if err := os.MkdirAll(filepath.Dir(p), 0o755); err != nil {
				return nil, err
			}
			if n.LinkOf != "" {
				// a second name of an existing file
				if err := os.Link(filepath.Join(root, n.LinkOf), p); err != nil {
					return nil, err
				}
				break
			}
			if err := os.WriteFile(p, n.Data, 0o600); err != nil {
				return nil, err
			}
			if err := os.Chmod(p, n.Mode); err != nil {
				return nil, err
			}
		case "symlink":
			if err := os.MkdirAll(filepath.Dir(p), 0o755); err != nil {
				return nil, err
			}
			n.Target = strings.ReplaceAll(n.Target, "{ROOT}", root)
			if err := os.Symlink(n.Target, p); err != nil {
				return nil, err
			}
		}
		nn := n
		t.Nodes[filepath.Clean(n.Rel)] = &nn
	}
	// times last, deepest first, so directory mtimes stick
	rels := make([]string, 0, len(nodes))
	for _, n := range nodes {
		rels = append(rels, n.Rel)
	}
	sort.Slice(rels, func(i, j int) bool { return strings.Count(rels[i], "/") > strings.Count(rels[j], "/") })
	for _, r := range rels {
		n := t.Nodes[filepath.Clean(r)]
		ts := []unix.Timespec{unix.NsecToTimespec(n.MTime.UnixNano()), unix.NsecToTimespec(n.MTime.UnixNano())}
		if err := unix.UtimesNanoAt(unix.AT_FDCWD, filepath.Join(root, r), ts, unix.AT_SYMLINK_NOFOLLOW); err != nil {
			return nil, err
		}
	}
	rt := []unix.Timespec{unix.NsecToTimespec(T0.UnixNano()), unix.NsecToTimespec(T0.UnixNano())}
	_ = unix.UtimesNanoAt(unix.AT_FDCWD, root, rt, 0)
	// verify what we made (a harness that lies about its fixture raises false alarms)
	for r, n := range t.Nodes {
		st, err := os.Lstat(filepath.Join(root, r))
		if err != nil {
			return nil, err
		}
		if n.Kind != "symlink" && st.Mode()&(os.ModePerm|os.ModeSetuid|os.ModeSetgid|os.ModeSticky) != n.Mode {
			return nil, fmt.Errorf("fixture %s: mode %v, wanted %v", r, st.Mode(), n.Mode)
		}
		if !st.ModTime().Equal(n.MTime) {
			return nil, fmt.Errorf("fixture %s: mtime %v, wanted %v", r, st.ModTime(), n.MTime)
		}
	}
	return t, nil
}

// Mutate applies one change to the tree on disk and in the harness's model and
// returns the function that undoes it. Kinds: add (new file next to rel),
// remove, rewrite (other bytes, same length and mtime), chmod, retime.
func (t *Tree) Mutate(kind, rel string) (undo func(), err error) {
	p := filepath.Join(t.Root, rel)
	setTimes := func(path string, mt time.Time) {
		ts := []unix.Timespec{unix.NsecToTimespec(mt.UnixNano()), unix.NsecToTimespec(mt.UnixNano())}
		unix.UtimesNanoAt(unix.AT_FDCWD, path, ts, unix.AT_SYMLINK_NOFOLLOW)
	}
	parent := filepath.Dir(p)
	pst, _ := os.Stat(parent)
	restoreParent := func() {
		if pst != nil {
			setTimes(parent, pst.ModTime())
		}
	}
	switch kind {
	case "add":
		n := &Node{Rel: filepath.Clean(rel), Kind: "file", Mode: 0o640, MTime: T0.Add(12345 * time.Hour), Data: Noise(321, 77)}
		if err := os.WriteFile(p, n.Data, 0o600); err != nil {
			return nil, err
		}
		os.Chmod(p, n.Mode)
		setTimes(p, n.MTime)
		restoreParent()
		t.Nodes[n.Rel] = n
		return func() { os.Remove(p); delete(t.Nodes, n.Rel); restoreParent() }, nil
	case "remove":
		n := t.Nodes[filepath.Clean(rel)]
		if n == nil || n.Kind != "file" {
			return nil, fmt.Errorf("remove: %s is not a file of the tree", rel)
		}
		if err := os.Remove(p); err != nil {
			return nil, err
		}
		restoreParent()
		delete(t.Nodes, n.Rel)
		return func() {
			os.WriteFile(p, n.Data, 0o600)
			os.Chmod(p, n.Mode)
			setTimes(p, n.MTime)
			t.Nodes[n.Rel] = n
			restoreParent()
		}, nil
	case "rewrite", "chmod", "retime":
		n := t.Nodes[filepath.Clean(rel)]
		if n == nil || n.Kind != "file" {
			return nil, fmt.Errorf("%s: %s is not a file of the tree", kind, rel)
		}
		old := *n
		switch kind {
		case "rewrite":
			n.Data = Noise(len(old.Data), 4242)
			os.WriteFile(p, n.Data, 0o600)
			os.Chmod(p, n.Mode)
		case "chmod":
			n.Mode = 0o751
			os.Chmod(p, n.Mode)
		case "retime":
			n.MTime = T0.Add(23456 * time.Hour)
		}
		setTimes(p, n.MTime)
		restoreParent()
		return func() {
			*n = old
			os.WriteFile(p, n.Data, 0o600)
			os.Chmod(p, n.Mode)
			setTimes(p, n.MTime)
			restoreParent()
		}, nil
	}
	return nil, fmt.Errorf("unknown mutation %s", kind)
}
