module verif/mc

go 1.23.0

require (
	github.com/goreleaser/nfpm/v2 v2.0.0
	golang.org/x/sys v0.31.0
)

require (
	github.com/gobwas/glob v0.2.3 // indirect
	github.com/goreleaser/fileglob v1.3.0 // indirect
)

replace github.com/goreleaser/nfpm/v2 => /repo
