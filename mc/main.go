// Command mc is the verification harness for goreleaser/nfpm.
//
//	mc run <ID> <quick|thorough>      explore the property's bounded space (parent; forks workers)
//	mc worker <ID> <tier> --shard ..  one shard (internal)
//	mc replay <file>                  re-run one recorded case
//	mc list                           list property ids
package main

import (
	"flag"
	"fmt"
	"os"
	"os/exec"
	"path/filepath"
	"strconv"
	"time"

	"verif/mc/engine"
	"verif/mc/props"
)

func tools() map[string]string {
	t := map[string]string{}
	for _, name := range []string{"dpkg-deb", "dpkg", "gpgv", "gpg", "xz", "ar", "tar", "openssl", "zstd", "bsdtar", "python3-vt"} {
		if p, err := exec.LookPath(name); err == nil {
			t[name] = p
		}
	}
	return t
}

func envOr(k, def string) string {
	if v := os.Getenv(k); v != "" {
		return v
	}
	return def
}

func main() {
	if len(os.Args) < 2 {
		fmt.Fprintln(os.Stderr, "usage: mc run|worker|replay|list ...")
		os.Exit(2)
	}
	verif := envOr("VERIF_DIR", "/verif")
	repo := envOr("VERIF_REPO", "/repo")
	seed, _ := strconv.ParseInt(envOr("VERIF_SEED", "0"), 10, 64)
	switch os.Args[1] {
	case "list":
		for _, id := range engine.IDs() {
			fmt.Println(id)
		}
	case "run":
		if len(os.Args) < 4 {
			fmt.Fprintln(os.Stderr, "usage: mc run <ID> <tier>")
			os.Exit(2)
		}
		p := engine.Lookup(os.Args[2])
		if p == nil {
			fmt.Fprintln(os.Stderr, "unknown property", os.Args[2])
			os.Exit(2)
		}
		tier := os.Args[3]
		budget := 8 * time.Minute
		if tier == "thorough" {
			budget = 45 * time.Minute
		}
		if v := os.Getenv("VERIF_BUDGET_S"); v != "" {
			if s, err := strconv.Atoi(v); err == nil {
				budget = time.Duration(s) * time.Second
			}
		}
		self, _ := os.Executable()
		workers := 0
		if v := os.Getenv("VERIF_WORKERS"); v != "" {
			workers, _ = strconv.Atoi(v)
		}
		os.Exit(engine.RunParent(p, engine.RunOptions{Tier: tier, Seed: seed, Verif: verif, Repo: repo, Self: self, Budget: budget, Workers: workers}))
	case "worker":
		fs := flag.NewFlagSet("worker", flag.ExitOnError)
		shard := fs.Int("shard", 0, "")
		of := fs.Int("of", 1, "")
		out := fs.String("out", "", "")
		scratch := fs.String("scratch", "", "")
		deadline := fs.Int64("deadline", 0, "")
		wseed := fs.Int64("seed", 0, "")
		fs.Parse(os.Args[4:])
		p := engine.Lookup(os.Args[2])
		if p == nil {
			os.Exit(2)
		}
		self, _ := os.Executable()
		env := &engine.Env{Tier: os.Args[3], Seed: *wseed, Scratch: *scratch, Repo: repo, Verif: verif, Shard: *shard, Of: *of, Data: map[string]any{}, Tools: tools(), Self: self}
		if *deadline > 0 {
			env.Deadline = time.Unix(*deadline, 0)
		}
		res := engine.RunWorker(p, env)
		if err := engine.WriteJSON(*out, res); err != nil {
			fmt.Fprintln(os.Stderr, err)
			os.Exit(2)
		}
	case "casecheck":
		// mc casecheck <ID> <tier> <case.json> <scratch>: one case in a fresh process (internal)
		if len(os.Args) < 6 {
			os.Exit(2)
		}
		p := engine.Lookup(os.Args[2])
		if p == nil {
			os.Exit(2)
		}
		os.MkdirAll(os.Args[5], 0o755)
		env := &engine.Env{Tier: os.Args[3], Seed: seed, Scratch: os.Args[5], Repo: repo, Verif: verif, Of: 1, Data: map[string]any{}, Tools: tools()}
		os.Exit(engine.CaseCheck(p, env, os.Args[4]))
	case "racepass":
		// mc racepass <tier> <outfile>: free-running pass of the C12 bodies (binary built with -race)
		if len(os.Args) < 4 {
			os.Exit(2)
		}
		root := envOr("VERIF_SCRATCH", "/var/tmp/nfpm-verif")
		os.MkdirAll(root, 0o755)
		scratch, err := os.MkdirTemp(root, "racepass-")
		if err != nil {
			fmt.Fprintln(os.Stderr, err)
			os.Exit(2)
		}
		env := &engine.Env{Tier: os.Args[2], Seed: seed, Scratch: scratch, Repo: repo, Verif: verif, Of: 1, Data: map[string]any{}, Tools: tools()}
		err = props.RacePass(env, os.Args[3])
		os.RemoveAll(scratch)
		if err != nil {
			fmt.Fprintln(os.Stderr, err)
			os.Exit(2)
		}
	case "replay":
		if len(os.Args) < 3 {
			os.Exit(2)
		}
		root := envOr("VERIF_SCRATCH", "/var/tmp/nfpm-verif")
		os.MkdirAll(root, 0o755)
		scratch, err := os.MkdirTemp(root, "replay-")
		if err != nil {
			fmt.Fprintln(os.Stderr, err)
			os.Exit(2)
		}
		env := &engine.Env{Tier: "quick", Seed: seed, Scratch: scratch, Repo: repo, Verif: verif, Of: 1, Data: map[string]any{}, Tools: tools()}
		path, _ := filepath.Abs(os.Args[2])
		code := engine.Replay(path, env)
		os.RemoveAll(scratch)
		os.Exit(code)
	default:
		fmt.Fprintln(os.Stderr, "unknown command", os.Args[1])
		os.Exit(2)
	}
}
