package model

import (
	"fmt"
	"sort"
	"strconv"
	"strings"
)

// MetaCfg is the harness's own description of the metadata part of a configuration.
type MetaCfg struct {
	Name        string `json:"name"`
	Arch        string `json:"arch"`
	FormatArch  string `json:"format_arch,omitempty"` // <format>.arch override, applied to the format being built
	Platform    string `json:"platform,omitempty"`
	Epoch       string `json:"epoch,omitempty"`
	Version     string `json:"version"`
	Release     string `json:"release,omitempty"`
	Prerelease  string `json:"prerelease,omitempty"`
	Metadata    string `json:"metadata,omitempty"`
	Schema      string `json:"schema,omitempty"`
	Section     string `json:"section,omitempty"`
	Priority    string `json:"priority,omitempty"`
	Maintainer  string `json:"maintainer,omitempty"`
	Description string `json:"description,omitempty"`
	Vendor      string `json:"vendor,omitempty"`
	Homepage    string `json:"homepage,omitempty"`
	License     string `json:"license,omitempty"`
	// Rel holds relation lists by kind: depends predepends recommends suggests conflicts breaks replaces provides.
	// Items are (name, op, version) triples rendered in the target format's syntax.
	Rel map[string][]RelItem `json:"rel,omitempty"`

	RPMGroup     string              `json:"rpm_group,omitempty"`
	RPMSummary   string              `json:"rpm_summary,omitempty"`
	RPMPackager  string              `json:"rpm_packager,omitempty"`
	RPMBuildHost string              `json:"rpm_buildhost,omitempty"`
	RPMPrefixes  []string            `json:"rpm_prefixes,omitempty"`
	ArchPkgbase  string              `json:"arch_pkgbase,omitempty"`
	ArchPackager string              `json:"arch_packager,omitempty"`
	IPKABI       string              `json:"ipk_abi,omitempty"`
	IPKAlts      []IPKAlt            `json:"ipk_alts,omitempty"`
	IPKTags      []string            `json:"ipk_tags,omitempty"`
	IPKEssential bool                `json:"ipk_essential,omitempty"`
	IPKAuto      bool                `json:"ipk_auto,omitempty"`
	IPKFields    map[string]string   `json:"ipk_fields,omitempty"`
	DebFields    map[string]string   `json:"deb_fields,omitempty"`
	DebTriggers  map[string][]string `json:"deb_triggers,omitempty"`
	Changelog    bool                `json:"changelog,omitempty"`
	// ChangelogFile: with Changelog, another fixture changelog than the standard one ("changelog-unordered.yaml")
	ChangelogFile string `json:"changelog_file,omitempty"`
	// RelBlanks: the relation lists are written with items that expand to nothing (unset variables) in between;
	// the relations the package states are the remaining items, in order.
	RelBlanks bool `json:"rel_blanks,omitempty"`
	// RelInOverride: the relation lists are configured in the override block of the format being built (the base
	// settings carry decoys), incl. deb.breaks / deb.predepends / ipk.predepends inside it.
	RelInOverride bool `json:"rel_in_override,omitempty"`
	// UnrelatedOverride: the format being built has an override block that sets something unrelated to the
	// metadata (umask): everything configured in the base settings must still reach the package.
	UnrelatedOverride bool `json:"unrelated_override,omitempty"`
	// ArchInOverride: FormatArch is configured as overrides.<format>.<format>.arch instead of <format>.arch.
	ArchInOverride bool `json:"arch_in_override,omitempty"`
}

type RelItem struct {
	Name string `json:"n"`
	Op   string `json:"op,omitempty"` // >= <= = > <
	Ver  string `json:"v,omitempty"`
}

type IPKAlt struct {
	Priority int    `json:"priority"`
	Target   string `json:"target"`
	LinkName string `json:"link_name"`
}

// RelKinds in a fixed order.
var RelKinds = []string{"depends", "predepends", "recommends", "suggests", "conflicts", "breaks", "replaces", "provides"}

// RelSlot names the metadata field a relation kind lands in, per format ("" = the format has no slot).
var RelSlot = map[string]map[string]string{
	"deb":       {"depends": "Depends", "predepends": "Pre-Depends", "recommends": "Recommends", "suggests": "Suggests", "conflicts": "Conflicts", "breaks": "Breaks", "replaces": "Replaces", "provides": "Provides"},
	"ipk":       {"depends": "Depends", "predepends": "Pre-Depends", "recommends": "Recommends", "suggests": "Suggests", "conflicts": "Conflicts", "replaces": "Replaces", "provides": "Provides"},
	"rpm":       {"depends": "Requires", "recommends": "Recommends", "suggests": "Suggests", "conflicts": "Conflicts", "replaces": "Obsoletes", "provides": "Provides"},
	"apk":       {"depends": "depend", "replaces": "replaces", "provides": "provides"},
	"archlinux": {"depends": "depend", "conflicts": "conflict", "replaces": "replaces", "provides": "provides"},
}

// RenderRel writes one relation item in the target format's own syntax.
func RenderRel(format string, r RelItem) string {
	if r.Op == "" {
		return r.Name
	}
	switch format {
	case "deb", "ipk":
		op := r.Op
		if op == ">" || op == "<" {
			op += op // deb spells strict relations >> and <<
		}
		return fmt.Sprintf("%s (%s %s)", r.Name, op, r.Ver)
	case "rpm":
		return fmt.Sprintf("%s %s %s", r.Name, r.Op, r.Ver)
	default: // apk, archlinux
		return r.Name + r.Op + r.Ver
	}
}

// ArchTable is the GOARCH translation table per format (filled from the documentation at run time).
type ArchTable map[string]map[string]string

// WantArch is the architecture the package must state.
func WantArch(tab ArchTable, format string, c MetaCfg) (string, bool) {
	if c.FormatArch != "" {
		return c.FormatArch, true
	}
	a := c.Arch
	if strings.HasPrefix(a, "mips") {
		a = strings.NewReplacer("softfloat", "", "hardfloat", "").Replace(a)
	}
	t, ok := tab[format]
	if !ok {
		return "", false // no documented table for the format
	}
	if v, ok := t[a]; ok {
		return v, true
	}
	return a, true // undocumented values pass through
}

// SplitVersion is the documented semver split (see Semver in version.go).
func (c MetaCfg) SplitVersion() (version, pre, meta string) {
	version, pre, meta = c.Version, c.Prerelease, c.Metadata
	if c.Schema == "none" {
		return
	}
	if v, ok := ParseSemver(c.Version); ok {
		version = fmt.Sprintf("%d.%d.%d", v.Major, v.Minor, v.Patch)
		if pre == "" {
			pre = v.Pre
		}
		if meta == "" {
			meta = v.Meta
		}
	}
	return
}

// WantVersion composes the version string in the target format's syntax.
// For rpm the result is version-release with the epoch reported separately.
func WantVersion(format string, c MetaCfg) map[string]string {
	v, pre, meta := c.SplitVersion()
	out := map[string]string{}
	switch format {
	case "deb", "ipk":
		s := ""
		if c.Epoch != "" {
			s = c.Epoch + ":"
		}
		s += v
		if pre != "" {
			s += "~" + pre
		}
		if meta != "" {
			s += "+" + meta
		}
		if c.Release != "" {
			s += "-" + c.Release
		}
		out["Version"] = s
	case "rpm":
		s := v
		if pre != "" {
			s += "~" + strings.ReplaceAll(pre, "-", "_")
		}
		if meta != "" {
			s += "+" + meta
		}
		out["Version"] = s
		out["Release"] = c.Release
		if c.Release == "" {
			out["Release"] = "1"
		}
		if c.Epoch != "" {
			out["Epoch"] = c.Epoch
		}
	case "apk":
		s := v
		if pre != "" {
			s += "_" + pre
		}
		if c.Release != "" {
			r := c.Release
			if !strings.HasPrefix(r, "r") {
				r = "r" + r
			}
			s += "-" + r
		}
		if meta != "" {
			m := meta
			known := false
			for _, p := range []string{"p", "cvs", "svn", "git", "hg"} {
				if strings.HasPrefix(m, p) {
					known = true
				}
			}
			if !known {
				m = "p" + m
			}
			s += "-" + m
		}
		out["pkgver"] = s
	case "archlinux":
		rel := 1
		if n, err := strconv.Atoi(c.Release); err == nil {
			rel = n
		}
		s := ""
		if c.Epoch != "" {
			if n, err := strconv.ParseUint(c.Epoch, 10, 64); err == nil {
				s = fmt.Sprintf("%d:", n)
			}
		}
		s += v + strings.ReplaceAll(pre, "-", "_") + fmt.Sprintf("-%d", rel)
		out["pkgver"] = s
	}
	return out
}

// DescLines is the description as a package manager's parser should recover it:
// the lines of the trimmed text, each trimmed.
func DescLines(desc string) []string {
	if desc == "" {
		desc = "no description given"
	}
	var out []string
	for _, l := range strings.Split(strings.TrimSpace(desc), "\n") {
		out = append(out, strings.TrimSpace(l))
	}
	return out
}

// SortedKeys of a string map.
func SortedKeys[V any](m map[string]V) []string {
	var ks []string
	for k := range m {
		ks = append(ks, k)
	}
	sort.Strings(ks)
	return ks
}
