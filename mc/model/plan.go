// Package model holds the reference models (oracles): boring Go that states
// the documented denotation, independent of the implementation's code.
package model

import (
	"os"
	"path"
	"sort"
	"strings"
	"time"

	"verif/mc/fixture"
)

// Entry is one `contents` item as configured.
type Entry struct {
	Src      string      `json:"src,omitempty"` // relative to the tree root for on-disk sources; literal for symlinks
	Dst      string      `json:"dst"`
	Type     string      `json:"type,omitempty"`
	Packager string      `json:"packager,omitempty"`
	Owner    string      `json:"owner,omitempty"`
	Group    string      `json:"group,omitempty"`
	Mode     os.FileMode `json:"mode,omitempty"`
	MTime    time.Time   `json:"mtime,omitempty"`
	HasInfo  bool        `json:"has_info,omitempty"` // a file_info block is present
	Expand   bool        `json:"expand,omitempty"`   // expand: true (src/dst carry no references here, so nothing else changes)
}

// PEntry is one planned payload entry.
type PEntry struct {
	Dst    string // absolute, clean; directories carry a trailing slash
	Kind   string // dir | implicit dir | symlink | file | config… | ghost | doc | licence | license | readme | debian changelog
	Src    string // tree-relative source for regular files; literal target for symlinks
	Owner  string
	Group  string
	Mode   os.FileMode // 12 permission bits in unix layout (04000 setuid, 02000 setgid, 01000 sticky)
	MTime  time.Time
	Size   int64
	SHA256 string
	// Origin is the configured entry type the entry came from (tree members as tree-<kind>);
	// ModeFrom says where Mode comes from: explicit | source | default.
	Origin   string
	ModeFrom string
	// SystemDir: a directory inside a tree whose destination belongs to the distribution's filesystem package
	// (SystemDirs): rpm leaves it out like an implied parent, the other formats ship it as the tree has it.
	SystemDir bool
	// TreeRoot: the destination directory of a tree entry itself
	TreeRoot bool
}

// SystemDirs is the list of directories owned by the distribution's filesystem / logrotate packages, as the tree
// under test states it (files/fs.go); set by the harness before planning.
var SystemDirs = map[string]bool{}

// PlanResult is the model's verdict for one list.
type PlanResult struct {
	Collision bool   // the list must be rejected with the content-collision error
	Why       string // which rule found the collision
	WhyClass  string // same:<kindA>+<kindB> | beneath:<non-dir kind>/<child kind> (kinds in list order)
	OtherErr  string // the list is invalid for another reason (missing source, no glob match …)
	Entries   []PEntry
	// Unclear is set for inputs whose documented meaning the model does not fix;
	// such cases are not judged.
	Unclear string
}

// NormPath is the documented destination normalisation, component-wise:
// absolute, no empty / "." components, ".." removes its parent, never above root.
func NormPath(p string) string {
	var st []string
	for _, c := range strings.Split(p, "/") {
		switch c {
		case "", ".":
		case "..":
			if len(st) > 0 {
				st = st[:len(st)-1]
			}
		default:
			st = append(st, c)
		}
	}
	return "/" + strings.Join(st, "/")
}

func asDir(p string) string {
	if p == "/" {
		return "/"
	}
	return p + "/"
}

// RPMOnly reports entry types that exist only in rpm.
func RPMOnly(t string) bool {
	switch t {
	case "ghost", "doc", "licence", "license", "readme":
		return true
	}
	return false
}

func IsConfig(t string) bool {
	return t == "config" || t == "config|noreplace" || t == "config|missingok"
}

// Relevant is the documented selection rule.
func Relevant(e Entry, packager string) bool {
	if packager == "" {
		return true
	}
	if e.Packager != "" && e.Packager != packager {
		return false
	}
	if RPMOnly(e.Type) && packager != "rpm" {
		return false
	}
	if e.Type == "debian changelog" && packager != "deb" {
		return false
	}
	return true
}

// UnixMode converts a Go FileMode (as lstat returns it) to the 12 unix permission bits.
func UnixMode(m os.FileMode) os.FileMode {
	u := m & 0o777
	if m&os.ModeSetuid != 0 {
		u |= 0o4000
	}
	if m&os.ModeSetgid != 0 {
		u |= 0o2000
	}
	if m&os.ModeSticky != 0 {
		u |= 0o1000
	}
	return u
}

type placement struct {
	e        PEntry
	explicit bool // not an implied parent
	from     int  // index of the configuring entry
}

// Plan computes the documented denotation of a content list for one packager.
func Plan(list []Entry, packager string, umask os.FileMode, pkgMTime time.Time, disableGlob bool, t *fixture.Tree) PlanResult {
	var places []placement
	add := func(p PEntry, from int) { places = append(places, placement{e: p, explicit: true, from: from}) }
	// rootNonDir: an entry that is not a directory has the root itself as destination. Alone that has no documented
	// meaning; together with any other entry, that entry lies beneath a non-directory
	rootNonDir := ""

	owner := func(e Entry) (string, string) {
		o, g := e.Owner, e.Group
		if o == "" {
			o = "root"
		}
		if g == "" {
			g = "root"
		}
		return o, g
	}
	fileFrom := func(e Entry, n *fixture.Node, dst string, idx int) {
		o, g := owner(e)
		if n.Kind == "symlink" {
			// an on-disk symlink is shipped as a symlink with its literal target
			add(PEntry{Dst: dst, Kind: "symlink", Src: n.Target, Owner: o, Group: g, MTime: firstTime(e.MTime, pkgMTime, n.MTime)}, idx)
			return
		}
		mode, from := e.Mode, "explicit"
		if mode == 0 {
			mode, from = UnixMode(n.Mode)&^umask, "source"
		}
		kind := e.Type
		if kind == "" || kind == "tree" {
			kind = "file"
		}
		add(PEntry{Dst: dst, Kind: kind, Src: n.Rel, Owner: o, Group: g, Mode: mode, ModeFrom: from,
			MTime: firstTime(e.MTime, pkgMTime, n.MTime), Size: int64(len(n.Data)), SHA256: n.SHA256()}, idx)
	}

	for idx, e := range list {
		if !Relevant(e, packager) {
			continue
		}
		switch e.Type {
		case "dir":
			o, g := owner(e)
			mode, from := e.Mode, "explicit"
			if mode == 0 {
				mode, from = 0o755, "default"
			}
			add(PEntry{Dst: asDir(NormPath(e.Dst)), Kind: "dir", Owner: o, Group: g, Mode: mode, ModeFrom: from, MTime: firstTime(e.MTime, pkgMTime)}, idx)
		case "symlink":
			if NormPath(e.Dst) == "/" {
				rootNonDir = "symlink"
				continue
			}
			o, g := owner(e)
			add(PEntry{Dst: NormPath(e.Dst), Kind: "symlink", Src: e.Src, Owner: o, Group: g, MTime: firstTime(e.MTime, pkgMTime)}, idx)
		case "ghost", "doc", "licence", "license", "readme", "debian changelog":
			if NormPath(e.Dst) == "/" {
				rootNonDir = e.Type
				continue
			}
			o, g := owner(e)
			pe := PEntry{Dst: NormPath(e.Dst), Kind: e.Type, Owner: o, Group: g, Mode: e.Mode, MTime: firstTime(e.MTime, pkgMTime)}
			if e.Src != "" {
				n := t.Get(e.Src)
				// these kinds are read through the source path: a symbolic link on the build host is followed
				for hops := 0; n != nil && n.Kind == "symlink" && hops < 8; hops++ {
					if path.IsAbs(n.Target) {
						n = nil
						break
					}
					n = t.Get(path.Join(path.Dir(n.Rel), n.Target))
				}
				if n == nil || n.Kind != "file" {
					if e.Type != "ghost" {
						return PlanResult{OtherErr: "missing source " + e.Src}
					}
				} else {
					pe.Src = path.Clean(e.Src)
					pe.Size = int64(len(n.Data))
					pe.SHA256 = n.SHA256()
					if pe.Mode == 0 {
						pe.Mode = UnixMode(n.Mode) &^ umask
					}
					pe.MTime = firstTime(e.MTime, pkgMTime, n.MTime)
				}
			}
			add(pe, idx)
		case "tree":
			root := t.Get(e.Src)
			if root == nil || root.Kind != "dir" {
				return PlanResult{OtherErr: "tree source is not a directory"}
			}
			o, g := owner(e)
			dirMode := func(n *fixture.Node) os.FileMode {
				if e.Mode != 0 {
					return e.Mode
				}
				return UnixMode(n.Mode) &^ umask
			}
			dfrom := "source"
			if e.Mode != 0 {
				dfrom = "explicit"
			}
			base := NormPath(e.Dst)
			if SystemDirs[base] {
				// a tree replicated onto a directory of the filesystem package does not hand its owner/group on
				o, g = "root", "root"
				e.Owner, e.Group = "", ""
			}
			sysDir := func(dst string, pe PEntry) PEntry {
				if SystemDirs[dst] {
					pe.SystemDir = true
					if packager == "rpm" {
						pe.Kind = "implicit dir" // not shipped by rpm, exactly like an implied parent
					}
				}
				return pe
			}
			add(sysDir(base, PEntry{Dst: asDir(base), Kind: "dir", Owner: o, Group: g, Mode: dirMode(root), ModeFrom: dfrom, MTime: root.MTime, TreeRoot: true}), idx)
			for _, n := range t.Below(root.Rel) {
				rel := strings.TrimPrefix(n.Rel, root.Rel+"/")
				dst := NormPath(base + "/" + rel)
				switch n.Kind {
				case "dir":
					add(sysDir(dst, PEntry{Dst: asDir(dst), Kind: "dir", Owner: o, Group: g, Mode: dirMode(n), ModeFrom: dfrom, MTime: n.MTime}), idx)
				case "symlink":
					add(PEntry{Dst: dst, Kind: "symlink", Src: n.Target, Owner: o, Group: g, MTime: firstTime(pkgMTime, n.MTime)}, idx)
				default:
					ee := e
					ee.MTime = time.Time{}
					fileFrom(ee, n, dst, idx)
				}
			}
		case "", "file", "config", "config|noreplace", "config|missingok":
			matches, isPattern, err := expand(e.Src, disableGlob, t)
			if err != "" {
				return PlanResult{OtherErr: err}
			}
			if len(matches) == 0 {
				return PlanResult{OtherErr: "no match for " + e.Src}
			}
			intoDir := strings.HasSuffix(e.Dst, "/")
			single := !isPattern && len(matches) == 1 && matches[0].Rel == path.Clean(e.Src) && matches[0].Kind != "dir"
			// the structure is kept below the deepest common directory of the matches
			base := ""
			if !single && !intoDir {
				if !isPattern {
					base = path.Clean(e.Src) // a directory source: below that directory
				} else {
					base = commonDir(matches)
				}
			}
			for _, n := range matches {
				var dst string
				switch {
				case intoDir:
					dst = NormPath(e.Dst + "/" + path.Base(n.Rel))
				case single:
					dst = NormPath(e.Dst)
				default:
					rel := strings.TrimPrefix(n.Rel, base+"/")
					if base == "." || base == "" {
						rel = n.Rel
					}
					dst = NormPath(e.Dst + "/" + rel)
				}
				if dst == "/" {
					rootNonDir = "file"
					continue
				}
				fileFrom(e, n, dst, idx)
			}
		default:
			return PlanResult{OtherErr: "invalid content type " + e.Type}
		}
	}

	if rootNonDir != "" {
		if len(places) == 0 {
			return PlanResult{Unclear: "non-directory at /"}
		}
		return PlanResult{Collision: true, Why: "the other entries lie beneath the " + rootNonDir + " at /", WhyClass: "beneath-root:" + rootNonDir}
	}
	// collisions: two configured placements on one path
	byPath := map[string][]placement{}
	key := func(d string) string {
		if d == "/" {
			return "/"
		}
		return strings.TrimRight(d, "/")
	}
	for _, p := range places {
		byPath[key(p.e.Dst)] = append(byPath[key(p.e.Dst)], p)
	}
	var dupKeys []string
	for k, ps := range byPath {
		if len(ps) > 1 {
			dupKeys = append(dupKeys, k)
		}
	}
	// a tree's directory that belongs to the filesystem package is implied, not claimed: an explicitly declared
	// directory at the same path takes its place (whatever the order); anything else there collides as usual
	for _, k := range dupKeys {
		ps := byPath[k]
		hasDir := false
		for _, p := range ps {
			if !p.e.SystemDir && p.e.Kind == "dir" {
				hasDir = true
			}
		}
		allSys := true
		for _, p := range ps {
			if !p.e.SystemDir {
				allSys = false
			}
		}
		switch {
		case hasDir:
			for _, p := range ps {
				if p.e.SystemDir && p.e.TreeRoot {
					// the tree's own destination is a system directory that is also declared explicitly: whether the
					// tree claims its destination or merely implies it is not documented
					return PlanResult{Unclear: "an explicit directory at the system-directory destination " + k + " of a tree"}
				}
			}
			var keep []placement
			for _, p := range ps {
				if !p.e.SystemDir {
					keep = append(keep, p)
				}
			}
			byPath[k] = keep
		case allSys:
			byPath[k] = ps[:1] // implied by several trees: one directory, the first tree's view of it
		}
	}
	dupKeys = dupKeys[:0]
	for k, ps := range byPath {
		if len(ps) > 1 {
			dupKeys = append(dupKeys, k)
		}
	}
	if len(dupKeys) > 0 {
		sort.Strings(dupKeys)
		ps := byPath[dupKeys[0]]
		sort.SliceStable(ps, func(i, j int) bool { return ps[i].from < ps[j].from })
		return PlanResult{Collision: true, Why: "two entries at " + dupKeys[0],
			WhyClass: "same:" + origin(list, ps[0]) + "+" + origin(list, ps[1])}
	}
	// parent closure + an entry beneath a non-directory
	result := map[string]PEntry{}
	for k, ps := range byPath {
		e := ps[0].e
		e.Origin = origin(list, ps[0])
		result[k] = e
	}
	var allKeys []string
	for k := range byPath {
		allKeys = append(allKeys, k)
	}
	sort.Strings(allKeys)
	for _, k := range allKeys {
		if k == "/" {
			continue
		}
		for anc := path.Dir(k); anc != "/" && anc != "."; anc = path.Dir(anc) {
			if ex, ok := result[anc]; ok {
				if ex.Kind != "dir" && ex.Kind != "implicit dir" {
					return PlanResult{Collision: true, Why: k + " lies beneath non-directory " + anc,
						WhyClass: "beneath:" + origin(list, byPath[anc][0]) + "/" + origin(list, byPath[k][0])}
				}
				continue
			}
			result[anc] = PEntry{Dst: anc + "/", Kind: "implicit dir", Owner: "root", Group: "root", Mode: 0o755, MTime: pkgMTime, Origin: "implied", ModeFrom: "default"}
		}
	}
	out := make([]PEntry, 0, len(result))
	for _, e := range result {
		out = append(out, e)
	}
	sort.Slice(out, func(i, j int) bool { return out[i].Dst < out[j].Dst })
	return PlanResult{Entries: out}
}

// origin names the configured entry type a placement came from (tree members as tree-<kind>).
func origin(list []Entry, p placement) string {
	t := list[p.from].Type
	if t == "" {
		t = "file"
	}
	if t == "tree" {
		k := p.e.Kind
		if k != "dir" && k != "symlink" {
			k = "file"
		}
		return "tree-" + k
	}
	if p.e.Kind == "symlink" && t != "symlink" {
		return t + "-disklink"
	}
	return t
}

func firstTime(ts ...time.Time) time.Time {
	for _, t := range ts {
		if !t.IsZero() {
			return t
		}
	}
	return time.Time{}
}

// commonDir is the deepest directory containing every match (component-wise).
func commonDir(ms []*fixture.Node) string {
	var common []string
	for i, n := range ms {
		dir := strings.Split(path.Dir(n.Rel), "/")
		if path.Dir(n.Rel) == "." {
			dir = nil
		}
		if i == 0 {
			common = dir
			continue
		}
		j := 0
		for j < len(common) && j < len(dir) && common[j] == dir[j] {
			j++
		}
		common = common[:j]
	}
	return strings.Join(common, "/")
}

// expand resolves a file source to the regular files / symlinks it denotes.
// isPattern reports that src contained glob metacharacters that were honoured.
func expand(src string, disableGlob bool, t *fixture.Tree) (ms []*fixture.Node, isPattern bool, err string) {
	src = path.Clean(src)
	filesBelow := func(n *fixture.Node) []*fixture.Node {
		if n.Kind != "dir" {
			return []*fixture.Node{n}
		}
		var out []*fixture.Node
		for _, c := range t.Below(n.Rel) {
			if c.Kind != "dir" {
				out = append(out, c)
			}
		}
		return out
	}
	if disableGlob || !HasMeta(src) {
		lit := src
		if !disableGlob {
			lit = unescape(src)
		}
		n := t.Get(lit)
		if n == nil {
			return nil, false, "source does not exist: " + src
		}
		return filesBelow(n), false, ""
	}
	var rels []string
	for r := range t.Nodes {
		rels = append(rels, r)
	}
	sort.Strings(rels)
	seen := map[string]bool{}
	for _, r := range rels {
		if GlobMatch(src, r) {
			for _, f := range filesBelow(t.Nodes[r]) {
				if !seen[f.Rel] {
					seen[f.Rel] = true
					ms = append(ms, f)
				}
			}
		}
	}
	sort.Slice(ms, func(i, j int) bool { return ms[i].Rel < ms[j].Rel })
	return ms, true, ""
}

// HasMeta reports glob metacharacters (escaped ones count: the documentation
// treats any pattern syntax as "src is a glob").
func HasMeta(s string) bool { return strings.ContainsAny(s, "*?[]{}\\") }

func unescape(s string) string {
	var b strings.Builder
	for i := 0; i < len(s); i++ {
		if s[i] == '\\' && i+1 < len(s) {
			i++
		}
		b.WriteByte(s[i])
	}
	return b.String()
}

// GlobMatch matches a slash-separated pattern (*, ?, [..], {a,b}, **, \x) against a path.
func GlobMatch(pat, name string) bool {
	for _, p := range braces(pat) {
		if matchSegs(strings.Split(p, "/"), strings.Split(name, "/")) {
			return true
		}
	}
	return false
}

func braces(p string) []string {
	depth, start := 0, -1
	for i := 0; i < len(p); i++ {
		switch p[i] {
		case '\\':
			i++
		case '{':
			if depth == 0 {
				start = i
			}
			depth++
		case '}':
			depth--
			if depth == 0 && start >= 0 {
				var out []string
				for _, alt := range splitTop(p[start+1 : i]) {
					out = append(out, braces(p[:start]+alt+p[i+1:])...)
				}
				return out
			}
		}
	}
	return []string{p}
}

func splitTop(s string) []string {
	var out []string
	depth, last := 0, 0
	for i := 0; i < len(s); i++ {
		switch s[i] {
		case '\\':
			i++
		case '{':
			depth++
		case '}':
			depth--
		case ',':
			if depth == 0 {
				out = append(out, s[last:i])
				last = i + 1
			}
		}
	}
	return append(out, s[last:])
}

func matchSegs(pat, name []string) bool {
	if len(pat) == 0 {
		return len(name) == 0
	}
	if pat[0] == "**" {
		for k := 0; k <= len(name); k++ {
			if matchSegs(pat[1:], name[k:]) {
				return true
			}
		}
		return false
	}
	if len(name) == 0 {
		return false
	}
	if ok, err := path.Match(pat[0], name[0]); err != nil || !ok {
		return false
	}
	return matchSegs(pat[1:], name[1:])
}
