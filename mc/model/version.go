package model

import (
	"strconv"
	"strings"
)

// Semver is a parsed semantic version (documented lenient grammar: optional
// lowercase 'v', one to three numeric parts without leading zeros, optional
// -prerelease and +metadata made of dot separated [0-9A-Za-z-] identifiers,
// numeric prerelease identifiers without leading zeros).
type Semver struct {
	Major, Minor, Patch uint64
	Pre, Meta           string
}

func numNoLeadingZero(s string) (uint64, bool) {
	if s == "" || (len(s) > 1 && s[0] == '0') {
		return 0, false
	}
	for _, c := range s {
		if c < '0' || c > '9' {
			return 0, false
		}
	}
	n, err := strconv.ParseUint(s, 10, 64)
	return n, err == nil
}

func identOK(s string, numericNoLeadingZero bool) bool {
	if s == "" {
		return false
	}
	allDigits := true
	for _, c := range s {
		switch {
		case c >= '0' && c <= '9':
		case c >= 'a' && c <= 'z', c >= 'A' && c <= 'Z', c == '-':
			allDigits = false
		default:
			return false
		}
	}
	if numericNoLeadingZero && allDigits && len(s) > 1 && s[0] == '0' {
		return false
	}
	return true
}

// ParseSemver implements the documented grammar.
func ParseSemver(s string) (Semver, bool) {
	var v Semver
	s = strings.TrimPrefix(s, "v")
	rest := s
	if i := strings.IndexByte(rest, '+'); i >= 0 {
		v.Meta = rest[i+1:]
		rest = rest[:i]
		for _, id := range strings.Split(v.Meta, ".") {
			if !identOK(id, false) {
				return v, false
			}
		}
	}
	if i := strings.IndexByte(rest, '-'); i >= 0 {
		v.Pre = rest[i+1:]
		rest = rest[:i]
		for _, id := range strings.Split(v.Pre, ".") {
			if !identOK(id, true) {
				return v, false
			}
		}
	}
	parts := strings.Split(rest, ".")
	if len(parts) < 1 || len(parts) > 3 {
		return v, false
	}
	nums := []*uint64{&v.Major, &v.Minor, &v.Patch}
	for i, p := range parts {
		n, ok := numNoLeadingZero(p)
		if !ok {
			return v, false
		}
		*nums[i] = n
	}
	return v, true
}

// ---- Debian version comparison (deb-version(7)) ----

func debOrder(c byte) int {
	switch {
	case c == '~':
		return -1
	case c >= '0' && c <= '9':
		return 0
	case (c >= 'A' && c <= 'Z') || (c >= 'a' && c <= 'z'):
		return int(c)
	case c == 0:
		return 0
	}
	return int(c) + 256
}

func debCmpPart(a, b string) int {
	i, j := 0, 0
	for i < len(a) || j < len(b) {
		firstDiff := 0
		for (i < len(a) && !isDigit(a[i])) || (j < len(b) && !isDigit(b[j])) {
			var ac, bc byte
			if i < len(a) {
				ac = a[i]
			}
			if j < len(b) {
				bc = b[j]
			}
			ao, bo := debOrder(ac), debOrder(bc)
			if i >= len(a) {
				ao = 0
			}
			if j >= len(b) {
				bo = 0
			}
			if ao != bo {
				return sign(ao - bo)
			}
			if i < len(a) {
				i++
			}
			if j < len(b) {
				j++
			}
		}
		for i < len(a) && a[i] == '0' {
			i++
		}
		for j < len(b) && b[j] == '0' {
			j++
		}
		for i < len(a) && isDigit(a[i]) && j < len(b) && isDigit(b[j]) {
			if firstDiff == 0 {
				firstDiff = int(a[i]) - int(b[j])
			}
			i++
			j++
		}
		if i < len(a) && isDigit(a[i]) {
			return 1
		}
		if j < len(b) && isDigit(b[j]) {
			return -1
		}
		if firstDiff != 0 {
			return sign(firstDiff)
		}
	}
	return 0
}

func isDigit(c byte) bool { return c >= '0' && c <= '9' }
func sign(x int) int {
	switch {
	case x < 0:
		return -1
	case x > 0:
		return 1
	}
	return 0
}

// DebCompare compares two Debian version strings.
func DebCompare(a, b string) int {
	split := func(s string) (epoch int, up, rev string) {
		if i := strings.IndexByte(s, ':'); i >= 0 {
			epoch, _ = strconv.Atoi(s[:i])
			s = s[i+1:]
		}
		if i := strings.LastIndexByte(s, '-'); i >= 0 {
			return epoch, s[:i], s[i+1:]
		}
		return epoch, s, ""
	}
	ae, au, ar := split(a)
	be, bu, br := split(b)
	if ae != be {
		return sign(ae - be)
	}
	if c := debCmpPart(au, bu); c != 0 {
		return c
	}
	return debCmpPart(ar, br)
}

// ---- rpmvercmp (rpm's lib/rpmvercmp.c) ----

func isAlpha(c byte) bool { return (c >= 'a' && c <= 'z') || (c >= 'A' && c <= 'Z') }
func isAlnum(c byte) bool { return isAlpha(c) || isDigit(c) }

// RPMVerCmp compares two version (or release) strings like rpm does.
func RPMVerCmp(a, b string) int {
	if a == b {
		return 0
	}
	i, j := 0, 0
	for i < len(a) || j < len(b) {
		for i < len(a) && !isAlnum(a[i]) && a[i] != '~' && a[i] != '^' {
			i++
		}
		for j < len(b) && !isAlnum(b[j]) && b[j] != '~' && b[j] != '^' {
			j++
		}
		at := i < len(a) && a[i] == '~'
		bt := j < len(b) && b[j] == '~'
		if at || bt {
			if !at {
				return 1
			}
			if !bt {
				return -1
			}
			i++
			j++
			continue
		}
		ac := i < len(a) && a[i] == '^'
		bc := j < len(b) && b[j] == '^'
		if ac || bc {
			if i >= len(a) {
				return -1
			}
			if j >= len(b) {
				return 1
			}
			if !ac {
				return 1
			}
			if !bc {
				return -1
			}
			i++
			j++
			continue
		}
		if i >= len(a) || j >= len(b) {
			break
		}
		si, sj := i, j
		numeric := isDigit(a[i])
		if numeric {
			for i < len(a) && isDigit(a[i]) {
				i++
			}
			for j < len(b) && isDigit(b[j]) {
				j++
			}
		} else {
			for i < len(a) && isAlpha(a[i]) {
				i++
			}
			for j < len(b) && isAlpha(b[j]) {
				j++
			}
		}
		sa, sb := a[si:i], b[sj:j]
		if sb == "" {
			if numeric {
				return 1
			}
			return -1
		}
		if numeric {
			sa = strings.TrimLeft(sa, "0")
			sb = strings.TrimLeft(sb, "0")
			if len(sa) != len(sb) {
				return sign(len(sa) - len(sb))
			}
		}
		if c := strings.Compare(sa, sb); c != 0 {
			return c
		}
	}
	switch {
	case i >= len(a) && j >= len(b):
		return 0
	case i >= len(a):
		return -1
	}
	return 1
}

// RPMCompareEVR compares epoch (""= none =0), version, release.
func RPMCompareEVR(ae, av, ar, be, bv, br string) int {
	ea, _ := strconv.Atoi(ae)
	eb, _ := strconv.Atoi(be)
	if ea != eb {
		return sign(ea - eb)
	}
	if c := RPMVerCmp(av, bv); c != 0 {
		return c
	}
	return RPMVerCmp(ar, br)
}
