// Package pkgread holds harness-owned decoders for the five package formats.
// They are written from the format specifications and share no code with
// nfpm's writers (stdlib archive/tar and compress/gzip readers are used as
// readers only).
package pkgread

import (
	"archive/tar"
	"bytes"
	"compress/gzip"
	"crypto/sha256"
	"encoding/hex"
	"errors"
	"fmt"
	"io"
	"os/exec"
	"strconv"
	"strings"
	"time"

	"github.com/klauspost/compress/zstd"
	xi2xz "github.com/xi2/xz"
)

// ArMember is one member of an ar archive.
type ArMember struct {
	Name   string
	MTime  int64
	UID    int
	GID    int
	Mode   int64
	Size   int64
	Data   []byte
	Offset int // offset of the member header
	Padded bool
}

// ReadAr parses a System V / GNU style ar archive strictly.
func ReadAr(b []byte) ([]ArMember, error) {
	const magic = "!<arch>\n"
	if !bytes.HasPrefix(b, []byte(magic)) {
		return nil, errors.New("ar: missing global header")
	}
	off := len(magic)
	var out []ArMember
	for off < len(b) {
		if len(b)-off < 60 {
			return out, fmt.Errorf("ar: truncated member header at %d (%d bytes left)", off, len(b)-off)
		}
		h := b[off : off+60]
		if h[58] != '`' || h[59] != '\n' {
			return out, fmt.Errorf("ar: bad header terminator at %d", off)
		}
		num := func(f []byte, base int) (int64, error) {
			s := strings.TrimSpace(string(f))
			if s == "" {
				return 0, nil
			}
			return strconv.ParseInt(s, base, 64)
		}
		m := ArMember{Name: strings.TrimRight(string(h[0:16]), " "), Offset: off}
		m.Name = strings.TrimSuffix(m.Name, "/")
		var err error
		if m.MTime, err = num(h[16:28], 10); err != nil {
			return out, fmt.Errorf("ar: bad mtime in %q: %v", m.Name, err)
		}
		uid, err := num(h[28:34], 10)
		if err != nil {
			return out, fmt.Errorf("ar: bad uid: %v", err)
		}
		gid, err := num(h[34:40], 10)
		if err != nil {
			return out, fmt.Errorf("ar: bad gid: %v", err)
		}
		m.UID, m.GID = int(uid), int(gid)
		if m.Mode, err = num(h[40:48], 8); err != nil {
			return out, fmt.Errorf("ar: bad mode: %v", err)
		}
		if m.Size, err = num(h[48:58], 10); err != nil {
			return out, fmt.Errorf("ar: bad size: %v", err)
		}
		off += 60
		if int64(len(b)-off) < m.Size {
			return out, fmt.Errorf("ar: member %q truncated: header says %d bytes, %d left", m.Name, m.Size, len(b)-off)
		}
		m.Data = b[off : off+int(m.Size)]
		off += int(m.Size)
		if m.Size%2 == 1 {
			if off >= len(b) {
				return append(out, m), fmt.Errorf("ar: member %q has odd size but no padding byte", m.Name)
			}
			if b[off] != '\n' {
				return append(out, m), fmt.Errorf("ar: member %q padding byte is %#x, not newline", m.Name, b[off])
			}
			m.Padded = true
			off++
		}
		out = append(out, m)
	}
	return out, nil
}

// TarEntry is one decoded tar member.
type TarEntry struct {
	Name     string
	Typeflag byte
	Mode     int64
	Uname    string
	Gname    string
	UID      int
	GID      int
	ModTime  time.Time
	ATime    time.Time
	CTime    time.Time
	Size     int64
	Linkname string
	Data     []byte
	Format   tar.Format
	PAX      map[string]string
}

func (e *TarEntry) SHA256() string {
	s := sha256.Sum256(e.Data)
	return hex.EncodeToString(s[:])
}

// TarShape describes the raw block structure of a tar stream.
type TarShape struct {
	Headers         int  // header blocks walked (incl. extension headers)
	TrailingZero    int  // zero blocks at the end
	EndMarker       bool // >= 2 zero blocks terminate the stream
	Leftover        int  // bytes after the last full block
	NonZeroAfterEOA bool
	Types           map[byte]int // raw type flags of all header blocks (incl. extension headers 'x', 'g', 'L', 'K')
}

// ReadTar decodes every member (stdlib reader) and the raw block structure.
// With requireEnd=false a stream without end-of-archive marker is accepted
// (apk control/signature segments).
func ReadTar(b []byte) ([]TarEntry, TarShape, error) {
	shape, serr := tarShape(b)
	tr := tar.NewReader(bytes.NewReader(b))
	var out []TarEntry
	for {
		h, err := tr.Next()
		if err == io.EOF {
			break
		}
		if err != nil {
			return out, shape, fmt.Errorf("tar: %w", err)
		}
		data, err := io.ReadAll(tr)
		if err != nil {
			return out, shape, fmt.Errorf("tar: reading %q: %w", h.Name, err)
		}
		out = append(out, TarEntry{Name: h.Name, Typeflag: h.Typeflag, Mode: h.Mode, Uname: h.Uname, Gname: h.Gname,
			UID: h.Uid, GID: h.Gid, ModTime: h.ModTime, ATime: h.AccessTime, CTime: h.ChangeTime, Size: h.Size,
			Linkname: h.Linkname, Data: data, Format: h.Format, PAX: h.PAXRecords})
	}
	return out, shape, serr
}

func isZero(b []byte) bool {
	for _, c := range b {
		if c != 0 {
			return false
		}
	}
	return true
}

func tarShape(b []byte) (TarShape, error) {
	s := TarShape{Types: map[byte]int{}}
	off := 0
	for off+512 <= len(b) {
		blk := b[off : off+512]
		if isZero(blk) {
			break
		}
		// checksum
		var sum int64
		for i, c := range blk {
			if i >= 148 && i < 156 {
				sum += ' '
			} else {
				sum += int64(c)
			}
		}
		want, err := parseOctal(blk[148:156])
		if err != nil || want != sum {
			return s, fmt.Errorf("tar: header at %d has bad checksum", off)
		}
		size, err := parseNumeric(blk[124:136])
		if err != nil {
			return s, fmt.Errorf("tar: header at %d has bad size", off)
		}
		s.Headers++
		s.Types[blk[156]]++
		off += 512 + int((size+511)/512)*512
	}
	if off > len(b) {
		return s, fmt.Errorf("tar: last member truncated (%d bytes missing)", off-len(b))
	}
	rest := b[off:]
	for len(rest) >= 512 && isZero(rest[:512]) {
		s.TrailingZero++
		rest = rest[512:]
	}
	if len(rest) >= 512 {
		s.NonZeroAfterEOA = true
	}
	s.Leftover = len(rest) % 512
	if !isZero(rest) {
		s.NonZeroAfterEOA = true
	}
	s.EndMarker = s.TrailingZero >= 2
	return s, nil
}

func parseOctal(f []byte) (int64, error) {
	s := strings.Trim(string(f), " \x00")
	if s == "" {
		return 0, nil
	}
	return strconv.ParseInt(s, 8, 64)
}

func parseNumeric(f []byte) (int64, error) {
	if len(f) > 0 && f[0]&0x80 != 0 { // base-256
		var v int64
		for i, c := range f {
			if i == 0 {
				c &= 0x7f
			}
			v = v<<8 | int64(c)
		}
		return v, nil
	}
	return parseOctal(f)
}

// GzMember is one member of a (possibly multi-member) gzip stream.
type GzMember struct {
	Offset  int
	Length  int // compressed length of the member incl. header and trailer
	Raw     []byte
	Data    []byte
	ModTime time.Time
	HasTime bool
	Name    string
	OS      byte
}

// SplitGzip splits a concatenation of gzip members exactly.
func SplitGzip(b []byte) ([]GzMember, error) {
	var out []GzMember
	off := 0
	for off < len(b) {
		br := bytes.NewReader(b[off:])
		zr, err := gzip.NewReader(br)
		if err != nil {
			return out, fmt.Errorf("gzip: member at %d: %w", off, err)
		}
		zr.Multistream(false)
		data, err := io.ReadAll(zr)
		if err != nil {
			return out, fmt.Errorf("gzip: member at %d: %w", off, err)
		}
		used := len(b[off:]) - br.Len()
		m := GzMember{Offset: off, Length: used, Raw: b[off : off+used], Data: data, Name: zr.Name, OS: zr.OS}
		if !zr.ModTime.IsZero() {
			m.ModTime, m.HasTime = zr.ModTime, true
		}
		out = append(out, m)
		off += used
	}
	return out, nil
}

// Decompress undoes the named compression with a decoder independent of nfpm's writer
// where one exists (xz: xi2/xz, zstd CLI as second opinion elsewhere).
func Decompress(kind string, b []byte, tools map[string]string) ([]byte, error) {
	switch kind {
	case "", "none":
		return b, nil
	case "gzip":
		ms, err := SplitGzip(b)
		if err != nil {
			return nil, err
		}
		var out []byte
		for _, m := range ms {
			out = append(out, m.Data...)
		}
		return out, nil
	case "xz":
		r, err := xi2xz.NewReader(bytes.NewReader(b), 0)
		if err != nil {
			return nil, fmt.Errorf("xz: %w", err)
		}
		out, err := io.ReadAll(r)
		if err != nil {
			return nil, fmt.Errorf("xz: %w", err)
		}
		return out, nil
	case "lzma":
		if p := tools["xz"]; p != "" {
			cmd := exec.Command(p, "--format=lzma", "-dc")
			cmd.Stdin = bytes.NewReader(b)
			var o, e bytes.Buffer
			cmd.Stdout, cmd.Stderr = &o, &e
			if err := cmd.Run(); err != nil {
				return nil, fmt.Errorf("lzma (xz CLI): %v: %s", err, e.String())
			}
			return o.Bytes(), nil
		}
		return nil, ErrNoDecoder
	case "zstd":
		d, err := zstd.NewReader(bytes.NewReader(b), zstd.WithDecoderConcurrency(1))
		if err != nil {
			return nil, fmt.Errorf("zstd: %w", err)
		}
		defer d.Close()
		out, err := io.ReadAll(d)
		if err != nil {
			return nil, fmt.Errorf("zstd: %w", err)
		}
		return out, nil
	}
	return nil, fmt.Errorf("unknown compression %q", kind)
}

// ZstdWindow returns the window size the first frame of a zstd stream declares (RFC 8878 3.1.1.1): decoders refuse
// frames whose window exceeds their limit (libzstd: 128 MiB unless told otherwise - dpkg, pacman and rpm do not).
func ZstdWindow(b []byte) (uint64, bool) {
	if len(b) < 6 || !bytes.Equal(b[:4], []byte{0x28, 0xb5, 0x2f, 0xfd}) {
		return 0, false
	}
	fhd := b[4]
	single := fhd&0x20 != 0
	if !single {
		wd := b[5]
		exp, mant := uint64(wd>>3), uint64(wd&7)
		base := uint64(1) << (10 + exp)
		return base + base/8*mant, true
	}
	// single segment: the window is the frame content size
	fcsFlag := fhd >> 6
	didFlag := fhd & 3
	off := 5 + []int{0, 1, 2, 4}[didFlag]
	n := []int{1, 2, 4, 8}[fcsFlag]
	if len(b) < off+n {
		return 0, false
	}
	var v uint64
	for i := n - 1; i >= 0; i-- {
		v = v<<8 | uint64(b[off+i])
	}
	if n == 2 {
		v += 256
	}
	return v, true
}

// ErrNoDecoder means the image has no independent decoder for the stream.
var ErrNoDecoder = errors.New("no decoder available")

// SniffCompression names the compression of a stream by magic.
func SniffCompression(b []byte) string {
	switch {
	case len(b) >= 2 && b[0] == 0x1f && b[1] == 0x8b:
		return "gzip"
	case len(b) >= 6 && bytes.Equal(b[:6], []byte{0xfd, '7', 'z', 'X', 'Z', 0}):
		return "xz"
	case len(b) >= 4 && bytes.Equal(b[:4], []byte{0x28, 0xb5, 0x2f, 0xfd}):
		return "zstd"
	case len(b) >= 13 && b[0] == 0x5d && b[1] == 0 && b[2] == 0:
		return "lzma"
	}
	return "none"
}
