package pkgread

import (
	"archive/tar"
	"bytes"
	"fmt"
	"path"
	"sort"
	"strconv"
	"strings"
)

// Entry is one payload entry in format-neutral form.
type Entry struct {
	Path    string // absolute, clean, no trailing slash
	Kind    string // file | dir | symlink | other
	Mode    int64  // mode exactly as stored (tar mode field / rpm FILEMODES without the file-type nibble)
	RawMode int64  // rpm: FILEMODES including the type bits; tar: same as Mode
	Owner   string
	Group   string
	MTime   int64
	Size    int64
	SHA256  string
	Link    string
	RawName string
	Flags   int64 // rpm FILEFLAGS
	NoData  bool  // rpm ghost: listed in the header, absent from the payload
	Data    []byte
	UID     int
	GID     int
}

// Stamp is one timestamp found somewhere in a package.
type Stamp struct {
	Where string
	Unix  int64
}

// KV is one metadata field in order of appearance.
type KV struct{ K, V string }

// Pkg is a decoded package.
type Pkg struct {
	Format      string
	Entries     []Entry
	Fields      []KV
	Scripts     map[string][]byte
	ScriptMode  map[string]int64
	Conffiles   []string
	HasConffile bool
	Stamps      []Stamp
	Problems    []string // structural defects (each "class: detail")

	Ar          []ArMember
	ControlTar  []TarEntry
	DataTar     []TarEntry
	DataName    string
	DataBlob    []byte // data member / segment exactly as shipped
	ControlBlob []byte
	SigBlob     []byte
	SigName     string
	Md5sums     []byte
	Triggers    []byte
	GzMembers   []GzMember
	RPM         *RPM
	PkgInfoRaw  []byte
	MtreeRaw    []byte
	Mtree       []MtreeLine
	InstallRaw  []byte
	OuterTar    []TarEntry
}

// checkZstdWindow flags a zstd frame that the reference decoder refuses with its default limit.
func checkZstdWindow(p *Pkg, where string, b []byte) {
	if w, ok := ZstdWindow(b); ok && w > 128<<20 {
		p.prob("zstd-window", "%s: the zstd frame declares a %d MiB window; libzstd (dpkg, pacman, rpm) refuses more than 128 MiB by default", where, w>>20)
	}
}

func (p *Pkg) prob(class, format string, a ...any) {
	p.Problems = append(p.Problems, class+": "+fmt.Sprintf(format, a...))
}

// Field returns the first value of a metadata field.
func (p *Pkg) Field(k string) (string, bool) {
	for _, f := range p.Fields {
		if f.K == k {
			return f.V, true
		}
	}
	return "", false
}

// FieldAll returns every value of a (repeatable) metadata field.
func (p *Pkg) FieldAll(k string) []string {
	var out []string
	for _, f := range p.Fields {
		if f.K == k {
			out = append(out, f.V)
		}
	}
	return out
}

func (p *Pkg) Entry(pth string) *Entry {
	for i := range p.Entries {
		if p.Entries[i].Path == pth {
			return &p.Entries[i]
		}
	}
	return nil
}

func absPath(name string) string {
	n := strings.TrimPrefix(name, ".")
	if !strings.HasPrefix(n, "/") {
		n = "/" + strings.TrimPrefix(name, "./")
	}
	c := path.Clean(n)
	return c
}

func tarKind(e *TarEntry) string {
	switch e.Typeflag {
	case tar.TypeReg, 0:
		return "file"
	case tar.TypeDir:
		return "dir"
	case tar.TypeSymlink:
		return "symlink"
	}
	return "other"
}

func entriesFromTar(es []TarEntry, where string, p *Pkg) []Entry {
	var out []Entry
	for i := range es {
		e := &es[i]
		en := Entry{Path: absPath(e.Name), Kind: tarKind(e), Mode: e.Mode, RawMode: e.Mode, Owner: e.Uname, Group: e.Gname,
			MTime: e.ModTime.Unix(), Size: e.Size, Link: e.Linkname, RawName: e.Name, Data: e.Data, UID: e.UID, GID: e.GID}
		if en.Kind == "file" {
			en.SHA256 = e.SHA256()
		}
		out = append(out, en)
		stampTar(p, where, e)
	}
	return out
}

func stampTar(p *Pkg, where string, e *TarEntry) {
	// a tar header always carries an mtime: 0 is 1970-01-01, not "no timestamp"
	p.Stamps = append(p.Stamps, Stamp{where + ":" + e.Name + ":mtime", e.ModTime.Unix()})
	if !e.ATime.IsZero() {
		p.Stamps = append(p.Stamps, Stamp{where + ":" + e.Name + ":atime", e.ATime.Unix()})
	}
	if !e.CTime.IsZero() {
		p.Stamps = append(p.Stamps, Stamp{where + ":" + e.Name + ":ctime", e.CTime.Unix()})
	}
	for k, v := range e.PAX {
		if k == "mtime" || k == "atime" || k == "ctime" {
			if f, err := strconv.ParseFloat(v, 64); err == nil {
				p.Stamps = append(p.Stamps, Stamp{where + ":" + e.Name + ":pax." + k, int64(f)})
			}
		}
	}
}

// checkTarNames applies the member-name rules common to every tar nfpm writes.
func checkTarNames(p *Pkg, where string, es []TarEntry, dotSlash bool, skip func(string) bool) {
	seen := map[string]bool{}
	dirs := map[string]bool{}
	for i := range es {
		e := &es[i]
		if skip != nil && skip(e.Name) {
			continue
		}
		n := e.Name
		if seen[strings.TrimSuffix(n, "/")] {
			p.prob("tar-duplicate-name", "%s: member %q appears twice", where, n)
		}
		seen[strings.TrimSuffix(n, "/")] = true
		if strings.HasPrefix(n, "/") {
			p.prob("tar-absolute-name", "%s: member %q is absolute", where, n)
		}
		if dotSlash && !strings.HasPrefix(n, "./") {
			p.prob("tar-no-dotslash", "%s: member %q lacks the ./ prefix", where, n)
		}
		body := strings.TrimSuffix(strings.TrimPrefix(n, "./"), "/")
		for _, comp := range strings.Split(body, "/") {
			if comp == ".." {
				p.prob("tar-dotdot", "%s: member %q has a .. component", where, n)
			}
			if comp == "" && body != "" {
				p.prob("tar-empty-component", "%s: member %q has an empty path component", where, n)
			}
			if comp == "." {
				p.prob("tar-dot-component", "%s: member %q has a . component", where, n)
			}
		}
		if e.Typeflag == tar.TypeDir {
			if !strings.HasSuffix(n, "/") {
				p.prob("tar-dir-no-slash", "%s: directory %q does not end in /", where, n)
			}
			dirs[body] = true
		} else if strings.HasSuffix(n, "/") {
			p.prob("tar-nondir-slash", "%s: non-directory %q ends in /", where, n)
		}
		if par := path.Dir(body); par != "." && par != "/" && body != "" {
			if !dirs[par] {
				p.prob("tar-parent-missing", "%s: %q appears before (or without) its parent directory %q", where, n, par)
			}
		}
	}
}

// ParseControl parses an RFC-822 style control stanza (deb, ipk).
func ParseControl(b []byte) ([]KV, error) {
	var out []KV
	lines := strings.Split(strings.TrimSuffix(string(b), "\n"), "\n")
	for _, l := range lines {
		if strings.Trim(l, " \t\r") == "" {
			// dpkg and opkg end the paragraph at a line that is empty or holds only white space
			return out, fmt.Errorf("control: empty or white-space-only line inside the stanza (line %q): the fields after it are lost", l)
		}
		if l[0] == ' ' || l[0] == '\t' {
			if len(out) == 0 {
				return out, fmt.Errorf("control: continuation line without field")
			}
			out[len(out)-1].V += "\n" + l[1:]
			continue
		}
		i := strings.IndexByte(l, ':')
		if i <= 0 {
			return out, fmt.Errorf("control: line %q is not a field", l)
		}
		out = append(out, KV{l[:i], strings.TrimSpace(l[i+1:])})
	}
	return out, nil
}

// ParsePkgInfo parses "key = value" lines (apk, archlinux).
func ParsePkgInfo(b []byte) []KV {
	var out []KV
	for _, l := range strings.Split(string(b), "\n") {
		if l == "" || strings.HasPrefix(l, "#") {
			continue
		}
		i := strings.Index(l, " = ")
		if i < 0 {
			// a continuation of a multi-line value (apk pkgdesc) or a malformed line
			out = append(out, KV{"", l})
			continue
		}
		out = append(out, KV{l[:i], l[i+3:]})
	}
	return out
}

// MtreeLine is one entry of an mtree(5) specification.
type MtreeLine struct {
	Path string
	KV   map[string]string
	Raw  string
}

// ParseMtree parses the subset of mtree(5) pacman uses, splitting on blanks
// and decoding \ooo escapes in the path like libarchive does.
func ParseMtree(b []byte) ([]MtreeLine, error) {
	var out []MtreeLine
	for i, l := range strings.Split(strings.TrimSuffix(string(b), "\n"), "\n") {
		if i == 0 {
			if l != "#mtree" {
				return nil, fmt.Errorf("mtree: first line %q is not #mtree", l)
			}
			continue
		}
		if l == "" || strings.HasPrefix(l, "#") || strings.HasPrefix(l, "/set") {
			continue
		}
		words := strings.Fields(l)
		m := MtreeLine{Path: mtreeUnescape(words[0]), KV: map[string]string{}, Raw: l}
		for _, w := range words[1:] {
			k, v, ok := strings.Cut(w, "=")
			if !ok {
				return out, fmt.Errorf("mtree: word %q of line %q is not key=value", w, l)
			}
			m.KV[k] = mtreeUnescape(v)
		}
		out = append(out, m)
	}
	return out, nil
}

func mtreeUnescape(s string) string {
	var b strings.Builder
	for i := 0; i < len(s); i++ {
		if s[i] == '\\' && len(s) >= i+4 && isOct(s[i+1]) && isOct(s[i+2]) && isOct(s[i+3]) {
			v, _ := strconv.ParseUint(s[i+1:i+4], 8, 8)
			b.WriteByte(byte(v))
			i += 3
			continue
		}
		b.WriteByte(s[i])
	}
	return b.String()
}

func isOct(c byte) bool { return c >= '0' && c <= '7' }

// ParseInstall splits an archlinux .INSTALL file into its functions.
func ParseInstall(b []byte) (map[string][]byte, error) {
	out := map[string][]byte{}
	rest := b
	for len(rest) > 0 {
		if !bytes.HasPrefix(rest, []byte("function ")) {
			return out, fmt.Errorf(".INSTALL: expected function header at %q", trunc(string(rest), 40))
		}
		nl := bytes.IndexByte(rest, '\n')
		if nl < 0 {
			return out, fmt.Errorf(".INSTALL: unterminated header")
		}
		head := string(rest[:nl])
		if !strings.HasSuffix(head, "() {") {
			return out, fmt.Errorf(".INSTALL: bad function header %q", head)
		}
		name := strings.TrimSuffix(strings.TrimPrefix(head, "function "), "() {")
		rest = rest[nl+1:]
		// the body ends at the "\n}\n\n" that is followed by the next header or by EOF
		end := -1
		search := 0
		for {
			k := bytes.Index(rest[search:], []byte("\n}\n\n"))
			if k < 0 {
				break
			}
			k += search
			after := rest[k+4:]
			if len(after) == 0 || bytes.HasPrefix(after, []byte("function ")) {
				end = k
				if len(after) == 0 {
					break
				}
				// prefer the last candidate that still leaves well-formed functions? take the first
				// candidate whose remainder parses.
				if _, err := ParseInstall(after); err == nil {
					break
				}
				end = -1
			}
			search = k + 1
		}
		if end < 0 {
			return out, fmt.Errorf(".INSTALL: function %s not terminated", name)
		}
		if _, dup := out[name]; dup {
			return out, fmt.Errorf(".INSTALL: function %s defined twice", name)
		}
		out[name] = rest[:end]
		rest = rest[end+4:]
	}
	return out, nil
}

func trunc(s string, n int) string {
	if len(s) > n {
		return s[:n]
	}
	return s
}

// Decode decodes a package of the given format.
func Decode(format string, b []byte, tools map[string]string) (*Pkg, error) {
	p := &Pkg{Format: format, Scripts: map[string][]byte{}, ScriptMode: map[string]int64{}}
	var err error
	switch format {
	case "deb":
		err = decodeDeb(p, b, tools)
	case "ipk":
		err = decodeIpk(p, b, tools)
	case "apk":
		err = decodeApk(p, b, tools)
	case "archlinux":
		err = decodeArch(p, b, tools)
	case "rpm":
		err = decodeRPM(p, b, tools)
	default:
		err = fmt.Errorf("unknown format %s", format)
	}
	return p, err
}

var debScripts = map[string]bool{"preinst": true, "postinst": true, "prerm": true, "postrm": true, "rules": true, "templates": true, "config": true}

func decodeDebControl(p *Pkg, es []TarEntry) error {
	for i := range es {
		e := &es[i]
		n := strings.TrimPrefix(e.Name, "./")
		switch {
		case n == "control":
			f, err := ParseControl(e.Data)
			if err != nil {
				return err
			}
			p.Fields = f
		case n == "md5sums":
			p.Md5sums = e.Data
		case n == "conffiles":
			p.HasConffile = true
			for _, l := range strings.Split(string(e.Data), "\n") {
				if l != "" {
					p.Conffiles = append(p.Conffiles, l)
				}
			}
		case n == "triggers":
			p.Triggers = e.Data
		case debScripts[n]:
			p.Scripts[n] = e.Data
			p.ScriptMode[n] = e.Mode
		default:
			p.prob("control-unknown-member", "control archive has unexpected member %q", e.Name)
		}
	}
	if p.Fields == nil {
		return fmt.Errorf("control archive has no ./control")
	}
	return nil
}

func decodeDeb(p *Pkg, b []byte, tools map[string]string) error {
	ms, err := ReadAr(b)
	p.Ar = ms
	if err != nil {
		return err
	}
	for _, m := range ms {
		p.Stamps = append(p.Stamps, Stamp{"ar:" + m.Name, m.MTime})
	}
	if len(ms) < 3 {
		return fmt.Errorf("deb: only %d ar members", len(ms))
	}
	if ms[0].Name != "debian-binary" || string(ms[0].Data) != "2.0\n" {
		p.prob("deb-member-order", "first member is %q with content %q", ms[0].Name, trunc(string(ms[0].Data), 10))
	}
	if ms[1].Name != "control.tar.gz" {
		p.prob("deb-member-order", "second member is %q, not control.tar.gz", ms[1].Name)
	}
	comp := map[string]string{"data.tar.gz": "gzip", "data.tar.xz": "xz", "data.tar.zst": "zstd", "data.tar": "none"}
	kind, ok := comp[ms[2].Name]
	if !ok {
		p.prob("deb-member-order", "third member is %q, not a data.tar member", ms[2].Name)
		kind = SniffCompression(ms[2].Data)
	}
	if got := SniffCompression(ms[2].Data); ok && got != kind {
		p.prob("deb-data-compression", "member %s holds a %s stream", ms[2].Name, got)
		kind = got
	}
	for i, m := range ms[3:] {
		if !strings.HasPrefix(m.Name, "_gpg") || i > 0 {
			p.prob("deb-extra-member", "unexpected member %q after data", m.Name)
		} else {
			p.SigBlob, p.SigName = m.Data, m.Name
		}
	}
	p.ControlBlob, p.DataBlob, p.DataName = ms[1].Data, ms[2].Data, ms[2].Name
	gz, err := SplitGzip(ms[1].Data)
	if err != nil {
		return fmt.Errorf("control.tar.gz: %w", err)
	}
	var craw []byte
	for _, g := range gz {
		craw = append(craw, g.Data...)
		if g.HasTime {
			p.Stamps = append(p.Stamps, Stamp{"control.tar.gz:gzip-header", g.ModTime.Unix()})
		}
	}
	ces, cshape, err := ReadTar(craw)
	if err != nil {
		return fmt.Errorf("control.tar: %w", err)
	}
	if !cshape.EndMarker || cshape.NonZeroAfterEOA {
		p.prob("tar-end-marker", "control.tar: end-of-archive marker missing or followed by data")
	}
	// dpkg's own tar reader takes ustar and GNU long names/links, not PAX extension headers
	if n := cshape.Types['x'] + cshape.Types['g']; n > 0 {
		p.prob("deb-pax-header", "control.tar holds %d PAX extension header(s), which dpkg refuses to unpack", n)
	}
	p.ControlTar = ces
	for i := range ces {
		stampTar(p, "control.tar", &ces[i])
	}
	checkTarNames(p, "control.tar", ces, true, nil)
	if err := decodeDebControl(p, ces); err != nil {
		return err
	}
	draw, err := Decompress(kind, ms[2].Data, tools)
	if err != nil {
		return fmt.Errorf("%s: %w", ms[2].Name, err)
	}
	if kind == "zstd" {
		checkZstdWindow(p, ms[2].Name, ms[2].Data)
	}
	if kind == "gzip" {
		if g, _ := SplitGzip(ms[2].Data); len(g) > 0 && g[0].HasTime {
			p.Stamps = append(p.Stamps, Stamp{ms[2].Name + ":gzip-header", g[0].ModTime.Unix()})
		}
	}
	des, dshape, err := ReadTar(draw)
	if err != nil {
		return fmt.Errorf("data.tar: %w", err)
	}
	if !dshape.EndMarker || dshape.NonZeroAfterEOA {
		p.prob("tar-end-marker", "data.tar: end-of-archive marker missing or followed by data")
	}
	if n := dshape.Types['x'] + dshape.Types['g']; n > 0 {
		p.prob("deb-pax-header", "data.tar holds %d PAX extension header(s), which dpkg refuses to unpack", n)
	}
	p.DataTar = des
	p.Entries = entriesFromTar(des, "data.tar", p)
	checkTarNames(p, "data.tar", des, true, nil)
	return nil
}

func decodeIpk(p *Pkg, b []byte, tools map[string]string) error {
	gz, err := SplitGzip(b)
	if err != nil {
		return err
	}
	if len(gz) != 1 {
		p.prob("ipk-gzip-members", "outer stream has %d gzip members", len(gz))
	}
	var raw []byte
	for _, g := range gz {
		raw = append(raw, g.Data...)
		if g.HasTime {
			p.Stamps = append(p.Stamps, Stamp{"ipk:gzip-header", g.ModTime.Unix()})
		}
	}
	outer, shape, err := ReadTar(raw)
	if err != nil {
		return err
	}
	if !shape.EndMarker || shape.NonZeroAfterEOA {
		p.prob("tar-end-marker", "ipk outer tar: end-of-archive marker missing or followed by data")
	}
	p.OuterTar = outer
	var names []string
	for i := range outer {
		names = append(names, outer[i].Name)
		stampTar(p, "ipk", &outer[i])
	}
	if strings.Join(names, " ") != "./debian-binary ./control.tar.gz ./data.tar.gz" {
		p.prob("ipk-member-order", "outer members are %v", names)
	}
	var ctl, data []byte
	for i := range outer {
		switch outer[i].Name {
		case "./debian-binary":
			if string(outer[i].Data) != "2.0\n" {
				p.prob("ipk-debian-binary", "debian-binary holds %q", trunc(string(outer[i].Data), 10))
			}
		case "./control.tar.gz":
			ctl = outer[i].Data
		case "./data.tar.gz":
			data = outer[i].Data
		}
	}
	if ctl == nil || data == nil {
		return fmt.Errorf("ipk: control or data member missing (%v)", names)
	}
	p.ControlBlob, p.DataBlob = ctl, data
	sub := func(name string, blob []byte) ([]TarEntry, error) {
		g, err := SplitGzip(blob)
		if err != nil {
			return nil, fmt.Errorf("%s: %w", name, err)
		}
		var r []byte
		for _, m := range g {
			r = append(r, m.Data...)
			if m.HasTime {
				p.Stamps = append(p.Stamps, Stamp{name + ":gzip-header", m.ModTime.Unix()})
			}
		}
		es, sh, err := ReadTar(r)
		if err != nil {
			return nil, fmt.Errorf("%s: %w", name, err)
		}
		if !sh.EndMarker || sh.NonZeroAfterEOA {
			p.prob("tar-end-marker", "%s: end-of-archive marker missing or followed by data", name)
		}
		return es, nil
	}
	ces, err := sub("control.tar.gz", ctl)
	if err != nil {
		return err
	}
	p.ControlTar = ces
	for i := range ces {
		stampTar(p, "control.tar", &ces[i])
	}
	checkTarNames(p, "control.tar", ces, true, nil)
	if err := decodeDebControl(p, ces); err != nil {
		return err
	}
	des, err := sub("data.tar.gz", data)
	if err != nil {
		return err
	}
	p.DataTar = des
	p.Entries = entriesFromTar(des, "data.tar", p)
	checkTarNames(p, "data.tar", des, true, nil)
	return nil
}

var apkScripts = map[string]bool{".pre-install": true, ".post-install": true, ".pre-upgrade": true, ".post-upgrade": true, ".pre-deinstall": true, ".post-deinstall": true}

func decodeApk(p *Pkg, b []byte, tools map[string]string) error {
	gz, err := SplitGzip(b)
	if err != nil {
		return err
	}
	p.GzMembers = gz
	for i, g := range gz {
		if g.HasTime {
			p.Stamps = append(p.Stamps, Stamp{fmt.Sprintf("apk:gzip-member-%d", i), g.ModTime.Unix()})
		}
	}
	if len(gz) != 2 && len(gz) != 3 {
		return fmt.Errorf("apk: %d gzip members (want [signature] control data)", len(gz))
	}
	idx := 0
	if len(gz) == 3 {
		ses, sh, err := ReadTar(gz[0].Data)
		if err != nil {
			return fmt.Errorf("apk signature segment: %w", err)
		}
		if sh.TrailingZero > 0 {
			p.prob("apk-segment-end-marker", "signature segment carries %d end-of-archive blocks", sh.TrailingZero)
		}
		// apk-tools looks at the first header block of the stream: it must itself be the signature file's header,
		// not an extension header (PAX 'x'/'g', GNU 'L') placed in front of it
		if raw := gz[0].Data; len(raw) >= 512 {
			name := strings.TrimRight(string(raw[:100]), "\x00")
			if tf := raw[156]; (tf != '0' && tf != 0) || !strings.HasPrefix(name, ".SIGN.RSA.") {
				p.prob("apk-signature-first-block", "the first header block of the package is %q with type flag %q, not the .SIGN.RSA.* file", name, string(tf))
			}
		}
		if len(ses) != 1 || !strings.HasPrefix(ses[0].Name, ".SIGN.RSA.") {
			p.prob("apk-signature-segment", "signature segment members: %d, first %q", len(ses), firstName(ses))
		} else {
			p.SigName, p.SigBlob = ses[0].Name, ses[0].Data
		}
		for i := range ses {
			stampTar(p, "apk-signature", &ses[i])
		}
		idx = 1
	}
	ctl, data := gz[idx], gz[idx+1]
	p.ControlBlob, p.DataBlob = ctl.Raw, data.Raw
	ces, csh, err := ReadTar(ctl.Data)
	if err != nil {
		return fmt.Errorf("apk control segment: %w", err)
	}
	if csh.TrailingZero > 0 {
		p.prob("apk-segment-end-marker", "control segment carries %d end-of-archive blocks", csh.TrailingZero)
	}
	if len(ctl.Data)%512 != 0 {
		p.prob("apk-segment-alignment", "control segment is %d bytes, not a multiple of 512", len(ctl.Data))
	}
	p.ControlTar = ces
	if raw := ctl.Data; len(raw) >= 512 {
		if name, tf := strings.TrimRight(string(raw[:100]), "\x00"), raw[156]; (tf != '0' && tf != 0) || name != ".PKGINFO" {
			p.prob("apk-pkginfo-first", "the first header block of the control segment is %q with type flag %q, not .PKGINFO", name, string(tf))
		}
	}
	if len(ces) == 0 || ces[0].Name != ".PKGINFO" {
		p.prob("apk-pkginfo-first", "first control member is %q", firstName(ces))
	}
	for i := range ces {
		e := &ces[i]
		stampTar(p, "apk-control", e)
		switch {
		case e.Name == ".PKGINFO":
			p.PkgInfoRaw = e.Data
			p.Fields = joinApkContinuations(ParsePkgInfo(e.Data))
		case apkScripts[e.Name]:
			p.Scripts[e.Name] = e.Data
			p.ScriptMode[e.Name] = e.Mode
		default:
			p.prob("control-unknown-member", "control segment has unexpected member %q", e.Name)
		}
	}
	des, dsh, err := ReadTar(data.Data)
	if err != nil {
		return fmt.Errorf("apk data segment: %w", err)
	}
	if !dsh.EndMarker || dsh.NonZeroAfterEOA {
		p.prob("tar-end-marker", "apk data segment: end-of-archive marker missing or followed by data")
	}
	if len(data.Data)%512 != 0 {
		p.prob("apk-segment-alignment", "data segment is %d bytes, not a multiple of 512", len(data.Data))
	}
	p.DataTar = des
	p.Entries = entriesFromTar(des, "apk-data", p)
	checkTarNames(p, "apk-data", des, false, nil)
	// the concatenation must read as one tar stream
	var whole []byte
	for _, g := range gz {
		whole = append(whole, g.Data...)
	}
	all, _, err := ReadTar(whole)
	if err != nil {
		p.prob("apk-whole-stream", "concatenated segments do not read as one tar: %v", err)
	} else if want := len(ces) + len(des) + (len(gz) - 2); len(all) != want {
		p.prob("apk-whole-stream", "concatenated stream yields %d members, segments hold %d", len(all), want)
	}
	return nil
}

func joinApkContinuations(kv []KV) []KV {
	var out []KV
	for _, f := range kv {
		if f.K == "" && len(out) > 0 {
			out[len(out)-1].V += "\n" + f.V
			continue
		}
		out = append(out, f)
	}
	return out
}

func firstName(es []TarEntry) string {
	if len(es) == 0 {
		return "(none)"
	}
	return es[0].Name
}

func decodeArch(p *Pkg, b []byte, tools map[string]string) error {
	if SniffCompression(b) != "zstd" {
		return fmt.Errorf("archlinux: not a zstd stream")
	}
	raw, err := Decompress("zstd", b, tools)
	if err != nil {
		return err
	}
	checkZstdWindow(p, "package", b)
	es, sh, err := ReadTar(raw)
	if err != nil {
		return err
	}
	if !sh.EndMarker || sh.NonZeroAfterEOA {
		p.prob("tar-end-marker", "archlinux tar: end-of-archive marker missing or followed by data")
	}
	p.OuterTar = es
	var payload []TarEntry
	for i := range es {
		e := &es[i]
		switch e.Name {
		case ".PKGINFO":
			stampTar(p, "arch", e)
			p.PkgInfoRaw = e.Data
			p.Fields = ParsePkgInfo(e.Data)
		case ".MTREE":
			stampTar(p, "arch", e)
			gz, err := SplitGzip(e.Data)
			if err != nil {
				return fmt.Errorf(".MTREE: %w", err)
			}
			var r []byte
			for _, g := range gz {
				r = append(r, g.Data...)
				if g.HasTime {
					p.Stamps = append(p.Stamps, Stamp{".MTREE:gzip-header", g.ModTime.Unix()})
				}
			}
			p.MtreeRaw = r
			p.Mtree, err = ParseMtree(r)
			if err != nil {
				p.prob("mtree-syntax", "%v", err)
			}
		case ".INSTALL":
			stampTar(p, "arch", e)
			p.InstallRaw = e.Data
			fn, err := ParseInstall(e.Data)
			if err != nil {
				p.prob("arch-install-syntax", "%v", err)
			}
			for k, v := range fn {
				p.Scripts[k] = v
			}
		default:
			payload = append(payload, *e)
		}
	}
	if p.PkgInfoRaw == nil {
		return fmt.Errorf("archlinux: no .PKGINFO")
	}
	if p.MtreeRaw == nil {
		return fmt.Errorf("archlinux: no .MTREE")
	}
	p.DataTar = payload
	p.Entries = entriesFromTar(payload, "arch", p)
	checkTarNames(p, "arch", payload, false, nil)
	for _, f := range p.Fields {
		if f.K == "builddate" {
			if v, err := strconv.ParseInt(f.V, 10, 64); err == nil {
				p.Stamps = append(p.Stamps, Stamp{".PKGINFO:builddate", v})
			}
		}
		if f.K == "backup" {
			p.Conffiles = append(p.Conffiles, "/"+f.V)
		}
	}
	for _, m := range p.Mtree {
		if t, ok := m.KV["time"]; ok {
			if f, err := strconv.ParseFloat(t, 64); err == nil {
				p.Stamps = append(p.Stamps, Stamp{".MTREE:" + m.Path, int64(f)})
			}
		}
	}
	return nil
}

func decodeRPM(p *Pkg, b []byte, tools map[string]string) error {
	r, err := ReadRPM(b, tools)
	p.RPM = r
	if err != nil {
		return err
	}
	if SniffCompression(r.Payload) == "zstd" {
		checkZstdWindow(p, "payload", r.Payload)
	}
	h := r.Hdr
	add := func(k string, tag int) {
		if h.Has(tag) {
			e := h.ByTag[tag]
			if len(e.Strs) > 0 {
				p.Fields = append(p.Fields, KV{k, e.Strs[0]})
			} else if len(e.Ints) > 0 {
				p.Fields = append(p.Fields, KV{k, strconv.FormatInt(e.Ints[0], 10)})
			}
		}
	}
	for _, t := range []struct {
		k   string
		tag int
	}{{"Name", 1000}, {"Version", 1001}, {"Release", 1002}, {"Epoch", 1003}, {"Summary", 1004}, {"Description", 1005},
		{"BuildTime", 1006}, {"BuildHost", 1007}, {"Size", 1009}, {"Vendor", 1011}, {"License", 1014}, {"Packager", 1015},
		{"Group", 1016}, {"URL", 1020}, {"OS", 1021}, {"Arch", 1022}, {"PayloadFormat", 1124}, {"PayloadCompressor", 1125}, {"SourceRPM", 1044}} {
		add(t.k, t.tag)
	}
	for _, s := range h.Strs(1098) {
		p.Fields = append(p.Fields, KV{"Prefix", s})
	}
	rel := func(k string, n, v, f int) {
		for _, s := range h.Relations(n, v, f) {
			p.Fields = append(p.Fields, KV{k, s})
		}
	}
	rel("Provides", 1047, 1113, 1112)
	rel("Requires", 1049, 1050, 1048)
	rel("Conflicts", 1054, 1055, 1053)
	rel("Obsoletes", 1090, 1115, 1114)
	rel("Recommends", 5046, 5047, 5048)
	rel("Suggests", 5049, 5050, 5051)
	for k, tag := range map[string]int{"prein": 1023, "postin": 1024, "preun": 1025, "postun": 1026, "pretrans": 1151, "posttrans": 1152, "verifyscript": 1079} {
		if h.Has(tag) {
			p.Scripts[k] = []byte(h.Str(tag))
		}
	}
	if v := h.Ints(1006); len(v) > 0 {
		p.Stamps = append(p.Stamps, Stamp{"rpm:BUILDTIME", v[0]})
	}
	for _, v := range h.Ints(1080) {
		_ = v // changelog times are content, not build timestamps
	}
	cp := map[string]*CpioEntry{}
	for i := range r.Cpio {
		c := &r.Cpio[i]
		cp[path.Clean("/"+strings.TrimPrefix(strings.TrimPrefix(c.Name, "."), "/"))] = c
		if c.MTime != 0 {
			p.Stamps = append(p.Stamps, Stamp{"cpio:" + c.Name, c.MTime})
		}
	}
	for _, f := range r.Files {
		e := Entry{Path: path.Clean(f.Name), Mode: f.Mode & 0o7777, RawMode: f.Mode, Owner: f.User, Group: f.Group, MTime: f.MTime,
			Size: f.Size, Link: f.LinkTo, RawName: f.Name, Flags: f.Flags}
		switch f.Mode & 0o170000 {
		case 0o040000:
			e.Kind = "dir"
		case 0o120000:
			e.Kind = "symlink"
		case 0o100000:
			e.Kind = "file"
		default:
			e.Kind = "other"
		}
		p.Stamps = append(p.Stamps, Stamp{"rpm:FILEMTIMES:" + f.Name, f.MTime})
		if c, ok := cp[e.Path]; ok {
			e.Data = c.Data
			if e.Kind == "file" {
				e.SHA256 = sha256hex(c.Data)
			}
		} else {
			e.NoData = true
		}
		if f.Flags&(1<<0) != 0 { // RPMFILE_CONFIG
			p.Conffiles = append(p.Conffiles, e.Path)
		}
		p.Entries = append(p.Entries, e)
	}
	return nil
}

// SortedPaths lists the payload paths.
func (p *Pkg) SortedPaths() []string {
	var out []string
	for _, e := range p.Entries {
		out = append(out, e.Path)
	}
	sort.Strings(out)
	return out
}
