package pkgread

import (
	"bytes"
	"crypto/sha256"
	"encoding/binary"
	"encoding/hex"
	"fmt"
	"strconv"
	"strings"
)

// RPM header value types.
const (
	rpmNull = iota
	rpmChar
	rpmInt8
	rpmInt16
	rpmInt32
	rpmInt64
	rpmString
	rpmBin
	rpmStringArray
	rpmI18NString
)

// RPMEntry is one index entry of a header structure.
type RPMEntry struct {
	Tag    int
	Type   int
	Offset int
	Count  int
	Ints   []int64
	Strs   []string
	Bin    []byte
}

// RPMHeader is a decoded header structure.
type RPMHeader struct {
	Entries []RPMEntry
	ByTag   map[int]*RPMEntry
	Raw     []byte // the complete header structure as stored (magic .. end of store)
	Start   int
	End     int
}

func (h *RPMHeader) Str(tag int) string {
	if e := h.ByTag[tag]; e != nil && len(e.Strs) > 0 {
		return e.Strs[0]
	}
	return ""
}
func (h *RPMHeader) Has(tag int) bool { return h.ByTag[tag] != nil }
func (h *RPMHeader) Strs(tag int) []string {
	if e := h.ByTag[tag]; e != nil {
		return e.Strs
	}
	return nil
}
func (h *RPMHeader) Ints(tag int) []int64 {
	if e := h.ByTag[tag]; e != nil {
		return e.Ints
	}
	return nil
}

// RPMFile is one file of the header's file list.
type RPMFile struct {
	Name   string
	Size   int64
	Mode   int64
	MTime  int64
	Digest string
	LinkTo string
	Flags  int64
	User   string
	Group  string
}

// CpioEntry is one newc cpio member.
type CpioEntry struct {
	Name  string
	Mode  int64
	MTime int64
	Size  int64
	NLink int64
	Data  []byte
}

// RPM is a decoded rpm package.
type RPM struct {
	Lead        []byte
	Sig         *RPMHeader
	SigPad      int
	Hdr         *RPMHeader
	Payload     []byte // compressed payload as shipped
	PayloadRaw  []byte // decompressed cpio
	Compressor  string
	Files       []RPMFile
	Cpio        []CpioEntry
	CpioTrailer bool
}

func parseRPMHeader(b []byte, off int) (*RPMHeader, error) {
	if len(b)-off < 16 {
		return nil, fmt.Errorf("rpm: truncated header structure at %d", off)
	}
	if !bytes.Equal(b[off:off+3], []byte{0x8e, 0xad, 0xe8}) || b[off+3] != 1 {
		return nil, fmt.Errorf("rpm: bad header magic at %d", off)
	}
	n := int(binary.BigEndian.Uint32(b[off+8:]))
	hs := int(binary.BigEndian.Uint32(b[off+12:]))
	idx := off + 16
	store := idx + 16*n
	end := store + hs
	if end > len(b) || n > 1<<20 {
		return nil, fmt.Errorf("rpm: header at %d exceeds file (%d entries, %d store bytes)", off, n, hs)
	}
	h := &RPMHeader{ByTag: map[int]*RPMEntry{}, Raw: b[off:end], Start: off, End: end}
	st := b[store:end]
	for i := 0; i < n; i++ {
		e := RPMEntry{
			Tag:    int(int32(binary.BigEndian.Uint32(b[idx+16*i:]))),
			Type:   int(binary.BigEndian.Uint32(b[idx+16*i+4:])),
			Offset: int(int32(binary.BigEndian.Uint32(b[idx+16*i+8:]))),
			Count:  int(binary.BigEndian.Uint32(b[idx+16*i+12:])),
		}
		o := e.Offset
		if o < 0 || o > len(st) {
			return nil, fmt.Errorf("rpm: tag %d offset %d outside store", e.Tag, o)
		}
		if e.Count == 0 {
			// rpm's header check (hdrchkTag / hdrchkData) refuses an index entry without data
			return nil, fmt.Errorf("rpm: tag %d (type %d) has count 0", e.Tag, e.Type)
		}
		need := func(n int) error {
			if o+n > len(st) {
				return fmt.Errorf("rpm: tag %d data exceeds store", e.Tag)
			}
			return nil
		}
		align := func(a int) error {
			if o%a != 0 {
				return fmt.Errorf("rpm: tag %d (type %d) data at offset %d not %d-byte aligned", e.Tag, e.Type, o, a)
			}
			return nil
		}
		switch e.Type {
		case rpmNull:
		case rpmChar, rpmInt8:
			if err := need(e.Count); err != nil {
				return nil, err
			}
			for j := 0; j < e.Count; j++ {
				e.Ints = append(e.Ints, int64(st[o+j]))
			}
		case rpmInt16:
			if err := need(2 * e.Count); err != nil {
				return nil, err
			}
			if err := align(2); err != nil {
				return nil, err
			}
			for j := 0; j < e.Count; j++ {
				e.Ints = append(e.Ints, int64(binary.BigEndian.Uint16(st[o+2*j:])))
			}
		case rpmInt32:
			if err := need(4 * e.Count); err != nil {
				return nil, err
			}
			if err := align(4); err != nil {
				return nil, err
			}
			for j := 0; j < e.Count; j++ {
				e.Ints = append(e.Ints, int64(binary.BigEndian.Uint32(st[o+4*j:])))
			}
		case rpmInt64:
			if err := need(8 * e.Count); err != nil {
				return nil, err
			}
			if err := align(8); err != nil {
				return nil, err
			}
			for j := 0; j < e.Count; j++ {
				e.Ints = append(e.Ints, int64(binary.BigEndian.Uint64(st[o+8*j:])))
			}
		case rpmString, rpmStringArray, rpmI18NString:
			cnt := e.Count
			if e.Type == rpmString && cnt != 1 {
				return nil, fmt.Errorf("rpm: tag %d STRING with count %d", e.Tag, cnt)
			}
			p := o
			for j := 0; j < cnt; j++ {
				k := bytes.IndexByte(st[p:], 0)
				if k < 0 {
					return nil, fmt.Errorf("rpm: tag %d string %d not NUL-terminated", e.Tag, j)
				}
				e.Strs = append(e.Strs, string(st[p:p+k]))
				p += k + 1
			}
		case rpmBin:
			if err := need(e.Count); err != nil {
				return nil, err
			}
			e.Bin = st[o : o+e.Count]
		default:
			return nil, fmt.Errorf("rpm: tag %d has unknown type %d", e.Tag, e.Type)
		}
		h.Entries = append(h.Entries, e)
		if _, dup := h.ByTag[e.Tag]; dup {
			return nil, fmt.Errorf("rpm: duplicate tag %d", e.Tag)
		}
		h.ByTag[e.Tag] = &h.Entries[len(h.Entries)-1]
	}
	return h, nil
}

// ReadCpio parses an SVR4 "newc" cpio archive.
func ReadCpio(b []byte) (entries []CpioEntry, trailer bool, err error) {
	off := 0
	for {
		if len(b)-off < 110 {
			return entries, false, fmt.Errorf("cpio: truncated header at %d", off)
		}
		h := b[off : off+110]
		if string(h[:6]) != "070701" {
			return entries, false, fmt.Errorf("cpio: bad magic %q at %d", h[:6], off)
		}
		f := func(i int) int64 {
			v, _ := strconv.ParseInt(string(h[6+8*i:14+8*i]), 16, 64)
			return v
		}
		e := CpioEntry{Mode: f(1), NLink: f(4), MTime: f(5), Size: f(6)}
		ns := int(f(11))
		off += 110
		if off+ns > len(b) || ns == 0 {
			return entries, false, fmt.Errorf("cpio: truncated name at %d", off)
		}
		e.Name = string(b[off : off+ns-1])
		off += ns
		off = (off + 3) &^ 3
		if off+int(e.Size) > len(b) {
			return entries, false, fmt.Errorf("cpio: %q truncated", e.Name)
		}
		e.Data = b[off : off+int(e.Size)]
		off += int(e.Size)
		off = (off + 3) &^ 3
		if e.Name == "TRAILER!!!" {
			if !isZero(b[min(off, len(b)):]) {
				return entries, true, fmt.Errorf("cpio: data after trailer")
			}
			return entries, true, nil
		}
		entries = append(entries, e)
	}
}

// ReadRPM decodes lead, signature header, header and payload.
func ReadRPM(b []byte, tools map[string]string) (*RPM, error) {
	if len(b) < 96 || !bytes.Equal(b[:4], []byte{0xed, 0xab, 0xee, 0xdb}) {
		return nil, fmt.Errorf("rpm: bad lead")
	}
	r := &RPM{Lead: b[:96]}
	sig, err := parseRPMHeader(b, 96)
	if err != nil {
		return nil, fmt.Errorf("signature header: %w", err)
	}
	r.Sig = sig
	off := sig.End
	for off%8 != 0 {
		if off >= len(b) || b[off] != 0 {
			return r, fmt.Errorf("rpm: signature header not padded with zeros to 8 bytes")
		}
		off++
		r.SigPad++
	}
	hdr, err := parseRPMHeader(b, off)
	if err != nil {
		return r, fmt.Errorf("header: %w", err)
	}
	r.Hdr = hdr
	r.Payload = b[hdr.End:]
	r.Compressor = hdr.Str(1125)
	kind := SniffCompression(r.Payload)
	raw, err := Decompress(kind, r.Payload, tools)
	if err != nil {
		return r, fmt.Errorf("payload (%s): %w", kind, err)
	}
	r.PayloadRaw = raw
	r.Cpio, r.CpioTrailer, err = ReadCpio(raw)
	if err != nil {
		return r, err
	}
	// file list
	base := hdr.Strs(1117)
	dirs := hdr.Strs(1118)
	di := hdr.Ints(1116)
	n := len(base)
	get := func(tag int, what string) ([]int64, error) {
		v := hdr.Ints(tag)
		if len(v) != n {
			return nil, fmt.Errorf("rpm: %s has %d values for %d files", what, len(v), n)
		}
		return v, nil
	}
	gets := func(tag int, what string) ([]string, error) {
		v := hdr.Strs(tag)
		if len(v) != n {
			return nil, fmt.Errorf("rpm: %s has %d values for %d files", what, len(v), n)
		}
		return v, nil
	}
	if n > 0 {
		if len(di) != n {
			return r, fmt.Errorf("rpm: DIRINDEXES has %d values for %d files", len(di), n)
		}
		sizes, err := get(1028, "FILESIZES")
		if err != nil {
			return r, err
		}
		modes, err := get(1030, "FILEMODES")
		if err != nil {
			return r, err
		}
		mt, err := get(1034, "FILEMTIMES")
		if err != nil {
			return r, err
		}
		flags, err := get(1037, "FILEFLAGS")
		if err != nil {
			return r, err
		}
		dg, err := gets(1035, "FILEDIGESTS")
		if err != nil {
			return r, err
		}
		lt, err := gets(1036, "FILELINKTOS")
		if err != nil {
			return r, err
		}
		us, err := gets(1039, "FILEUSERNAME")
		if err != nil {
			return r, err
		}
		gs, err := gets(1040, "FILEGROUPNAME")
		if err != nil {
			return r, err
		}
		for i := 0; i < n; i++ {
			if int(di[i]) >= len(dirs) {
				return r, fmt.Errorf("rpm: dirindex %d out of range", di[i])
			}
			r.Files = append(r.Files, RPMFile{Name: dirs[di[i]] + base[i], Size: sizes[i], Mode: modes[i], MTime: mt[i],
				Digest: dg[i], LinkTo: lt[i], Flags: flags[i], User: us[i], Group: gs[i]})
		}
	}
	return r, nil
}

// Relations decodes a (name, version, flags) dependency triple set.
func (h *RPMHeader) Relations(nameTag, verTag, flagTag int) []string {
	names := h.Strs(nameTag)
	vers := h.Strs(verTag)
	flags := h.Ints(flagTag)
	var out []string
	for i, n := range names {
		s := n
		if i < len(vers) && i < len(flags) && vers[i] != "" {
			op := ""
			f := flags[i]
			if f&0x02 != 0 {
				op += "<"
			}
			if f&0x04 != 0 {
				op += ">"
			}
			if f&0x08 != 0 {
				op += "="
			}
			s = n + " " + op + " " + vers[i]
		}
		out = append(out, s)
	}
	return out
}

func sha256hex(b []byte) string {
	s := sha256.Sum256(b)
	return hex.EncodeToString(s[:])
}

// CleanRel strips "./" and leading "/" from a member name.
func CleanRel(name string) string {
	name = strings.TrimPrefix(name, "./")
	return strings.TrimPrefix(name, "/")
}
