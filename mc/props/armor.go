package props

import (
	"bytes"
	"io"

	"github.com/ProtonMail/go-crypto/openpgp/armor"
)

func armorDecode(b []byte) (io.Reader, error) {
	blk, err := armor.Decode(bytes.NewReader(b))
	if err != nil {
		return nil, err
	}
	return blk.Body, nil
}
