package props

import (
	"bytes"
	"encoding/json"
	"fmt"
	"reflect"
	"regexp"
	"strings"
	"time"

	"gopkg.in/yaml.v3"

	"verif/mc/fixture"
	"verif/mc/model"

	"github.com/goreleaser/nfpm/v2"
	_ "github.com/goreleaser/nfpm/v2/apk"
	_ "github.com/goreleaser/nfpm/v2/arch"
	_ "github.com/goreleaser/nfpm/v2/deb"
	_ "github.com/goreleaser/nfpm/v2/ipk"
	_ "github.com/goreleaser/nfpm/v2/rpm"
)

// noEnv is the environment mapping used unless a check explores the environment.
// (One name has a value, for documents that want a reference whose VALUE looks like it held references itself:
// what a mapping returns is data, it is not expanded again.)
func noEnv(name string) string {
	if name == "NFPM_VERIF_DOLLAR" {
		return "costs $5 and ${NFPM_VERIF_DOLLAR} or $HOME a month"
	}
	return ""
}

// parseYAML runs the real parser on YAML text.
func parseYAML(text string, mapping func(string) string) (cfg nfpm.Config, err error) {
	if mapping == nil {
		mapping = noEnv
	}
	// a panic inside the parser is a failure to parse this document (reported like any other parse error, with
	// the panic value), not a crash of the harness
	defer func() {
		if r := recover(); r != nil {
			err = fmt.Errorf("PANIC in nfpm.ParseWithEnvMapping: %v", r)
		}
	}()
	return nfpm.ParseWithEnvMapping(strings.NewReader(text), mapping)
}

// packageFrom performs what the command-line tool does after parsing:
// Get(format) -> WithDefaults -> Package.
func packageFrom(cfg *nfpm.Config, format string) (out []byte, oinfo *nfpm.Info, oerr error) {
	// likewise: a panic while obtaining the settings or packaging is a failed packaging call
	defer func() {
		if r := recover(); r != nil {
			oerr = fmt.Errorf("PANIC in Config.Get / Package(%s): %v", format, r)
		}
	}()
	info, err := cfg.Get(format)
	if err != nil {
		return nil, nil, fmt.Errorf("get: %w", err)
	}
	info = nfpm.WithDefaults(info)
	p, err := nfpm.Get(format)
	if err != nil {
		return nil, info, err
	}
	var buf bytes.Buffer
	if err := p.Package(info, &buf); err != nil {
		return buf.Bytes(), info, err
	}
	return buf.Bytes(), info, nil
}

// buildYAML parses text freshly and packages it for format.
func buildYAML(text, format string) ([]byte, error) {
	cfg, err := parseYAML(text, nil)
	if err != nil {
		return nil, fmt.Errorf("parse: %w", err)
	}
	b, _, err := packageFrom(&cfg, format)
	return b, err
}

func specs(list []model.Entry) []fixture.ContentSpec {
	var out []fixture.ContentSpec
	for _, e := range list {
		out = append(out, fixture.ContentSpec{Src: e.Src, Dst: e.Dst, Type: e.Type, Packager: e.Packager,
			Owner: e.Owner, Group: e.Group, Mode: e.Mode, MTime: e.MTime, HasInfo: e.HasInfo, Expand: e.Expand})
	}
	return out
}

var zTimeRe = regexp.MustCompile(`(\d{4}-\d\d-\d\dT\d\d:\d\d:\d\d(?:\.\d+)?)Z`)

// respellText writes the same document in another YAML spelling: "json" (flow style, every string quoted, escapes),
// "crlf" (CRLF line ends), "bom" (byte order mark, document start and end markers), "tz" (timestamps written with a
// +02:00 offset, same instants), "comments" (a comment and a blank line after every top-level line), or a number
// notation ("0", "0o", "0x", "0b": modes and umask).
func respellText(text, spell string) (string, error) {
	switch spell {
	case "json":
		var v any
		if err := yaml.Unmarshal([]byte(text), &v); err != nil {
			return "", err
		}
		b, err := json.MarshalIndent(v, "", "  ")
		return string(b) + "\n", err
	case "crlf":
		return strings.ReplaceAll(text, "\n", "\r\n"), nil
	case "bom":
		return "\ufeff---\n" + text + "...\n", nil
	case "tz":
		return zTimeRe.ReplaceAllStringFunc(text, func(m string) string {
			t, err := time.Parse(time.RFC3339Nano, m)
			if err != nil {
				return m
			}
			return t.In(time.FixedZone("", 2*3600)).Format(time.RFC3339Nano)
		}), nil
	case "comments":
		// a comment line before every top-level key (column 0: outside any block scalar), one at the end
		var b strings.Builder
		for _, l := range strings.SplitAfter(text, "\n") {
			if len(l) > 0 && (l[0] >= 'a' && l[0] <= 'z') {
				b.WriteString("# a comment before a top-level key\n")
			}
			b.WriteString(l)
		}
		b.WriteString("# a comment at the end\n")
		return b.String(), nil
	case "0", "0o", "0x", "0b":
		return respellNumbers(text, spell), nil
	}
	return "", fmt.Errorf("unknown spelling %q", spell)
}

// cloneInfo returns a deep copy of the effective settings as a library user would have built them in Go: nothing is
// shared with the parsed configuration, and a list or map without items is written the other way round (nil where
// the parser left an empty one, empty where it left nil) when flip is set - both mean "none".
func cloneInfo(info *nfpm.Info, flip bool) *nfpm.Info {
	out := reflect.New(reflect.TypeOf(*info)).Elem()
	cloneValue(out, reflect.ValueOf(*info), flip)
	c := out.Interface().(nfpm.Info)
	return &c
}

func cloneValue(dst, src reflect.Value, flip bool) {
	switch src.Kind() {
	case reflect.Struct:
		if src.Type() == timeType {
			dst.Set(src)
			return
		}
		for i := 0; i < src.NumField(); i++ {
			if !dst.Field(i).CanSet() {
				continue
			}
			cloneValue(dst.Field(i), src.Field(i), flip)
		}
	case reflect.Pointer:
		if src.IsNil() {
			return
		}
		n := reflect.New(src.Type().Elem())
		cloneValue(n.Elem(), src.Elem(), flip)
		dst.Set(n)
	case reflect.Slice:
		if src.Len() == 0 {
			if flip == src.IsNil() {
				dst.Set(reflect.MakeSlice(src.Type(), 0, 0))
			}
			return
		}
		n := reflect.MakeSlice(src.Type(), src.Len(), src.Len())
		for i := 0; i < src.Len(); i++ {
			cloneValue(n.Index(i), src.Index(i), flip)
		}
		dst.Set(n)
	case reflect.Map:
		if src.Len() == 0 {
			if flip == src.IsNil() {
				dst.Set(reflect.MakeMap(src.Type()))
			}
			return
		}
		n := reflect.MakeMapWithSize(src.Type(), src.Len())
		it := src.MapRange()
		for it.Next() {
			v := reflect.New(src.Type().Elem()).Elem()
			cloneValue(v, it.Value(), flip)
			n.SetMapIndex(it.Key(), v)
		}
		dst.Set(n)
	default:
		dst.Set(src)
	}
}

// packageCloned packages the format from settings built as a library user would (see cloneInfo).
func packageCloned(text, format string, flip bool) (out []byte, oerr error) {
	defer func() {
		if r := recover(); r != nil {
			oerr = fmt.Errorf("PANIC while packaging settings built in Go (%s): %v", format, r)
		}
	}()
	cfg, err := parseYAML(text, nil)
	if err != nil {
		return nil, err
	}
	info, err := cfg.Get(format)
	if err != nil {
		return nil, err
	}
	info = nfpm.WithDefaults(cloneInfo(info, flip))
	p, err := nfpm.Get(format)
	if err != nil {
		return nil, err
	}
	var buf bytes.Buffer
	if err := p.Package(info, &buf); err != nil {
		return nil, err
	}
	return buf.Bytes(), nil
}
