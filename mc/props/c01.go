package props

import (
	"bytes"
	"fmt"
	"os"
	"regexp"
	"sort"
	"strconv"
	"strings"
	"time"

	"verif/mc/engine"
	"verif/mc/fixture"
	"verif/mc/model"
	"verif/mc/pkgread"

	"github.com/goreleaser/nfpm/v2"
)

// Setting is one deviation from the default build settings.
type Setting struct {
	Name        string      `json:"name"`
	Umask       os.FileMode `json:"umask,omitempty"` // 0 = leave unset (default 002)
	MTime       string      `json:"mtime,omitempty"` // "A" (default), "B", "unset"
	NoGlob      bool        `json:"noglob,omitempty"`
	DebCompress string      `json:"deb_compression,omitempty"`
	RPMCompress string      `json:"rpm_compression,omitempty"`
	Only        string      `json:"only,omitempty"` // the single format the setting concerns ("" = all)
	// RPMPrefixes: rpm.prefixes (a relocatable package); the payload is what it is without them
	RPMPrefixes []string `json:"rpm_prefixes,omitempty"`
	// GoUmask0: the library user sets Umask to 0 on the effective settings after WithDefaults (a document cannot say
	// so: 0 means "default" there): no permission bit is masked
	GoUmask0 bool `json:"go_umask_0,omitempty"`
}

func (s Setting) pkgMTime() time.Time {
	switch s.MTime {
	case "B":
		return time.Date(1999, 12, 31, 23, 59, 58, 0, time.UTC)
	case "unset":
		return time.Time{}
	case "F": // a configured mtime that is not a whole second
		return PkgMTime.Add(750 * time.Millisecond)
	case "G":
		return PkgMTime.Add(500 * time.Millisecond)
	case "Y1960", "Y1970", "Y2040", "Y2110":
		return fixture.TimeOf["epochs/y"+s.MTime[1:]+".txt"]
	case "Y1969TZ": // half an hour before the epoch, written with a zone offset that puts its wall clock after it
		return time.Date(1970, 1, 1, 0, 30, 0, 0, time.FixedZone("", 3600))
	case "Y2106TZ": // after 2^32 seconds, its wall clock (zone -12h) before
		return time.Date(2106, 2, 7, 0, 0, 0, 0, time.FixedZone("", -12*3600))
	}
	return PkgMTime
}

func (s Setting) umask() os.FileMode {
	if s.GoUmask0 {
		return 0
	}
	if s.Umask == 0 {
		return 0o002
	}
	return s.Umask
}

func c01Settings() []Setting {
	return []Setting{
		{Name: "default"},
		{Name: "umask=022", Umask: 0o022},
		{Name: "umask=077", Umask: 0o077},
		{Name: "umask=027", Umask: 0o027},
		{Name: "mtime=B", MTime: "B"},
		{Name: "mtime=unset", MTime: "unset"},
		{Name: "disable_globbing", NoGlob: true},
		{Name: "deb.compression=xz", DebCompress: "xz", Only: "deb"},
		{Name: "deb.compression=zstd", DebCompress: "zstd", Only: "deb"},
		{Name: "deb.compression=none", DebCompress: "none", Only: "deb"},
		{Name: "rpm.compression=gzip:9", RPMCompress: "gzip:9", Only: "rpm"},
		{Name: "rpm.compression=xz", RPMCompress: "xz", Only: "rpm"},
		{Name: "rpm.compression=lzma", RPMCompress: "lzma", Only: "rpm"},
		{Name: "rpm.compression=zstd", RPMCompress: "zstd", Only: "rpm"},
		{Name: "rpm.compression=zstd:fastest", RPMCompress: "zstd:fastest", Only: "rpm"},
	}
}

// doc renders a configuration for a content list under a setting.
func (s Setting) doc(list []model.Entry, root string) fixture.Doc {
	d := fixture.Base()
	d["contents"] = fixture.ContentsYAML(specs(list), root)
	if s.Umask != 0 {
		d["umask"] = int(s.Umask)
	}
	if !s.pkgMTime().IsZero() {
		d["mtime"] = s.pkgMTime()
	}
	if s.NoGlob {
		d["disable_globbing"] = true
	}
	if s.DebCompress != "" {
		d["deb"] = map[string]any{"compression": s.DebCompress}
	}
	rpm := map[string]any{"buildhost": "buildhost.example"}
	if s.RPMCompress != "" {
		rpm["compression"] = s.RPMCompress
	}
	if len(s.RPMPrefixes) > 0 {
		rpm["prefixes"] = s.RPMPrefixes
	}
	d["rpm"] = rpm
	return d
}

// C01Case is one content list under one setting, built for every format.
type C01Case struct {
	Setting Setting       `json:"setting"`
	List    []model.Entry `json:"list"`
	// Mutate: build once, change the source tree (kind path), build again and judge the second
	// package against the changed tree: the payload reflects the sources as they are at packaging time.
	Mutate string `json:"mutate,omitempty"`
	// Cwd / Spelling: the build runs with this working directory (fixture relative) and the first entry's source is
	// written as Spelling, relative to it (List[0].Src names the same files for the reference planner)
	Cwd      string `json:"cwd,omitempty"`
	Spelling string `json:"spelling,omitempty"`
	// MayFail: the configuration holds times that a format's fields may be unable to hold - refusing to build is
	// accepted; a package that is built is judged like any other
	MayFail bool `json:"may_fail,omitempty"`
	// Spell: the YAML spelling of the document (see respellText): json | crlf | bom | comments | tz, or how its numbers
	// (mode, umask) are written: "0" = 0644, "0o" = 0o644, "0x" = 0x1a4, "0b" = 0b110100100
	Spell string `json:"number_spelling,omitempty"`
}

var numLineRe = regexp.MustCompile(`(?m)^(\s*(?:mode|umask): )(\d+)$`)

// respellNumbers rewrites the decimal mode / umask values of a rendered document in another notation of the same number.
func respellNumbers(text, spell string) string {
	return numLineRe.ReplaceAllStringFunc(text, func(l string) string {
		m := numLineRe.FindStringSubmatch(l)
		n, _ := strconv.Atoi(m[2])
		switch spell {
		case "0":
			return m[1] + "0" + strconv.FormatInt(int64(n), 8)
		case "0o":
			return m[1] + "0o" + strconv.FormatInt(int64(n), 8)
		case "0x":
			return m[1] + "0x" + strconv.FormatInt(int64(n), 16)
		case "0b":
			return m[1] + "0b" + strconv.FormatInt(int64(n), 2)
		}
		return l
	})
}

// c01Templates is the content-entry alphabet (simplest first). Σc′ = the first nQuick.
func c01Templates() []model.Entry {
	fi := func(e model.Entry) model.Entry {
		e.Mode, e.Owner, e.Group, e.MTime = 0o4755, "app", "grp", EntryMTime
		return e
	}
	base := []model.Entry{
		{Src: "etc/app.conf", Dst: "/etc/app/app.conf"},
		{Src: "bin/app", Dst: "/usr/bin/"},
		fi(model.Entry{Src: "bin/app", Dst: "/usr/sbin/app2"}),
		{Src: "etc/app.conf", Dst: "/etc/app.conf", Type: "config"},
		{Dst: "/var/lib/app", Type: "dir"},
		{Src: "/usr/bin/app", Dst: "/usr/bin/applink", Type: "symlink"},
		{Src: "tree", Dst: "/opt/tree", Type: "tree"},
		{Src: "etc/conf.d/*.conf", Dst: "/etc/conf.d"},
		{Src: "etc/", Dst: "/cfg"},
		{Dst: "/var/log/app.log", Type: "ghost"},
		{Src: "etc/app.conf", Dst: "opt/rel/app.conf"},
		{Src: "etc/app.conf", Dst: "/etc/nr.conf", Type: "config|noreplace"},
		{Dst: "/var/lib/app2", Type: "dir", Mode: 0o2770, Owner: "app", Group: "grp"},
		{Src: "tree", Dst: "/opt/tree2", Type: "tree", Mode: 0o750, Owner: "app", Group: "grp"},
		{Src: "etc/conf.d/*.conf", Dst: "/etc/globconf", Type: "config", Owner: "app"},
		{Src: "etc/", Dst: "/flat/"},
		{Src: "link", Dst: "/opt/disklink"},
		{Src: "share/a b.txt", Dst: "/opt/share/a b.txt"},
		{Src: "share/we\\[i\\]rd\\*.txt", Dst: "/opt/weird"},
		{Src: "bin/suid", Dst: "/usr/bin/suid"},
		{Src: "share/ww.txt", Dst: "/opt/ww.txt"},
		{Src: "etc/empty", Dst: "/etc/empty"},
		{Src: "share/big.bin", Dst: "/opt/big.bin"},
		{Src: "doc/manual.txt", Dst: "/usr/share/doc/app/manual.txt", Type: "doc"},
		{Src: "etc/con*/*.conf", Dst: "/etc/app.d"},
		// Σc adds
		{Src: "etc/app.conf", Dst: "/etc/mo.conf", Type: "config|missingok"},
		{Src: "doc/LICENSE", Dst: "/usr/share/licenses/app/LICENSE", Type: "licence"},
		{Src: "doc/LICENSE", Dst: "/usr/share/licenses/app/LICENSE2", Type: "license"},
		{Src: "doc/README", Dst: "/usr/share/doc/app/README", Type: "readme"},
		{Src: "share/we[i]rd*.txt", Dst: "/opt/weird.txt"}, // meaningful with disable_globbing only
		{Src: "etc/conf.d/*.conf", Dst: "/etc/confslash/"},
		{Dst: "/var/log/app2.log", Type: "ghost", Mode: 0o600, Owner: "app"},
		{Src: "tree/sub", Dst: "/opt/sub", Type: "tree"},
		{Src: "etc/app.conf", Dst: "/etc/own.conf", HasInfo: true, Owner: "app"},
		{Src: "bin/app", Dst: "/usr/bin/sticky", Mode: 0o1755},
		{Src: "/abs/target", Dst: "/usr/lib/applink2", Type: "symlink", Owner: "app", Group: "grp"},
		{Src: "etc/app.conf", Dst: "/etc/expanded.conf", Type: "config|noreplace", Expand: true, Mode: 0o600, Owner: "app", Group: "grp", MTime: EntryMTime},
		{Dst: "/var/lib/expanded", Type: "dir", Expand: true, Mode: 0o2770, Owner: "app"},
		{Src: "etc/app.conf", Dst: "/etc/systemd/system/dev-disk-by\\x2dlabel-data.swap"},
		{Src: "/dev/disk/by\\x2dlabel/data", Dst: "/etc/back\\slash-link", Type: "symlink"},
		{Dst: "/var/lib/back\\slash dir", Type: "dir"},
		{Src: "mixed/*.conf", Dst: "/etc/mixed", Type: "config"},
		{Src: "mixed", Dst: "/etc/mixed2"},
		{Src: "mixed", Dst: "/etc/mixed3", Type: "tree"},
	}
	// on-disk symlinks with non-canonical targets (shipped literally), inserted into the quick alphabet
	links := []model.Entry{
		{Src: "links", Dst: "/opt/links", Type: "tree"},
		{Src: "links/{dot,plain,updown}", Dst: "/opt/linkglob"},
		{Src: "links/updown", Dst: "/opt/onelink"},
	}
	base = append(base[:c01NQuick-3], append(links, base[c01NQuick-3:]...)...)
	return base
}

// c01Fractional: entries whose times are not whole seconds.
func c01Fractional() []model.Entry {
	return []model.Entry{
		{Src: "frac/f75.txt", Dst: "/opt/frac/f75.txt"},
		{Src: "frac/f25.txt", Dst: "/opt/frac/f25.txt"},
		{Src: "frac/f999.txt", Dst: "/opt/frac/f999.txt"},
		{Src: "frac/f5.txt", Dst: "/opt/frac/f5.txt", Type: "config"},
		{Src: "frac", Dst: "/opt/fractree", Type: "tree"},
		{Src: "frac/*.txt", Dst: "/opt/fracglob"},
		{Src: "frac/l", Dst: "/opt/fraclink"},
		{Src: "etc/app.conf", Dst: "/opt/entrytime.conf", MTime: EntryMTime.Add(750 * time.Millisecond)},
		{Dst: "/opt/entrytime.d", Type: "dir", MTime: EntryMTime.Add(500 * time.Millisecond)},
		{Src: "/t", Dst: "/opt/entrytime.link", Type: "symlink", MTime: EntryMTime.Add(999 * time.Millisecond)},
		{Dst: "/opt/entrytime.ghost", Type: "ghost", MTime: EntryMTime.Add(600 * time.Millisecond)},
	}
}

const c01NQuick = 25

func c01Tagged() []model.Entry {
	var out []model.Entry
	for _, f := range Formats {
		out = append(out,
			model.Entry{Src: "etc/app.conf", Dst: "/etc/per-" + f + ".conf", Packager: f},
			model.Entry{Dst: "/var/lib/per-" + f, Type: "dir", Packager: f},
			model.Entry{Src: "/x", Dst: "/usr/lib/per-" + f, Type: "symlink", Packager: f})
	}
	return out
}

func init() {
	engine.Register(&engine.Prop{
		ID:    "C01",
		Level: "model_checking",
		Rule: "every content list of length <=2 over the entry-template alphabet (39 templates + 15 packager-tagged; thorough adds triples over the 20 simplest and pairs under two deviating settings at once) " +
			"x every <=1-deviation build setting (umask, mtime, disable_globbing, deb/rpm compression), each built for all five formats through Parse->Get->WithDefaults->Package; plus glob / directory / tree / file sources rebuilt after the source tree changed (file added, removed, rewritten with the same length, chmod, new mtime): the second package must reflect the changed tree; " +
			"payload decoded by harness-owned readers and compared entry by entry with the reference plan; non-trivial = at least one payload entry decoded; distinct = distinct (format, decoded logical tree)",
		Assumptions: []string{
			"reference planner model/plan.go states the documented denotation (incl. mode = explicit verbatim else lstat mode minus umask; mtime = entry mtime, else package mtime, else source mtime)",
			"symlink modes and directory mtimes are not compared (the statement does not fix them)",
			"zstd payloads are decoded with klauspost's decoder (same module as the writer); xz with xi2/xz; lzma with the xz CLI",
		},
		Setup:  setupTree,
		Decode: decodeInto[C01Case],
		Bounds: func(env *engine.Env) map[string]any {
			return map[string]any{"templates_quick": c01NQuick, "templates_thorough": len(c01Templates()), "tagged_templates": len(c01Tagged()), "settings": len(c01Settings()), "max_list_len": map[string]int{"quick": 2, "thorough": 3}, "formats": Formats}
		},
		Enumerate: func(env *engine.Env, yield func(any) bool) {
			ts := c01Templates()
			all := append(append([]model.Entry{}, ts...), c01Tagged()...)
			sets := c01Settings()
			// singletons under every setting
			for _, s := range sets {
				for _, e := range all {
					if !yield(C01Case{Setting: s, List: []model.Entry{e}}) {
						return
					}
				}
			}
			// the source tree changes between two builds of the same configuration
			muts := []struct {
				e    model.Entry
				muts []string
			}{
				{model.Entry{Src: "etc/conf.d/*.conf", Dst: "/etc/conf.d"}, []string{"add etc/conf.d/c.conf", "remove etc/conf.d/a.conf", "rewrite etc/conf.d/a.conf", "chmod etc/conf.d/b.conf", "retime etc/conf.d/a.conf"}},
				{model.Entry{Src: "etc/", Dst: "/cfg"}, []string{"add etc/new.conf", "add etc/conf/extra.conf", "remove etc/empty", "rewrite etc/app.conf", "chmod etc/app.conf"}},
				{model.Entry{Src: "tree", Dst: "/opt/tree", Type: "tree"}, []string{"add tree/sub/z", "remove tree/x", "rewrite tree/sub/y", "chmod tree/x", "retime tree/x"}},
				{model.Entry{Src: "etc/app.conf", Dst: "/etc/app.conf", Type: "config"}, []string{"rewrite etc/app.conf", "chmod etc/app.conf", "retime etc/app.conf"}},
				{model.Entry{Src: "etc/con*/*.conf", Dst: "/etc/app.d"}, []string{"add etc/conf/second.conf", "add etc/conf.d/zz.conf", "remove etc/conf/main.conf"}},
			}
			for _, m := range muts {
				for _, mu := range m.muts {
					for _, s := range []Setting{sets[0], {Name: "mtime=unset", MTime: "unset"}, {Name: "umask=077", Umask: 0o077}} {
						if !yield(C01Case{Setting: s, List: []model.Entry{m.e}, Mutate: mu}) {
							return
						}
					}
				}
			}
			// times that are not whole seconds - on disk, configured for the package, configured for an entry:
			// every format stores the whole second they fall in (never the next one)
			fr := c01Fractional()
			for _, s := range []Setting{sets[0], {Name: "mtime=unset", MTime: "unset"}, {Name: "mtime=F", MTime: "F"}, {Name: "mtime=G", MTime: "G"}} {
				for _, e := range fr {
					if !yield(C01Case{Setting: s, List: []model.Entry{e}}) {
						return
					}
				}
				if !yield(C01Case{Setting: s, List: fr}) {
					return
				}
			}
			// a relocatable rpm (rpm.prefixes) with entries at, below and beside the prefixes; the umask set to 0 in Go
			for _, l := range [][]model.Entry{
				{{Dst: "/opt/app", Type: "dir", Mode: 0o750, Owner: "app", Group: "grp"}, {Src: "bin/app", Dst: "/opt/app/bin/app"}},
				{{Src: "tree", Dst: "/opt/app", Type: "tree"}, {Dst: "/usr", Type: "dir"}, {Src: "etc/app.conf", Dst: "/usr/etc/app.conf", Type: "config"}},
				{{Src: "/t", Dst: "/opt/app", Type: "symlink"}, {Dst: "/opt/app2", Type: "dir"}},
			} {
				if !yield(C01Case{Setting: Setting{Name: "rpm.prefixes", RPMPrefixes: []string{"/opt/app", "/usr"}}, List: l}) {
					return
				}
			}
			for _, e := range []model.Entry{{Src: "share/ww.txt", Dst: "/opt/ww.txt"}, {Src: "tree", Dst: "/opt/tree", Type: "tree"}, {Src: "etc/", Dst: "/cfg"}, {Src: "bin/suid", Dst: "/usr/bin/suid"}, {Src: "etc/app.conf", Dst: "/etc/app.conf", Type: "config"}, {Dst: "/var/lib/app", Type: "dir"}} {
				if !yield(C01Case{Setting: Setting{Name: "umask=0 set in Go", GoUmask0: true}, List: []model.Entry{e}}) {
					return
				}
			}
			// the same documents in other YAML spellings: flow style with every string quoted, CRLF line ends, a byte order
			// mark with document markers, comments, timestamps with a zone offset
			for _, sp := range []string{"json", "crlf", "bom", "comments", "tz"} {
				for _, e := range all {
					if !yield(C01Case{Setting: sets[0], List: []model.Entry{e}, Spell: sp}) {
						return
					}
				}
				for _, s := range sets[1:] {
					if s.Only != "" && !env.Thorough() {
						continue
					}
					if !yield(C01Case{Setting: s, List: []model.Entry{all[0], all[2], all[4], all[5], all[6]}, Spell: sp}) {
						return
					}
				}
			}
			// the notations a number may be written in (a mode is usually written 0644 or 0o644)
			for _, sp := range []string{"0", "0o", "0x", "0b"} {
				for _, sc := range []struct {
					s Setting
					l []model.Entry
				}{
					{sets[0], []model.Entry{{Src: "bin/app", Dst: "/usr/bin/app", Mode: 0o755}, {Src: "etc/app.conf", Dst: "/etc/app.conf", Type: "config", Mode: 0o640, Owner: "app"}}},
					{sets[0], []model.Entry{{Src: "bin/app", Dst: "/usr/bin/suid", Mode: 0o4755}, {Dst: "/var/lib/app", Type: "dir", Mode: 0o2770}, {Dst: "/tmp/sticky", Type: "dir", Mode: 0o1777}}},
					{sets[0], []model.Entry{{Src: "tree", Dst: "/opt/tree", Type: "tree", Mode: 0o750}, {Src: "etc/empty", Dst: "/etc/seven", Mode: 0o7}, {Src: "etc/empty", Dst: "/etc/eight", Mode: 0o10}}},
					{Setting{Name: "umask=027", Umask: 0o027}, []model.Entry{{Src: "bin/app", Dst: "/usr/bin/app"}, {Src: "tree", Dst: "/opt/tree", Type: "tree"}}},
					{Setting{Name: "umask=077", Umask: 0o077}, []model.Entry{{Src: "bin/app", Dst: "/usr/bin/app", Mode: 0o755}, {Src: "etc/", Dst: "/cfg"}}},
				} {
					if !yield(C01Case{Setting: sc.s, List: sc.l, Spell: sp}) {
						return
					}
				}
			}
			// a umask that leaves no permission bit: files, configuration files and rpm-only kinds without a
			// declared mode are shipped with mode 0 (denoted is denoted), declared modes stay (directories are left out: for
			// them a mode of 0 reads as "not set" and the default applies, which the documentation does not settle)
			for _, um := range []os.FileMode{0o777, 0o677, 0o177} {
				l := []model.Entry{{Src: "bin/app", Dst: "/usr/bin/app"}, {Src: "etc/app.conf", Dst: "/etc/app.conf", Type: "config"}, {Src: "etc/conf.d/b.conf", Dst: "/etc/b.conf", Type: "config|noreplace"},
					{Src: "doc/README", Dst: "/usr/share/doc/app/README", Type: "readme"}, {Src: "doc/LICENSE", Dst: "/usr/share/licenses/app/LICENSE", Type: "license"},
					{Src: "share/ww.txt", Dst: "/opt/declared.txt", Mode: 0o640}}
				if !yield(C01Case{Setting: Setting{Name: fmt.Sprintf("umask=%04o", um), Umask: um}, List: l}) {
					return
				}
			}
			// times outside the usual years - before the epoch, exactly the epoch, beyond 2^31 and beyond 2^32 seconds - on
			// disk, configured for the package, configured for an entry. A format whose fields cannot hold such a time may
			// refuse to build; a package that is built states the time
			for _, y := range []string{"1960", "1970", "2040", "2110"} {
				yt := fixture.TimeOf["epochs/y"+y+".txt"]
				src := model.Entry{Src: "epochs/y" + y + ".txt", Dst: "/opt/epochs/on-disk.txt"}
				for _, sc := range []struct {
					s Setting
					l []model.Entry
				}{
					{Setting{Name: "mtime=unset", MTime: "unset"}, []model.Entry{src}},
					{Setting{Name: "mtime=unset", MTime: "unset"}, []model.Entry{{Src: "epochs", Dst: "/opt/epochs", Type: "tree"}}},
					{Setting{Name: "mtime=Y" + y, MTime: "Y" + y}, []model.Entry{{Src: "etc/app.conf", Dst: "/etc/app.conf", Type: "config"}, {Dst: "/var/lib/app", Type: "dir"}, {Src: "/t", Dst: "/usr/bin/l", Type: "symlink"}}},
					{sets[0], []model.Entry{{Src: "etc/app.conf", Dst: "/etc/app.conf", MTime: yt}}},
					{sets[0], []model.Entry{{Dst: "/var/lib/app", Type: "dir", MTime: yt}, {Src: "/t", Dst: "/usr/bin/l", Type: "symlink", MTime: yt}, {Dst: "/var/log/g", Type: "ghost", MTime: yt}}},
				} {
					if !yield(C01Case{Setting: sc.s, List: sc.l, MayFail: true}) {
						return
					}
				}
			}
			for _, y := range []string{"Y1969TZ", "Y2106TZ"} {
				st := Setting{Name: "mtime=" + y, MTime: y}
				for _, l := range [][]model.Entry{{{Src: "etc/app.conf", Dst: "/etc/app.conf", Type: "config"}, {Dst: "/var/lib/app", Type: "dir"}}, {{Src: "etc/app.conf", Dst: "/etc/app.conf", MTime: st.pkgMTime()}}} {
					if !yield(C01Case{Setting: st, List: l, MayFail: true}) {
						return
					}
				}
			}
			// file sizes on block, buffer and streaming-threshold boundaries, under every setting (compressors included)
			for _, s := range sets {
				var l []model.Entry
				for _, n := range fixture.BoundarySizes {
					e := model.Entry{Src: fmt.Sprintf("sizes/s%d.bin", n), Dst: fmt.Sprintf("/opt/sizes/s%d.bin", n)}
					l = append(l, e)
					if s.Only == "" || n >= 65535 {
						if !yield(C01Case{Setting: s, List: []model.Entry{e}}) {
							return
						}
					}
				}
				if !yield(C01Case{Setting: s, List: l}) {
					return
				}
				if !yield(C01Case{Setting: s, List: []model.Entry{{Src: "sizes", Dst: "/opt/sizetree", Type: "tree"}}}) {
					return
				}
			}
			// trees replicated onto system directories: a root file system image at "/", trees at directories of the
			// filesystem / logrotate packages, with and without owner, alone and next to other entries
			sysT := []model.Entry{
				{Src: "rootfs", Dst: "/", Type: "tree"},
				{Src: "rootfs", Dst: "/", Type: "tree", Owner: "app", Group: "grp"},
				{Src: "rootfs/etc", Dst: "/etc", Type: "tree", Owner: "app", Group: "grp"},
				{Src: "rootfs/etc", Dst: "/etc/", Type: "tree"},
				{Src: "rootfs/etc/logrotate.d", Dst: "/etc/logrotate.d", Type: "tree", Owner: "app", Group: "grp"},
				{Src: "rootfs/var/lib/logrotate", Dst: "/var/lib/logrotate", Type: "tree", Mode: 0o750},
				{Src: "rootfs/usr/share/licenses", Dst: "/usr/share/licenses", Type: "tree"},
				{Src: "rootfs/usr", Dst: "/usr", Type: "tree"},
				{Src: "rootfs/opt", Dst: "/opt", Type: "tree", Owner: "app"},
				{Src: "tree", Dst: "/usr/lib/.build-id", Type: "tree", Owner: "app"},
				{Src: "tree", Dst: "/usr/local/share/app", Type: "tree", Owner: "app"},
				{Src: "rootfs", Dst: "/srv/image", Type: "tree"},
			}
			for _, s := range []Setting{sets[0], {Name: "umask=077", Umask: 0o077}, {Name: "mtime=unset", MTime: "unset"}} {
				for _, e := range sysT {
					if !yield(C01Case{Setting: s, List: []model.Entry{e}}) {
						return
					}
					for _, o := range []model.Entry{{Src: "etc/app.conf", Dst: "/etc/other.conf", Type: "config"}, {Dst: "/var/lib/logrotate/extra", Type: "dir"}, {Src: "bin/app", Dst: "/usr/bin/app2"}} {
						if !yield(C01Case{Setting: s, List: []model.Entry{e, o}}) {
							return
						}
						if !yield(C01Case{Setting: s, List: []model.Entry{o, e}}) {
							return
						}
					}
				}
			}
			// names that start with dots at the top of the destination, and on-disk symbolic links as sources of entries
			// that declare an owner and a time of their own
			odd := []model.Entry{
				{Src: "etc/app.conf", Dst: "/.well-known/app.conf"},
				{Dst: "/.app", Type: "dir"},
				{Src: "tree", Dst: "/.opt/tree", Type: "tree"},
				{Src: "/t", Dst: "/.hidden-link", Type: "symlink"},
				{Src: "etc/app.conf", Dst: "/..data/x"},
				{Src: "etc/app.conf", Dst: "/.../x"},
				{Src: "etc/app.conf", Dst: "/./.dotted/x"},
				{Src: "etc/app.conf", Dst: "/etc/.hidden/.x.conf", Type: "config"},
				{Src: "etc/app.conf", Dst: "/.app/settings.conf", Type: "config|noreplace"},
				{Src: "etc/app.conf", Dst: ".rel-hidden/x"},
				{Dst: "/.ghost", Type: "ghost"},
				{Src: "link", Dst: "/opt/disklink-owned", Owner: "app", Group: "grp", MTime: EntryMTime},
				{Src: "link", Dst: "/etc/disklink.conf", Type: "config", Owner: "app", Group: "grp"},
				{Src: "links/plain", Dst: "/opt/plainlink-owned", Owner: "app", MTime: EntryMTime},
				{Src: "links/{dot,plain}", Dst: "/opt/linkglob-owned", Owner: "app", Group: "grp", MTime: EntryMTime},
				// directories declared at paths that distributions' base packages own (declared is declared)
				{Dst: "/var/log", Type: "dir", Mode: 0o750, Owner: "app", Group: "grp"},
				{Dst: "/etc", Type: "dir"},
				{Dst: "/usr/share", Type: "dir", Mode: 0o755},
				{Dst: "/usr/lib/.build-id", Type: "dir"},
				{Dst: "/etc/logrotate.d", Type: "dir", Owner: "app"},
				// names that are not plain text, picked up from disk
				{Src: "oddnames", Dst: "/opt/odd-tree", Type: "tree"},
				{Src: "oddnames/", Dst: "/opt/odd-dir"},
				{Src: "oddnames/*", Dst: "/opt/odd-glob"},
				{Src: "oddnames/c*", Dst: "/etc/odd-conf", Type: "config"},
				// two names of one file; a symbolic link to a directory as source
				{Src: "hardlinks", Dst: "/opt/hardlinks", Type: "tree"},
				{Src: "hardlinks/*.bin", Dst: "/opt/hardlinks-glob"},
				// (the link itself as source - no trailing slash, or as a tree - has no documented meaning: not judged)
				// trees with a declared mode that has read bits without the matching search bits: declared is declared,
				// for the directories of the tree as for its files
				{Src: "tree", Dst: "/opt/tree644", Type: "tree", Mode: 0o644},
				{Src: "tree", Dst: "/opt/tree600", Type: "tree", Mode: 0o600, Owner: "app"},
				{Src: "tree/sub", Dst: "/opt/tree640", Type: "tree", Mode: 0o640},
				// the special mode bits as they are on disk (no declared mode): through a tree, a directory, a glob, a file
				{Src: "modes", Dst: "/opt/modes", Type: "tree"},
				{Src: "modes/", Dst: "/opt/modes-dir"},
				{Src: "modes/*-file", Dst: "/opt/modes-glob"},
				{Src: "modes/sticky-file", Dst: "/opt/one-sticky-file"},
				{Src: "modes/all-file", Dst: "/etc/all-bits.conf", Type: "config"},
				{Src: "modes/sticky-dir", Dst: "/var/tmp/app", Type: "tree"},
				// the configuration-file flavours through a pattern, a directory and a tree
				{Src: "etc/conf.d/*.conf", Dst: "/etc/mo.d", Type: "config|missingok"},
				{Src: "etc/conf.d/", Dst: "/etc/nr.d", Type: "config|noreplace"},
				{Src: "etc/con*/*.conf", Dst: "/etc/mo2.d/", Type: "config|missingok", Owner: "app"},
				// an entry that opts into expansion and names a directory as destination (trailing slash)
				{Src: "bin/app", Dst: "/usr/libexec/app/", Expand: true},
				{Src: "etc/conf.d/*.conf", Dst: "/etc/expanded.d/", Expand: true, Type: "config"},
				// paths written with a blank at the end (expand off: shipped as written), a source named with blanks
				{Src: "share/ww.txt", Dst: "/opt/blank-end "},
				{Dst: "/var/lib/blank-dir ", Type: "dir"},
				{Src: "/t ", Dst: "/opt/blank-target-link", Type: "symlink"},
				{Src: "oddnames/trailing-blank ", Dst: "/opt/from-blank-source"},
				{Src: "etc/app.conf", Dst: "/etc/blank-end.conf ", Type: "config"},
			}
			for _, s := range []Setting{sets[0], {Name: "umask=077", Umask: 0o077}, {Name: "mtime=unset", MTime: "unset"}} {
				for _, e := range odd {
					if !yield(C01Case{Setting: s, List: []model.Entry{e}}) {
						return
					}
					if !yield(C01Case{Setting: s, List: []model.Entry{{Src: "bin/app", Dst: "/usr/bin/app"}, e}}) {
						return
					}
				}
				if !yield(C01Case{Setting: s, List: odd}) {
					return
				}
			}
			// sources written relative to the working directory (the directory itself, dot files, globs without a common directory)
			for _, sp := range []struct{ cwd, spelling, src, typ string }{
				{"dots", ".", "dots", "tree"}, {"dots", "./", "dots", "tree"}, {"dots/sub", "..", "dots", "tree"}, {"dots", ".config", "dots/.config", "tree"},
				{"dots", ".e*", "dots/.e*", ""}, {"dots", "./.e*", "dots/.e*", ""}, {"dots", "*nv", "dots/*nv", ""}, {"dots", ".*/settings", "dots/.*/settings", ""},
				{"dots", ".env", "dots/.env", ""}, {"dots", "..data", "dots/..data", "config"}, {"dots/sub", "../.env", "dots/.env", ""}, {"dots", ".config", "dots/.config", ""},
			} {
				for _, dst := range []string{"/opt/app", "/opt/app/"} {
					e := model.Entry{Src: sp.src, Dst: dst, Type: sp.typ}
					if !yield(C01Case{Setting: sets[0], List: []model.Entry{e}, Cwd: sp.cwd, Spelling: sp.spelling}) {
						return
					}
					if !yield(C01Case{Setting: Setting{Name: "mtime=unset", MTime: "unset"}, List: []model.Entry{e, {Src: "etc/app.conf", Dst: "/opt/app/other.conf"}}, Cwd: sp.cwd, Spelling: sp.spelling}) {
						return
					}
				}
			}
			// every one of the 4096 permission-bit patterns as an explicit mode, on files and on directories (chunks of 512)
			for chunk := 0; chunk < 8; chunk++ {
				var fl, dl []model.Entry
				for m := chunk * 512; m < (chunk+1)*512; m++ {
					if m == 0 {
						continue // mode 0 means "not set"
					}
					fl = append(fl, model.Entry{Src: "etc/empty", Dst: fmt.Sprintf("/modes/f%04o", m), Mode: os.FileMode(m)})
					dl = append(dl, model.Entry{Dst: fmt.Sprintf("/modes/d%04o", m), Type: "dir", Mode: os.FileMode(m)})
				}
				if !yield(C01Case{Setting: sets[0], List: fl}) {
					return
				}
				if !yield(C01Case{Setting: Setting{Name: "umask=077", Umask: 0o077}, List: dl}) {
					return
				}
			}
			// large inputs: files beyond every compressor window and block size (noise and an all-zero file),
			// a tree of thousands of files, a glob with hundreds of matches, thousands of explicit entries
			var explicitMany []model.Entry
			for d := 0; d < fixture.ManyDirs; d++ {
				for f := 0; f < fixture.ManyFiles; f++ {
					explicitMany = append(explicitMany, model.Entry{Src: fmt.Sprintf("many/d%02d/f%03d", d, f), Dst: fmt.Sprintf("/srv/m/%d-%d", f, d)})
				}
			}
			large := [][]model.Entry{
				{{Src: "huge/noise.bin", Dst: "/opt/huge/noise.bin"}},
				{{Src: "huge/zeros.bin", Dst: "/opt/huge/zeros.bin"}},
				{{Src: "huge", Dst: "/opt/huge", Type: "tree"}, {Src: "etc/app.conf", Dst: "/etc/after-huge.conf", Type: "config"}},
				{{Src: "many", Dst: "/opt/many", Type: "tree"}},
				{{Src: "many/*/f00?", Dst: "/opt/globbed"}},
				{{Src: "many/", Dst: "/opt/many-dir"}},
				explicitMany,
			}
			for _, s := range sets {
				if s.Only != "" && !env.Thorough() && s.Name != "deb.compression=zstd" && s.Name != "rpm.compression=xz" {
					continue
				}
				for _, l := range large {
					if !yield(C01Case{Setting: s, List: l}) {
						return
					}
				}
			}
			// pairs under every setting (compression settings: pairs of untagged templates only)
			for _, s := range sets {
				for i, a := range all {
					for j, b := range all {
						if i == j {
							continue
						}
						if s.Only != "" && (i >= len(ts) || j >= len(ts) || i > j) {
							continue
						}
						if !yield(C01Case{Setting: s, List: []model.Entry{a, b}}) {
							return
						}
					}
				}
			}
			if env.Thorough() {
				// two deviating settings at once
				for _, um := range []os.FileMode{0o022, 0o077} {
					for _, mt := range []string{"B", "unset"} {
						for _, ng := range []bool{false, true} {
							s2 := Setting{Name: fmt.Sprintf("umask=%o,mtime=%s,noglob=%v", um, mt, ng), Umask: um, MTime: mt, NoGlob: ng}
							for i, a := range ts {
								for j, b := range ts {
									if i < j {
										if !yield(C01Case{Setting: s2, List: []model.Entry{a, b}}) {
											return
										}
									}
								}
							}
						}
					}
				}
				small := ts[:20]
				for _, a := range small {
					for _, b := range small {
						for _, c := range small {
							if !yield(C01Case{Setting: sets[0], List: []model.Entry{a, b, c}}) {
								return
							}
						}
					}
				}
			}
		},
		Check: checkC01,
	})
}

// logicalEntry is the format-neutral form compared across formats.
func logicalKey(e *pkgread.Entry) string {
	switch e.Kind {
	case "file":
		return fmt.Sprintf("%s file %o %s:%s %s %d", e.Path, e.Mode, e.Owner, e.Group, e.SHA256, e.MTime)
	case "dir":
		return fmt.Sprintf("%s dir %o %s:%s", e.Path, e.Mode, e.Owner, e.Group)
	case "symlink":
		return fmt.Sprintf("%s symlink -> %s", e.Path, e.Link)
	}
	return e.Path + " " + e.Kind
}

func checkC01(env *engine.Env, ci any) engine.Outcome {
	c := ci.(C01Case)
	t := tree(env)
	var out engine.Outcome
	doc := c.Setting.doc(c.List, t.Root)
	if c.Cwd != "" {
		if l, ok := doc["contents"].([]any); ok && len(l) > 0 {
			if m, ok := l[0].(map[string]any); ok {
				m["src"] = c.Spelling
			}
		}
		old, werr := os.Getwd()
		if werr == nil {
			werr = os.Chdir(t.P(c.Cwd))
		}
		if werr != nil {
			out.HarnessError = werr.Error()
			return out
		}
		defer os.Chdir(old)
	}
	text := doc.YAML()
	if c.Spell != "" {
		respelt, rerr := respellText(text, c.Spell)
		if rerr != nil || respelt == text {
			out.HarnessError = fmt.Sprintf("spelling %s: %v / nothing to respell in:\n%s", c.Spell, rerr, text)
			return out
		}
		text = respelt
	}
	formats := Formats
	if c.Setting.Only != "" {
		formats = []string{c.Setting.Only}
	}
	var keys []string
	if c.Mutate != "" {
		// first build on the unchanged tree (all formats), then change the tree
		for _, f := range formats {
			buildYAML(text, f)
			out.Transitions++
		}
		kind, rel, _ := strings.Cut(c.Mutate, " ")
		undo, err := t.Mutate(kind, rel)
		if err != nil {
			out.HarnessError = "mutation: " + err.Error()
			return out
		}
		defer undo()
	}
	for _, f := range formats {
		out.Transitions++
		want := model.Plan(c.List, f, c.Setting.umask(), c.Setting.pkgMTime(), c.Setting.NoGlob, t)
		if want.Unclear != "" {
			continue
		}
		viol := func(sig, format string, a ...any) {
			out.Violations = append(out.Violations, engine.Violation{Sig: sig,
				Detail: fmt.Sprintf("format=%s setting=%s list=%s source-tree-change-before-this-build=%q\n", f, c.Setting.Name, descList(c.List), c.Mutate) + fmt.Sprintf(format, a...)})
		}
		data, err := buildYAML(text, f)
		if c.Setting.GoUmask0 {
			data, err = func() ([]byte, error) {
				cfg, perr := parseYAML(text, nil)
				if perr != nil {
					return nil, perr
				}
				info, gerr := safeGet(&cfg, f)
				if gerr != nil {
					return nil, gerr
				}
				info = nfpm.WithDefaults(info)
				info.Umask = 0
				p, _ := nfpm.Get(f)
				var buf bytes.Buffer
				if perr := p.Package(info, &buf); perr != nil {
					return nil, perr
				}
				return buf.Bytes(), nil
			}()
		}
		if want.Collision || want.OtherErr != "" {
			keys = append(keys, f+":rejected")
			if err == nil {
				viol("payload:invalid-accepted:"+f, "reference rejects the list (%s%s) but a package was built", want.Why, want.OtherErr)
			}
			continue
		}
		if err != nil && c.MayFail {
			keys = append(keys, f+":refused")
			continue
		}
		if err != nil {
			viol("payload:build-error:"+f+":"+kindsOf(c.List), "valid configuration, packaging failed: %v", err)
			continue
		}
		pkg, err := pkgread.Decode(f, data, env.Tools)
		if err != nil {
			if err == pkgread.ErrNoDecoder || strings.Contains(err.Error(), pkgread.ErrNoDecoder.Error()) {
				out.HarnessError = "no decoder for " + c.Setting.Name
				return out
			}
			viol("payload:undecodable:"+f, "package cannot be decoded: %v", err)
			continue
		}
		k := comparePayload(f, pkg, want, c.Setting.pkgMTime(), viol)
		keys = append(keys, f+":"+k)
		// the same settings built as a library user would build them in Go (a deep copy sharing nothing with the parsed
		// configuration, empty lists and maps written the other way round): the same package, byte for byte
		if len(c.List) == 1 && c.Mutate == "" && c.Spell == "" && !c.Setting.GoUmask0 && !strings.HasPrefix(c.List[0].Src, "huge") && !strings.HasPrefix(c.List[0].Src, "many") && !c.Setting.pkgMTime().IsZero() {
			cd, cerr := packageCloned(text, f, true)
			out.Transitions++
			if cerr != nil {
				viol("payload:settings-built-in-go:build-error:"+f, "packaging a deep copy of the effective settings failed: %v", cerr)
			} else if !bytes.Equal(cd, data) {
				viol("payload:settings-built-in-go:differs:"+f+":"+kindsOf(c.List), "the package from a deep copy of the effective settings (nil <-> empty flipped) differs from the package from the parsed configuration (%d vs %d bytes)", len(cd), len(data))
			}
		}
		if len(pkg.Entries) > 0 {
			out.Nontrivial = true
		}
	}
	sort.Strings(keys)
	out.Key = c.Mutate + "|" + strings.Join(keys, "|")
	return out
}

// comparePayload checks a decoded payload against the reference plan for format f.
func comparePayload(f string, pkg *pkgread.Pkg, want model.PlanResult, pkgMTime time.Time, viol func(sig, format string, a ...any)) string {
	wantBy := map[string]model.PEntry{}
	for _, w := range want.Entries {
		if f == "rpm" && w.Kind == "implicit dir" {
			continue
		}
		if w.Dst == "/" && (f == "rpm" || f == "apk" || f == "archlinux") {
			// the root directory itself has no name inside these archives (deb and ipk write it as ./); a member with
			// an empty name would be reported as an extra entry (fix d99543c)
			continue
		}
		key := strings.TrimRight(w.Dst, "/")
		if key == "" {
			key = "/"
		}
		wantBy[key] = w
	}
	var ks []string
	seen := map[string]bool{}
	for i := range pkg.Entries {
		g := &pkg.Entries[i]
		ks = append(ks, logicalKey(g))
		if seen[g.Path] {
			viol("payload:duplicate:"+f+":"+g.Kind, "payload holds %q twice", g.Path)
			continue
		}
		seen[g.Path] = true
		w, ok := wantBy[g.Path]
		if !ok {
			viol("payload:extra:"+f+":"+g.Kind, "payload holds %s %q which the configuration does not denote for %s", g.Kind, g.Path, f)
			continue
		}
		delete(wantBy, g.Path)
		tag := f + ":" + w.Kind + ":" + w.Origin
		switch w.Kind {
		case "dir", "implicit dir":
			if g.Kind != "dir" {
				viol("payload:kind:"+tag, "%q is shipped as %s, declared as directory", g.Path, g.Kind)
				continue
			}
			if os.FileMode(g.Mode) != w.Mode {
				viol("payload:mode:"+tag+":"+w.ModeFrom, "directory %q has mode %#o, expected %#o (%s)", g.Path, g.Mode, uint32(w.Mode), w.ModeFrom)
			}
			if g.Owner != w.Owner || g.Group != w.Group {
				viol("payload:owner:"+tag, "directory %q is owned by %q:%q, expected %q:%q", g.Path, g.Owner, g.Group, w.Owner, w.Group)
			}
		case "symlink":
			if g.Kind != "symlink" {
				viol("payload:kind:"+tag, "%q is shipped as %s, declared as symlink", g.Path, g.Kind)
				continue
			}
			if g.Link != w.Src {
				viol("payload:link-target:"+tag, "symlink %q points to %q, declared target %q", g.Path, g.Link, w.Src)
			}
		case "ghost":
			if !g.NoData {
				viol("payload:ghost-has-data:"+tag, "ghost %q has payload data", g.Path)
			}
			// what the entry declares about a file the package owns without shipping it is stated all the same
			if w.Mode != 0 && os.FileMode(g.Mode) != w.Mode {
				viol("payload:mode:"+tag+":ghost", "ghost %q has mode %#o, declared %#o", g.Path, g.Mode, uint32(w.Mode))
			}
			if g.Owner != w.Owner || g.Group != w.Group {
				viol("payload:owner:"+tag+":ghost", "ghost %q is owned by %q:%q, expected %q:%q", g.Path, g.Owner, g.Group, w.Owner, w.Group)
			}
			if !w.MTime.IsZero() && g.MTime != w.MTime.Unix() {
				viol("payload:mtime:"+tag+":ghost", "ghost %q has mtime %s, expected %s", g.Path, time.Unix(g.MTime, 0).UTC().Format(time.RFC3339), w.MTime.UTC().Format(time.RFC3339))
			}
		default:
			if g.Kind != "file" {
				viol("payload:kind:"+tag, "%q is shipped as %s, declared as regular file", g.Path, g.Kind)
				continue
			}
			if g.NoData {
				viol("payload:no-data:"+tag, "%q is listed but has no payload data", g.Path)
				continue
			}
			if g.SHA256 != w.SHA256 || g.Size != w.Size {
				viol("payload:bytes:"+tag, "%q: shipped %d bytes sha256 %s, source %q has %d bytes sha256 %s", g.Path, g.Size, trunc12(g.SHA256), w.Src, w.Size, trunc12(w.SHA256))
			}
			if os.FileMode(g.Mode) != w.Mode {
				cls := w.ModeFrom
				if w.Mode&0o7000 != 0 {
					cls += "-special-bits"
				}
				viol("payload:mode:"+tag+":"+cls, "%q has mode %#o, expected %#o (%s)", g.Path, g.Mode, uint32(w.Mode), w.ModeFrom)
			}
			if g.Owner != w.Owner || g.Group != w.Group {
				viol("payload:owner:"+tag, "%q is owned by %q:%q, expected %q:%q", g.Path, g.Owner, g.Group, w.Owner, w.Group)
			}
			if !w.MTime.IsZero() && g.MTime != w.MTime.Unix() {
				viol("payload:mtime:"+tag, "%q has mtime %s, expected %s", g.Path, time.Unix(g.MTime, 0).UTC().Format(time.RFC3339), w.MTime.UTC().Format(time.RFC3339))
			}
		}
	}
	var missing []string
	for p := range wantBy {
		missing = append(missing, p)
	}
	sort.Strings(missing)
	for _, p := range missing {
		w := wantBy[p]
		viol("payload:missing:"+f+":"+w.Kind+":"+w.Origin, "configuration denotes %s %q for %s, payload lacks it (payload: %s)", w.Kind, p, f, strings.Join(pkg.SortedPaths(), " "))
	}
	sort.Strings(ks)
	return strings.Join(ks, ";")
}

func trunc12(s string) string {
	if len(s) > 12 {
		return s[:12]
	}
	return s
}
