package props

import (
	"bytes"
	"fmt"
	"os"
	"path/filepath"
	"regexp"
	"strconv"
	"strings"
	"time"

	"verif/mc/engine"
	"verif/mc/fixture"
	"verif/mc/model"
	"verif/mc/pkgread"

	"github.com/goreleaser/nfpm/v2"
)

// C02Case is one metadata configuration built for one format.
type C02Case struct {
	Part   string        `json:"part"`
	Format string        `json:"format"`
	Cfg    model.MetaCfg `json:"cfg"`
	// Spell: the YAML spelling the document is written in (see respellText; "" = as rendered)
	Spell string `json:"spelling,omitempty"`
}

func baseMeta() model.MetaCfg {
	return model.MetaCfg{Name: "pkg", Arch: "amd64", Version: "1.2.3", Maintainer: "Jane Roe <jane@example.com>", Description: "A test package"}
}

// metaDoc renders the configuration for one format (relations in that format's syntax).
func metaDoc(c model.MetaCfg, format string, t *fixture.Tree) fixture.Doc {
	d := fixture.Doc{"name": c.Name, "arch": c.Arch, "version": c.Version, "mtime": PkgMTime}
	set := func(k, v string) {
		if v != "" {
			d[k] = v
		}
	}
	set("platform", c.Platform)
	set("epoch", c.Epoch)
	set("release", c.Release)
	set("prerelease", c.Prerelease)
	set("version_metadata", c.Metadata)
	set("version_schema", c.Schema)
	set("section", c.Section)
	set("priority", c.Priority)
	set("maintainer", c.Maintainer)
	set("description", c.Description)
	set("vendor", c.Vendor)
	set("homepage", c.Homepage)
	set("license", c.License)
	blocks := map[string]map[string]any{"rpm": {"buildhost": "buildhost.example"}, "deb": {}, "apk": {}, "archlinux": {}, "ipk": {}}
	if c.FormatArch != "" && !c.ArchInOverride {
		blocks[format]["arch"] = c.FormatArch
	}
	if c.FormatArch != "" && c.ArchInOverride {
		d["overrides"] = map[string]any{format: map[string]any{format: map[string]any{"arch": c.FormatArch}}}
	}
	for kind, items := range c.Rel {
		var l []any
		for _, it := range items {
			// deb.breaks is not among the lists documented as environment-expanded
			if c.RelBlanks && kind != "breaks" && (len(l) == 0 || len(l) == 2) {
				l = append(l, "${NFPM_VERIF_UNSET}")
			}
			l = append(l, model.RenderRel(format, it))
		}
		if c.RelInOverride {
			ov, _ := d["overrides"].(map[string]any)
			if ov == nil {
				ov = map[string]any{format: map[string]any{}}
				d["overrides"] = ov
			}
			fo := ov[format].(map[string]any)
			sub := func(name string) map[string]any {
				m, _ := fo[name].(map[string]any)
				if m == nil {
					m = map[string]any{}
					fo[name] = m
				}
				return m
			}
			decoy := []any{"decoy-" + kind}
			switch kind {
			case "predepends":
				sub("deb")["predepends"] = l
				sub("ipk")["predepends"] = l
				blocks["deb"]["predepends"], blocks["ipk"]["predepends"] = decoy, decoy
			case "breaks":
				sub("deb")["breaks"] = l
				blocks["deb"]["breaks"] = decoy
			default:
				fo[kind] = l
				d[kind] = decoy
			}
			continue
		}
		switch kind {
		case "predepends":
			blocks["deb"]["predepends"] = l
			blocks["ipk"]["predepends"] = l
		case "breaks":
			blocks["deb"]["breaks"] = l
		default:
			d[kind] = l
		}
	}
	if c.RPMBuildHost != "" {
		blocks["rpm"]["buildhost"] = c.RPMBuildHost
	}
	if c.RPMGroup != "" {
		blocks["rpm"]["group"] = c.RPMGroup
	}
	if c.RPMSummary != "" {
		blocks["rpm"]["summary"] = c.RPMSummary
	}
	if c.RPMPackager != "" {
		blocks["rpm"]["packager"] = c.RPMPackager
	}
	if len(c.RPMPrefixes) > 0 {
		blocks["rpm"]["prefixes"] = c.RPMPrefixes
	}
	if c.ArchPkgbase != "" {
		blocks["archlinux"]["pkgbase"] = c.ArchPkgbase
	}
	if c.ArchPackager != "" {
		blocks["archlinux"]["packager"] = c.ArchPackager
	}
	if c.IPKABI != "" {
		blocks["ipk"]["abi_version"] = c.IPKABI
	}
	if len(c.IPKAlts) > 0 {
		var l []any
		for _, a := range c.IPKAlts {
			l = append(l, map[string]any{"priority": a.Priority, "target": a.Target, "link_name": a.LinkName})
		}
		blocks["ipk"]["alternatives"] = l
	}
	if len(c.IPKTags) > 0 {
		blocks["ipk"]["tags"] = c.IPKTags
	}
	if c.IPKEssential {
		blocks["ipk"]["essential"] = true
	}
	if c.IPKAuto {
		blocks["ipk"]["auto_installed"] = true
	}
	if len(c.IPKFields) > 0 {
		blocks["ipk"]["fields"] = c.IPKFields
	}
	if len(c.DebFields) > 0 {
		blocks["deb"]["fields"] = c.DebFields
	}
	if len(c.DebTriggers) > 0 {
		blocks["deb"]["triggers"] = c.DebTriggers
	}
	for k, b := range blocks {
		if len(b) > 0 {
			d[k] = b
		}
	}
	if c.UnrelatedOverride {
		ov, _ := d["overrides"].(map[string]any)
		if ov == nil {
			ov = map[string]any{}
			d["overrides"] = ov
		}
		fo, _ := ov[format].(map[string]any)
		if fo == nil {
			fo = map[string]any{}
			ov[format] = fo
		}
		fo["umask"] = 0o022
	}
	if c.Changelog {
		d["changelog"] = filepath.Join(t.Root, "changelog.yaml")
		if c.ChangelogFile != "" {
			d["changelog"] = filepath.Join(t.Root, c.ChangelogFile)
		}
	}
	return d
}

var c02Fresh int

var docArchRe = regexp.MustCompile("^\\|\\s*`([^`]+)`\\s*\\|\\s*`([^`]+)`\\s*\\|")

// docArchTable parses www/docs/goarch-to-pkg.md of the tree under test.
func docArchTable(repo string) (model.ArchTable, error) {
	b, err := os.ReadFile(filepath.Join(repo, "www/docs/goarch-to-pkg.md"))
	if err != nil {
		return nil, err
	}
	tab := model.ArchTable{}
	cur := ""
	for _, l := range strings.Split(string(b), "\n") {
		if strings.HasPrefix(l, "## ") {
			cur = strings.Trim(strings.TrimPrefix(l, "## "), "` ")
			tab[cur] = map[string]string{}
			continue
		}
		if m := docArchRe.FindStringSubmatch(l); m != nil && cur != "" {
			tab[cur][m[1]] = m[2]
		}
	}
	if len(tab) == 0 {
		return nil, fmt.Errorf("no architecture tables found in goarch-to-pkg.md")
	}
	return tab, nil
}

var c02Arches = []string{"amd64", "armv7", "x86_64_v3", "all", "386", "arm5", "arm6", "arm7", "arm64", "mips", "mipsle", "mips64le", "ppc64le", "s390", "mipssoftfloat", "mipslehardfloat", "riscv64", "loong64"}

var c02Values = []string{"plain", "Ünï cödé ✓", "p:u=n#c t%s"}

func relItems(kind string, variant string) []model.RelItem {
	p := kind[:3]
	switch variant {
	case "plain":
		return []model.RelItem{{Name: p + "1"}, {Name: p + "2"}, {Name: p + "3"}}
	case "versioned":
		return []model.RelItem{{Name: p + "1", Op: ">=", Ver: "1.0"}, {Name: p + "2"}, {Name: p + "3", Op: "<", Ver: "2.0-1"}, {Name: p + "4", Op: "=", Ver: "3"}}
	case "twice":
		return []model.RelItem{{Name: p + "1", Op: ">=", Ver: "1.2"}, {Name: p + "1", Op: "<", Ver: "2.0"}, {Name: p + "2"}}
	case "ops":
		// every relational operator
		return []model.RelItem{{Name: p + "1", Op: "<=", Ver: "1.0"}, {Name: p + "2", Op: ">", Ver: "3.0"}, {Name: p + "3", Op: "<", Ver: "2"}, {Name: p + "4", Op: ">=", Ver: "0.9~rc1"}, {Name: p + "5", Op: "=", Ver: "1:2.0-3"}}
	case "rpmcaps":
		// rpm capability names: parentheses are part of the name (emitted for rpm only)
		return []model.RelItem{{Name: "perl(Foo::Bar)"}, {Name: "pkgconfig(zlib)", Op: ">=", Ver: "1.2"}, {Name: "libc.so.6()(64bit)"}, {Name: "/bin/sh"}, {Name: "config(" + p + ")", Op: "=", Ver: "1.0-1"}}
	case "dup":
		// one item written twice: stated twice
		return []model.RelItem{{Name: p + "1"}, {Name: p + "1"}, {Name: p + "2", Op: ">=", Ver: "1.0"}, {Name: p + "2", Op: ">=", Ver: "1.0"}}
	case "ownname":
		// names that begin with the name of the package itself (the package is called pkg)
		return []model.RelItem{{Name: "pkg-" + p}, {Name: "pkg" + p, Op: "=", Ver: "2.1"}, {Name: "pkgx" + p}, {Name: p + "-pkg"}}
	case "single":
		return []model.RelItem{{Name: p + "-only"}}
	case "many":
		// thousands of items: the list is longer than any line or block buffer
		var l []model.RelItem
		for i := 0; i < 6000; i++ {
			it := model.RelItem{Name: fmt.Sprintf("%s-lib%05d", p, i)}
			if i%3 == 0 {
				it.Op, it.Ver = ">=", fmt.Sprintf("1.%d", i)
			}
			l = append(l, it)
		}
		return l
	}
	return nil
}

func c02Descriptions() []string {
	return []string{
		"One line",
		"Ends with a period.\nThe body ends with one too.",
		"Synopsis line\nsecond line",
		"Synopsis\n\nafter a blank line\nlast",
		"Trailing newline\nbody\n",
		"Ünïcödé synopsis ✓\nzwöte Zeile",
		"Synopsis\nDepends: looks-like-a-field\n indented continuation",
		"  padded synopsis  \n  padded body  ",
		"Synopsis\n   \nafter a line of blanks",
		"Synopsis\n\t\nafter a line holding a tab",
		"Synopsis\r\nbody with CRLF line ends\r\n\r\nlast\r\n",
		"Synopsis  with   runs of blanks\tand a tab\u00a0and a no-break space",
		// lines beyond the 64 KiB a line reader holds by default, the first
		// and a later one
		"Synopsis\n" + strings.Repeat("x", 70000) + "\nlast line",
		strings.Repeat("y", 70000),
		"Synopsis\n" + strings.Repeat("word ", 40000) + "\n\nlast line",
	}
}

func setupC02(env *engine.Env) error {
	if err := setupTree(env); err != nil {
		return err
	}
	tab, err := docArchTable(env.Repo)
	if err != nil {
		return err
	}
	env.Data["archtab"] = tab
	return nil
}

func init() {
	engine.Register(&engine.Prop{
		ID:    "C02",
		Level: "model_checking",
		Rule: "(a) every GOARCH value of the documentation (+2 undocumented passthrough values, + mips float variants) x 5 formats x {no override, <format>.arch override}; (b) all 2*3*2*2*2*2 combinations of epoch/prerelease/metadata/release/schema/'v' prefix; " +
			"(c) every <=1 (thorough <=2) deviation over the scalar fields with values {ASCII, Unicode, punctuation}; (d) description shapes; (e) relation lists: every single kind and every pair of the 8 kinds x {plain, versioned, same-name-twice}, and all 8 at once; (f) format extras one at a time and all together; non-linux platform; " +
			"each built for real (fresh, again via ConventionalFileName-then-Package on one Info, and again after a differently named and versioned package using the same files was built in the same process) and the control metadata parsed by harness parsers (+dpkg-deb -f); non-trivial = metadata decoded; distinct = distinct (format, decoded metadata)",
		Assumptions: []string{
			"the architecture table is parsed from www/docs/goarch-to-pkg.md of the tree under test; ipk has no documented table: only override and pass-through are judged there",
			"version syntax per format as transcribed in model/meta.go (deb/ipk [e:]v[~pre][+meta][-rel]; rpm v[~pre_][+meta] + Release + Epoch tag; apk v[_pre][-rN][-pmeta]; archlinux [e:]v+pre-pkgrel)",
			"scalar fields without a slot in a format are not judged there; relation kinds without a slot must not surface under another relation",
		},
		Setup:  setupC02,
		Decode: decodeInto[C02Case],
		Bounds: func(env *engine.Env) map[string]any {
			return map[string]any{"arches": c02Arches, "values": c02Values, "relation_kinds": model.RelKinds, "formats": Formats}
		},
		Enumerate: enumC02,
		Check:     checkC02,
	})
}

type scalarField struct {
	name string
	set  func(c *model.MetaCfg, v string)
}

var c02Scalars = []scalarField{
	{"maintainer", func(c *model.MetaCfg, v string) { c.Maintainer = v + " <m@example.com>" }},
	{"vendor", func(c *model.MetaCfg, v string) { c.Vendor = v }},
	{"homepage", func(c *model.MetaCfg, v string) {
		c.Homepage = "https://example.com/" + strings.ReplaceAll(v, " ", "_")
	}},
	{"license", func(c *model.MetaCfg, v string) { c.License = v }},
	{"section", func(c *model.MetaCfg, v string) { c.Section = v }},
	{"priority", func(c *model.MetaCfg, v string) { c.Priority = v }},
	{"rpm.group", func(c *model.MetaCfg, v string) { c.RPMGroup = v }},
	{"rpm.summary", func(c *model.MetaCfg, v string) { c.RPMSummary = v }},
	{"rpm.packager", func(c *model.MetaCfg, v string) { c.RPMPackager = v }},
	{"rpm.buildhost", func(c *model.MetaCfg, v string) { c.RPMBuildHost = strings.ReplaceAll(v, " ", "-") + ".ci.example.org" }},
	{"archlinux.pkgbase", func(c *model.MetaCfg, v string) { c.ArchPkgbase = v }},
	{"archlinux.packager", func(c *model.MetaCfg, v string) { c.ArchPackager = v }},
	{"ipk.abi_version", func(c *model.MetaCfg, v string) { c.IPKABI = v }},
	{"name", func(c *model.MetaCfg, v string) {
		if v == "plain" {
			c.Name = "my-pkg.name+x_1"
		}
	}},
	// maintainers written the ways a mail header allows: a quoted display name with a comma, a comment and doubled
	// blanks, an encoded word (all stated as configured)
	{"maintainer-form", func(c *model.MetaCfg, v string) {
		switch v {
		case "plain":
			c.Maintainer = `"ACME, Inc." <packages@acme.example>`
		case c02Values[1]:
			c.Maintainer = "Jane  Roe (packaging team) <jane@example.com>"
		default:
			c.Maintainer = "=?utf-8?q?J=C3=B6rg?= <joerg@example.com>"
		}
	}},
	{"maintainer-unset", func(c *model.MetaCfg, v string) {
		if v == "plain" {
			c.Maintainer = ""
		}
	}},
}

func enumC02(env *engine.Env, yield func(any) bool) {
	// parts whose documents are also written in other YAML spellings (flow style with quoted strings and escapes,
	// CRLF line ends, byte order mark and document markers, comments)
	spelt := map[string]bool{"description": true, "description-rel8": true, "description-scalar": true, "rel8": true, "extra": true, "extras-all": true, "rel8-override": true, "version": true}
	emit := func(part string, c model.MetaCfg) bool {
		for _, f := range Formats {
			if !yield(C02Case{Part: part, Format: f, Cfg: c}) {
				return false
			}
		}
		if spelt[part] || strings.HasPrefix(part, "scalar:") {
			if len(c.Description) > 60000 {
				return true
			}
			for _, sp := range []string{"json", "crlf", "bom", "comments"} {
				if part == "version" && sp != "json" {
					continue
				}
				for _, f := range Formats {
					if !yield(C02Case{Part: part, Format: f, Cfg: c, Spell: sp}) {
						return false
					}
				}
			}
		}
		return true
	}
	// (a) architectures
	for _, a := range c02Arches {
		c := baseMeta()
		c.Arch = a
		if !emit("arch", c) {
			return
		}
		c.FormatArch = "customarch"
		if !emit("arch-override", c) {
			return
		}
	}
	// the format-specific override is taken verbatim, also when it looks like a GOARCH value the table would translate
	for _, ov := range []string{"amd64", "386", "arm7", "arm6", "all", "mipsle", "x86_64", "noarch", "ARM64"} {
		c := baseMeta()
		c.Arch, c.FormatArch = "arm64", ov
		if !emit("arch-override", c) {
			return
		}
	}
	// (b0) a release of zero (stated is stated: -0 / r0 / Release 0)
	for _, epoch := range []string{"", "2"} {
		for _, pre := range []string{"", "beta1"} {
			c := baseMeta()
			c.Epoch, c.Prerelease, c.Release = epoch, pre, "0"
			if !emit("version", c) {
				return
			}
		}
	}
	// (b) version components
	for _, v := range []string{"1.2.3", "v1.2.3"} {
		for _, epoch := range []string{"", "2"} {
			for _, pre := range []string{"", "beta1", "rc-2"} {
				for _, meta := range []string{"", "git", "20240131.git1a2b3c", "git-abc123", "p7", "nosvn", "xhg", "cvs2"} {
					for _, rel := range []string{"", "3"} {
						for _, schema := range []string{"", "none"} {
							c := baseMeta()
							c.Version, c.Epoch, c.Prerelease, c.Metadata, c.Release, c.Schema = v, epoch, pre, meta, rel, schema
							if !emit("version", c) {
								return
							}
						}
					}
				}
			}
		}
	}
	for _, v := range []string{"1.2.3-rc1+build.5", "v2", "1.2", "1.2.3.4", "2024.01.02", "1.0.0-0.3.7"} {
		c := baseMeta()
		c.Version = v
		if !emit("version-embedded", c) {
			return
		}
	}
	// components partly inside the version string, partly configured: configured ones win, the others are kept
	for _, v := range []string{"1.2.3+git5", "1.2.3-beta1", "1.2.3-rc1+build.5", "v1.2.3-beta1", "v1.2+m1", "3-pre"} {
		for _, pre := range []string{"", "alpha2"} {
			for _, meta := range []string{"", "git9"} {
				for _, schema := range []string{"", "none"} {
					if pre == "" && meta == "" {
						continue
					}
					c := baseMeta()
					c.Version, c.Prerelease, c.Metadata, c.Schema, c.Release = v, pre, meta, schema, "2"
					if !emit("version-mixed", c) {
						return
					}
				}
			}
		}
	}
	// (c) scalar deviations
	for _, sf := range c02Scalars {
		for _, v := range c02Values {
			c := baseMeta()
			sf.set(&c, v)
			if !emit("scalar:"+sf.name, c) {
				return
			}
		}
	}
	if env.Thorough() {
		for i, a := range c02Scalars {
			for _, b := range c02Scalars[i+1:] {
				for _, va := range c02Values {
					for _, vb := range c02Values {
						c := baseMeta()
						a.set(&c, va)
						b.set(&c, vb)
						if !emit("scalar2", c) {
							return
						}
					}
				}
			}
		}
	}
	// (d) descriptions
	for _, dsc := range c02Descriptions() {
		c := baseMeta()
		c.Description = dsc
		if !emit("description", c) {
			return
		}
	}
	c := baseMeta()
	c.Description = ""
	if !emit("description-unset", c) {
		return
	}
	// (e) relations
	for _, k := range model.RelKinds {
		c := baseMeta()
		c.Rel = map[string][]model.RelItem{k: relItems(k, "many")}
		if !emit("rel1-many", c) {
			return
		}
	}
	{
		c := baseMeta()
		c.Rel = map[string][]model.RelItem{}
		for _, k := range model.RelKinds {
			c.Rel[k] = relItems(k, "many")
		}
		if !emit("rel8-many", c) {
			return
		}
	}
	for _, k := range model.RelKinds {
		c := baseMeta()
		c.Rel = map[string][]model.RelItem{k: relItems(k, "rpmcaps")}
		if !yield(C02Case{Part: "rel1-rpmcaps", Format: "rpm", Cfg: c}) {
			return
		}
	}
	for _, k := range model.RelKinds {
		// one item written twice: stated twice (an rpm header holds a relation once: the rpm writer keeps one of two
		// identical entries, so rpm is not asked)
		c := baseMeta()
		c.Rel = map[string][]model.RelItem{k: relItems(k, "dup")}
		for _, f := range Formats {
			if f != "rpm" {
				if !yield(C02Case{Part: "rel1-dup", Format: f, Cfg: c}) {
					return
				}
			}
		}
	}
	for _, variant := range []string{"plain", "versioned", "twice", "single", "ownname", "ops"} {
		for i, k1 := range model.RelKinds {
			c := baseMeta()
			c.Rel = map[string][]model.RelItem{k1: relItems(k1, variant)}
			if !emit("rel1", c) {
				return
			}
			if variant == "single" || variant == "ownname" {
				continue
			}
			for _, k2 := range model.RelKinds[i+1:] {
				c := baseMeta()
				c.Rel = map[string][]model.RelItem{k1: relItems(k1, variant), k2: relItems(k2, variant)}
				if !emit("rel2", c) {
					return
				}
			}
		}
		c := baseMeta()
		c.Rel = map[string][]model.RelItem{}
		for _, k := range model.RelKinds {
			c.Rel[k] = relItems(k, variant)
		}
		if !emit("rel8", c) {
			return
		}
		// the same lists in the base settings while the format has an override block that sets something unrelated
		c.UnrelatedOverride = true
		if !emit("rel8-unrelated-override", c) {
			return
		}
		c.UnrelatedOverride = false
		// the same lists configured in the override block of the format (decoys in the base settings)
		c.RelInOverride = true
		if !emit("rel8-override", c) {
			return
		}
		c.RelInOverride = false
		for _, k := range model.RelKinds {
			c1 := baseMeta()
			c1.RelInOverride = true
			c1.Rel = map[string][]model.RelItem{k: relItems(k, variant)}
			if !emit("rel1-override", c1) {
				return
			}
		}
		if variant == "versioned" || variant == "plain" {
			// the same lists written with items that expand to nothing in between: what remains, in order
			c.RelBlanks = true
			if !emit("rel8-blanks", c) {
				return
			}
			for _, k := range model.RelKinds {
				c1 := baseMeta()
				c1.RelBlanks = true
				c1.Rel = map[string][]model.RelItem{k: relItems(k, variant)}
				if !emit("rel1-blanks", c1) {
					return
				}
			}
		}
	}
	// (f) extras
	extras := []func(c *model.MetaCfg){
		func(c *model.MetaCfg) { c.RPMPrefixes = []string{"/usr", "/opt/app"} },
		func(c *model.MetaCfg) {
			c.IPKAlts = []model.IPKAlt{{Priority: 10, Target: "/usr/bin/app", LinkName: "/usr/bin/a"}, {Priority: 20, Target: "/usr/bin/app2", LinkName: "/usr/bin/b"}}
		},
		// the lowest priority there is, a negative one, one link name offered twice
		func(c *model.MetaCfg) {
			c.IPKAlts = []model.IPKAlt{{Priority: 0, Target: "/usr/bin/app", LinkName: "/usr/bin/zero"}, {Priority: 100, Target: "/usr/bin/app2", LinkName: "/usr/bin/zero"}, {Priority: 1, Target: "/usr/bin/app", LinkName: "/usr/bin/one"}}
		},
		func(c *model.MetaCfg) { c.IPKTags = []string{"tag1", "tag2"} },
		func(c *model.MetaCfg) { c.IPKEssential = true },
		func(c *model.MetaCfg) { c.IPKAuto = true },
		func(c *model.MetaCfg) {
			c.IPKFields = map[string]string{"Source": "https://src.example", "X-Custom": "custom value", "Version": "9.9.9", "depends": "sneaky"}
		},
		func(c *model.MetaCfg) {
			c.DebFields = map[string]string{"Bugs": "https://bugs.example", "X-Custom": "custom value", "Empty": ""}
		},
		func(c *model.MetaCfg) {
			// keys a control file may carry which the template itself never writes
			c.DebFields = map[string]string{"Essential": "yes", "Vendor": "ACME", "Tags": "role::program", "Source": "src-pkg", "Built-Using": "gcc (= 12)", "Multi-Arch": "foreign", "Origin": "acme", "Enhances": "other"}
		},
		func(c *model.MetaCfg) {
			c.DebTriggers = map[string][]string{"interest": {"trig-a", "trig-b"}, "interest_await": {"trig-c"}, "interest_noawait": {"trig-d"}, "activate": {"trig-e"}, "activate_await": {"trig-f"}, "activate_noawait": {"trig-g"}}
		},
		func(c *model.MetaCfg) {
			// field names that are not in "canonical header" form: written as configured
			c.IPKFields = map[string]string{"SourceName": "src", "OE": "core", "X-Git-SHA": "0123abc", "lowercase-field": "v", "MiXed-CaSe": "w"}
			c.DebFields = map[string]string{"SourceName": "src", "OE": "core", "X-Git-SHA": "0123abc", "lowercase-field": "v", "MiXed-CaSe": "w"}
		},
		func(c *model.MetaCfg) {
			// one name under several directives, a name twice under one
			c.DebTriggers = map[string][]string{"interest": {"trig-a", "trig-shared"}, "interest_noawait": {"trig-shared2"}, "activate": {"trig-shared", "trig-b"}, "activate_noawait": {"trig-shared2", "trig-shared"}}
		},
		func(c *model.MetaCfg) { c.Changelog = true },
		func(c *model.MetaCfg) { c.Changelog, c.ChangelogFile = true, "changelog-unordered.yaml" },
		func(c *model.MetaCfg) { c.Platform = "darwin" },
		func(c *model.MetaCfg) { c.Platform = "freebsd"; c.FormatArch = "customarch" },
	}
	for _, ex := range extras {
		c := baseMeta()
		ex(&c)
		if !emit("extra", c) {
			return
		}
	}
	// every architecture on a non-linux platform (deb, rpm and ipk take one), with and without the format override
	for _, a := range c02Arches {
		for _, plat := range []string{"darwin", "freebsd"} {
			c := baseMeta()
			c.Arch, c.Platform = a, plat
			for _, f := range []string{"deb", "rpm", "ipk"} {
				if !yield(C02Case{Part: "arch-platform", Format: f, Cfg: c}) {
					return
				}
				co := c
				co.FormatArch = "customarch"
				if !yield(C02Case{Part: "arch-platform", Format: f, Cfg: co}) {
					return
				}
			}
		}
	}
	if env.Thorough() {
		// every pair of extras together
		for i, a := range extras[:13] {
			for _, b := range extras[i+1 : 13] {
				c := baseMeta()
				a(&c)
				b(&c)
				if !emit("extras2", c) {
					return
				}
			}
		}
		// relation lists with blank-expanding items: every pair of kinds
		for _, variant := range []string{"plain", "versioned", "twice"} {
			for i, k1 := range model.RelKinds {
				for _, k2 := range model.RelKinds[i+1:] {
					c := baseMeta()
					c.RelBlanks = true
					c.Rel = map[string][]model.RelItem{k1: relItems(k1, variant), k2: relItems(k2, variant)}
					if !emit("rel2-blanks", c) {
						return
					}
				}
			}
		}
		// every description shape with every scalar deviation and with all relations
		for _, dsc := range c02Descriptions() {
			for _, sf := range c02Scalars {
				c := baseMeta()
				c.Description = dsc
				sf.set(&c, c02Values[1])
				if !emit("description-scalar", c) {
					return
				}
			}
			c := baseMeta()
			c.Description = dsc
			c.Rel = map[string][]model.RelItem{}
			for _, k := range model.RelKinds {
				c.Rel[k] = relItems(k, "versioned")
			}
			if !emit("description-rel8", c) {
				return
			}
		}
	}
	call := baseMeta()
	for _, ex := range extras[:10] {
		ex(&call)
	}
	if !emit("extras-all", call) {
		return
	}
	call.UnrelatedOverride = true
	if !emit("extras-all-unrelated-override", call) {
		return
	}
}

func checkC02(env *engine.Env, ci any) engine.Outcome {
	c := ci.(C02Case)
	t := tree(env)
	tab := env.Data["archtab"].(model.ArchTable)
	var out engine.Outcome
	f := c.Format
	text := metaDoc(c.Cfg, f, t).YAML()
	if c.Spell != "" {
		respelt, rerr := respellText(text, c.Spell)
		if rerr != nil || respelt == text {
			out.HarnessError = fmt.Sprintf("spelling %s: %v / nothing to respell in:\n%s", c.Spell, rerr, text)
			return out
		}
		text = respelt
	}
	platformOK := c.Cfg.Platform == "" || c.Cfg.Platform == "linux" || f == "deb" || f == "rpm" || f == "ipk"
	var keys []string
	judge := func(stage string, data []byte, err error) {
		out.Transitions++
		viol := func(sig, format string, a ...any) {
			if stage != "" {
				sig += ":" + stage
			}
			out.Violations = append(out.Violations, engine.Violation{Sig: sig,
				Detail: fmt.Sprintf("format=%s part=%s stage=%q config:\n%s\n", f, c.Part, stage, text) + fmt.Sprintf(format, a...)})
		}
		if err != nil {
			if !platformOK {
				keys = append(keys, "platform-rejected")
				return
			}
			viol("meta:build-error:"+f+":"+c.Part, "valid configuration, packaging failed: %v", err)
			return
		}
		pkg, derr := pkgread.Decode(f, data, env.Tools)
		if derr != nil {
			viol("meta:undecodable:"+f, "package cannot be decoded: %v", derr)
			return
		}
		out.Nontrivial = true
		judgeMeta(env, f, c.Cfg, pkg, tab, data, viol)
		var ks []string
		for _, kv := range pkg.Fields {
			if kv.K != "datahash" && kv.K != "size" && kv.K != "Installed-Size" {
				ks = append(ks, kv.K+"="+kv.V)
			}
		}
		keys = append(keys, strings.Join(ks, ";"))
	}
	data, err := buildYAML(text, f)
	judge("", data, err)
	// the same settings, asking for the file name first (what the command-line tool does for directory targets)
	if cfg, perr := parseYAML(text, nil); perr == nil {
		if info, gerr := cfg.Get(f); gerr == nil {
			info = nfpm.WithDefaults(info)
			if p, perr := nfpm.Get(f); perr == nil {
				_ = p.ConventionalFileName(info)
				var buf bytes.Buffer
				err := p.Package(info, &buf)
				judge("after-filename", buf.Bytes(), err)
			}
		}
	}
	// the same settings prepared for the packager by the library user first (nfpm.PrepareForPackager), then packaged:
	// the same package
	if err == nil {
		if cfg, perr := parseYAML(text, nil); perr == nil {
			if info, gerr := safeGet(&cfg, f); gerr == nil {
				info = nfpm.WithDefaults(info)
				if p, e := nfpm.Get(f); e == nil {
					func() {
						defer func() {
							if r := recover(); r != nil {
								judge("after-prepare", nil, fmt.Errorf("PANIC: %v", r))
							}
						}()
						if perr := nfpm.PrepareForPackager(info, f); perr != nil {
							judge("after-prepare", nil, perr)
							return
						}
						var buf bytes.Buffer
						perr := p.Package(info, &buf)
						out.Transitions++
						if perr != nil {
							judge("after-prepare", nil, perr)
						} else if !bytes.Equal(buf.Bytes(), data) {
							judge("after-prepare", buf.Bytes(), nil)
							out.Violations = append(out.Violations, engine.Violation{Sig: "meta:after-prepare:differs:" + f,
								Detail: fmt.Sprintf("format=%s part=%s: the package built after the library user prepared the settings with nfpm.PrepareForPackager differs from the package built directly (%d vs %d bytes)\n%s", f, c.Part, buf.Len(), len(data), text)})
						}
					}()
				}
			}
		}
	}
	// the same settings built as a library user would build them in Go: a deep copy sharing nothing with the parsed
	// configuration, lists and maps without items written the other way round (nil <-> empty)
	if err == nil {
		for _, flip := range []bool{false, true} {
			cd, cerr := packageCloned(text, f, flip)
			out.Transitions++
			if cerr != nil {
				judge(fmt.Sprintf("settings-built-in-go:flip=%v", flip), nil, cerr)
			} else if !bytes.Equal(cd, data) {
				judge(fmt.Sprintf("settings-built-in-go:flip=%v", flip), cd, nil)
				out.Violations = append(out.Violations, engine.Violation{Sig: "meta:settings-built-in-go:differs:" + f,
					Detail: fmt.Sprintf("format=%s part=%s: the package from settings built in Go (deep copy, nil<->empty flipped: %v) differs from the package from the parsed configuration (%d vs %d bytes)\n%s", f, c.Part, flip, len(cd), len(data), text)})
			}
		}
	}
	// the same settings after ANOTHER package (other name, version, description; same files) was built
	// in this process: nothing of that package may show up in this one
	primer := c.Cfg
	primer.Name, primer.Version, primer.Prerelease, primer.Metadata, primer.Epoch, primer.Release = "zzprimer", "8.7.6", "rc9", "primer", "7", "5"
	primer.Description, primer.Maintainer, primer.Vendor, primer.Homepage, primer.License = "primer description", "Primer <p@example.com>", "primer-vendor", "https://primer.example", "Primer-License"
	// files referenced by the configuration get fresh paths, so that nothing an earlier stage left
	// behind for these paths can mask what the primer leaves behind
	pd, cd := metaDoc(primer, f, t), metaDoc(c.Cfg, f, t)
	if c.Cfg.Changelog {
		c02Fresh++
		cp := filepath.Join(t.Root, fmt.Sprintf("changelog-fresh-%d.yaml", c02Fresh))
		clText := fixture.Changelog
		if c.Cfg.ChangelogFile == "changelog-unordered.yaml" {
			clText = fixture.UnorderedChangelog
		}
		os.WriteFile(cp, []byte(clText), 0o644)
		os.Chtimes(cp, fixture.T0, fixture.T0)
		defer os.Remove(cp)
		pd["changelog"], cd["changelog"] = cp, cp
	}
	if _, err := buildYAML(pd.YAML(), f); err == nil || !platformOK {
		out.Transitions++
		data, err := buildYAML(cd.YAML(), f)
		judge("after-other-package", data, err)
	}
	// ONE parsed configuration: every other format is packaged first (each from its own Get), then the judged one
	if cfg, err := parseYAML(text, nil); err == nil {
		for _, o := range Formats {
			if o != f {
				packageFrom(&cfg, o)
				out.Transitions++
			}
		}
		data, _, err := packageFrom(&cfg, f)
		out.Transitions++
		judge("after-other-formats", data, err)
	}
	out.Key = f + ":" + strings.Join(keys, "|")
	return out
}

// judgeMeta compares decoded metadata with the configuration.
func judgeMeta(env *engine.Env, f string, c model.MetaCfg, pkg *pkgread.Pkg, tab model.ArchTable, raw []byte, viol func(sig, format string, a ...any)) {
	field := func(k string) string { v, _ := pkg.Field(k); return v }
	eq := func(class, k, want string) {
		if got, ok := pkg.Field(k); !ok || got != want {
			viol("meta:"+class+":"+f, "%s: package says %q (present=%v), configuration says %q", k, got, ok, want)
		}
	}
	names := map[string]map[string]string{
		"deb":       {"name": "Package", "arch": "Architecture", "maintainer": "Maintainer", "homepage": "Homepage", "license": "License", "section": "Section", "priority": "Priority"},
		"ipk":       {"name": "Package", "arch": "Architecture", "maintainer": "Maintainer", "homepage": "Homepage", "license": "License", "section": "Section", "priority": "Priority", "vendor": "Vendor"},
		"rpm":       {"name": "Name", "arch": "Arch", "homepage": "URL", "license": "License", "vendor": "Vendor", "platform": "OS"},
		"apk":       {"name": "pkgname", "arch": "arch", "maintainer": "maintainer", "homepage": "url", "license": "license"},
		"archlinux": {"name": "pkgname", "arch": "arch", "homepage": "url", "license": "license"},
	}[f]
	eq("name", names["name"], c.Name)
	// version
	for k, v := range model.WantVersion(f, c) {
		if got, ok := pkg.Field(k); !ok || got != v {
			// classify which component went wrong so that a known finding stays narrow
			cls := "other"
			_, pre, meta := c.SplitVersion()
			noPre, noMeta := c, c
			noPre.Prerelease, noMeta.Metadata = "", ""
			if pv, _, _ := noPre.SplitVersion(); pre != "" && ok {
				_ = pv
				np := c
				np.Schema, np.Version, np.Prerelease, np.Metadata = "none", pv, "", meta
				if got == model.WantVersion(f, np)[k] {
					cls = "prerelease-missing"
				}
			}
			if c.Epoch == "" {
				cls += ":no-epoch"
			} else {
				cls += ":with-epoch"
			}
			viol("meta:version:"+f+":"+k+":"+cls, "%s: package says %q (present=%v), configuration says %q", k, got, ok, v)
		}
	}
	if f == "rpm" && c.Epoch == "" {
		if _, ok := pkg.Field("Epoch"); ok {
			viol("meta:epoch-unconfigured:rpm", "Epoch tag %q present although no epoch is configured", field("Epoch"))
		}
	}
	// architecture (+platform)
	if want, ok := model.WantArch(tab, f, c); ok {
		if f == "deb" && c.Platform != "" && c.Platform != "linux" {
			want = c.Platform + "-" + want
		}
		got := field(names["arch"])
		if got != want {
			cls := "arch"
			if c.FormatArch != "" {
				cls = "arch-override"
			}
			viol("meta:"+cls+":"+f+":"+c.Arch, "architecture: package says %q, documented translation of %q (override %q, platform %q) is %q", got, c.Arch, c.FormatArch, c.Platform, want)
		}
	}
	if f == "rpm" {
		want := c.Platform
		if want == "" {
			want = "linux"
		}
		eq("platform", "OS", want)
	}
	// scalars with a slot
	sc := map[string]string{"maintainer": c.Maintainer, "homepage": c.Homepage, "license": c.License, "section": c.Section, "priority": c.Priority, "vendor": c.Vendor}
	for k, v := range sc {
		slot, ok := names[k]
		if !ok || v == "" {
			continue
		}
		eq("scalar-"+k, slot, v)
	}
	if (f == "deb" || f == "ipk") && c.Priority == "" {
		eq("scalar-priority-default", "Priority", "optional")
	}
	if f == "rpm" {
		wantPackager := c.RPMPackager
		if wantPackager == "" {
			wantPackager = c.Maintainer
		}
		if wantPackager != "" {
			eq("scalar-packager", "Packager", wantPackager)
		}
		wantHost := c.RPMBuildHost
		if wantHost == "" {
			wantHost = "buildhost.example" // what every document of this check configures when the case sets no other
		}
		for k, v := range map[string]string{"Group": c.RPMGroup, "BuildHost": wantHost} {
			got, ok := pkg.Field(k)
			switch {
			case v != "" && got != v:
				viol("meta:extra-"+k+":rpm", "%s: package says %q, configured %q", k, got, v)
			case v == "" && k == "Group" && ok && got != "":
				viol("meta:extra-unconfigured-"+k+":rpm", "%s %q present although not configured", k, got)
			}
		}
		wantSummary := c.RPMSummary
		if wantSummary == "" {
			wantSummary = strings.Split(descOrDefault(c.Description), "\n")[0]
		}
		eq("summary", "Summary", wantSummary)
		if got := pkg.FieldAll("Prefix"); strings.Join(got, "|") != strings.Join(c.RPMPrefixes, "|") {
			viol("meta:extra-prefixes:rpm", "PREFIXES %v, configured %v", got, c.RPMPrefixes)
		}
	}
	if f == "archlinux" {
		wb := c.ArchPkgbase
		if wb == "" {
			wb = c.Name
		}
		eq("extra-pkgbase", "pkgbase", wb)
		if c.ArchPackager != "" {
			eq("extra-packager", "packager", c.ArchPackager)
		}
	}
	// description
	lines := model.DescLines(c.Description)
	switch f {
	case "deb", "ipk":
		got := strings.Split(field("Description"), "\n")
		for i := range got {
			if got[i] == "." {
				got[i] = ""
			}
			got[i] = strings.TrimSpace(got[i])
		}
		if got[0] != lines[0] {
			viol("meta:description-synopsis:"+f, "synopsis %q, configured first line %q", got[0], lines[0])
		} else if strings.Join(got, "\n") != strings.Join(lines, "\n") {
			viol("meta:description-body:"+f, "description recovered by the control parser %q, configured %q", got, lines)
		}
	case "rpm":
		got := field("Description")
		if got != descOrDefault(c.Description) {
			viol("meta:description-body:rpm", "DESCRIPTION %q, configured %q", got, c.Description)
		}
	case "archlinux":
		want := strings.ReplaceAll(descOrDefault(c.Description), "\n", " ")
		if got := field("pkgdesc"); got != want {
			viol("meta:description-flat:archlinux", "pkgdesc %q, configured description flattened is %q", got, want)
		}
	case "apk":
		got := strings.Split(field("pkgdesc"), "\n")[0]
		if strings.TrimSpace(got) != lines[0] {
			viol("meta:description-synopsis:apk", "pkgdesc first line %q, configured first line %q", got, lines[0])
		}
	}
	// relations
	slots := model.RelSlot[f]
	allNames := map[string]string{} // configured relation name -> kind
	for kind, items := range c.Rel {
		for _, it := range items {
			allNames[it.Name] = kind
		}
	}
	gotRel := func(slot string) []string {
		switch f {
		case "deb", "ipk":
			v, ok := pkg.Field(slot)
			if !ok {
				return nil
			}
			return strings.Split(v, ", ")
		default:
			return pkg.FieldAll(slot)
		}
	}
	for _, kind := range model.RelKinds {
		slot := slots[kind]
		items := c.Rel[kind]
		if slot == "" {
			continue
		}
		var want []string
		for _, it := range items {
			want = append(want, model.RenderRel(f, it))
		}
		got := gotRel(slot)
		if f == "rpm" {
			// rpm normalises "a >= 1" spacing; compare on the decoded triple
			got = normRPMRel(got)
			want = normRPMRel(want)
			if kind == "provides" {
				// every rpm provides itself: "name = [epoch:]version-release" is not a configured relation
				wv := model.WantVersion("rpm", c)
				self := c.Name + " = " + wv["Version"] + "-" + wv["Release"]
				selfE := c.Name + " = " + c.Epoch + ":" + wv["Version"] + "-" + wv["Release"]
				var kept []string
				for _, g := range got {
					if g != self && g != selfE {
						kept = append(kept, g)
					}
				}
				got = kept
			}
		}
		if strings.Join(got, "|") != strings.Join(want, "|") {
			viol("meta:relation:"+f+":"+kind, "%s (%s): package lists %q, configured %q", slot, kind, got, want)
		}
	}
	// a relation must not surface under another relation's field
	seenSlots := map[string]bool{}
	for _, kind := range model.RelKinds {
		slot := slots[kind]
		if slot == "" || seenSlots[slot] {
			continue
		}
		seenSlots[slot] = true
		for _, g := range gotRel(slot) {
			n := strings.FieldsFunc(g, func(r rune) bool { return r == ' ' || r == '(' || r == '<' || r == '>' || r == '=' })
			if len(n) == 0 {
				continue
			}
			if k, ok := allNames[n[0]]; ok && slots[k] != slot {
				viol("meta:relation-misplaced:"+f+":"+k+"->"+slot, "%q configured as %s appears under %s", n[0], k, slot)
			}
		}
	}
	// extras
	switch f {
	case "deb":
		for k, v := range c.DebFields {
			got, ok := pkg.Field(k)
			if v != "" && got != v {
				viol("meta:extra-fields:deb", "custom field %s: package says %q, configured %q", k, got, v)
			}
			if v == "" && ok {
				viol("meta:extra-fields-empty:deb", "custom field %s configured empty but present (%q)", k, got)
			}
		}
		var wantTrig []string
		for _, d := range []struct{ key, dir string }{{"interest", "interest"}, {"interest_await", "interest-await"}, {"interest_noawait", "interest-noawait"}, {"activate", "activate"}, {"activate_await", "activate-await"}, {"activate_noawait", "activate-noawait"}} {
			for _, n := range c.DebTriggers[d.key] {
				wantTrig = append(wantTrig, d.dir+" "+n)
			}
		}
		gotTrig := strings.Split(strings.TrimSuffix(string(pkg.Triggers), "\n"), "\n")
		if len(pkg.Triggers) == 0 {
			gotTrig = nil
		}
		if strings.Join(gotTrig, "|") != strings.Join(wantTrig, "|") {
			viol("meta:extra-triggers:deb", "triggers member %q, configured %q", gotTrig, wantTrig)
		}
		judgeChangelog(f, c, pkg, viol)
		// dpkg-deb is asked only when the configured version is valid Debian syntax (starts with a digit)
		if wv := strings.TrimPrefix(model.WantVersion("deb", c)["Version"], c.Epoch+":"); len(wv) == 0 || !(strings.ContainsRune("0123456789", rune(wv[0]))) {
			break
		}
		if dpkg := env.Tool("dpkg-deb"); dpkg != "" {
			p, rm := tmpFile(env, "c02.deb", raw)
			outp, err := runTool(dpkg, nil, "-f", p, "Package", "Version", "Architecture")
			rm()
			if err != nil {
				viol("meta:dpkg-deb-rejects:deb", "dpkg-deb -f fails: %v", err)
			} else {
				wantV := model.WantVersion("deb", c)["Version"]
				if !strings.Contains(outp, "Package: "+c.Name+"\n") || !strings.Contains(outp, "Version: "+wantV+"\n") {
					viol("meta:dpkg-deb-disagrees:deb", "dpkg-deb -f reports %q, expected Package %q Version %q", outp, c.Name, wantV)
				}
			}
		}
	case "ipk":
		chk := func(k, want string) {
			got, ok := pkg.Field(k)
			if want == "" && ok {
				viol("meta:extra-unconfigured-"+k+":ipk", "%s %q present although not configured", k, got)
			} else if want != "" && got != want {
				viol("meta:extra-"+k+":ipk", "%s: package says %q, configured %q", k, got, want)
			}
		}
		chk("ABIVersion", c.IPKABI)
		var alts []string
		for _, a := range c.IPKAlts {
			alts = append(alts, fmt.Sprintf("%d:%s:%s", a.Priority, a.LinkName, a.Target))
		}
		chk("Alternatives", strings.Join(alts, ", "))
		chk("Tags", strings.Join(c.IPKTags, ", "))
		yes := func(b bool) string {
			if b {
				return "yes"
			}
			return ""
		}
		chk("Essential", yes(c.IPKEssential))
		chk("Auto-Installed", yes(c.IPKAuto))
		for k, v := range c.IPKFields {
			if strings.EqualFold(k, "version") || strings.EqualFold(k, "depends") {
				// a custom field may not override a standard one
				cnt := 0
				for _, kv := range pkg.Fields {
					if strings.EqualFold(kv.K, k) {
						cnt++
						if kv.V == v {
							viol("meta:extra-fields-override:ipk", "custom field %s=%q overrides a standard control field", k, v)
						}
					}
				}
				if cnt > 1 {
					viol("meta:extra-fields-duplicate:ipk", "control field %s appears %d times", k, cnt)
				}
				continue
			}
			if got, _ := pkg.Field(k); got != v {
				viol("meta:extra-fields:ipk", "custom field %s: package says %q, configured %q", k, got, v)
			}
		}
	case "rpm":
		judgeChangelog(f, c, pkg, viol)
	}
}

func descOrDefault(d string) string {
	if d == "" {
		return "no description given"
	}
	return d
}

var spaceRe = regexp.MustCompile(`\s+`)

func normRPMRel(l []string) []string {
	var out []string
	for _, s := range l {
		out = append(out, spaceRe.ReplaceAllString(strings.TrimSpace(s), " "))
	}
	return out
}

func judgeChangelog(f string, c model.MetaCfg, pkg *pkgread.Pkg, viol func(sig, format string, a ...any)) {
	if c.Changelog && c.ChangelogFile == "changelog-unordered.yaml" {
		// the entries appear in the order of the file, whatever their versions
		wantOrder := []string{"1.0.1", "2.0.0", "0.9.0-rc1", "2.0.0", "1.5.0"}
		wantNotes := []string{"first in the file", "second in the file", "third in the file", "fourth in the file", "last in the file"}
		var got []string
		text := ""
		switch f {
		case "deb":
			if e := pkg.Entry("/usr/share/doc/" + c.Name + "/changelog.Debian.gz"); e != nil {
				if txt, err := pkgread.Decompress("gzip", e.Data, nil); err == nil {
					text = string(txt)
					for _, l := range strings.Split(text, "\n") {
						if strings.HasPrefix(l, c.Name+" (") {
							got = append(got, strings.TrimSuffix(strings.SplitN(strings.TrimPrefix(l, c.Name+" ("), ")", 2)[0], ")"))
						}
					}
				}
			}
		case "rpm":
			for _, tl := range pkg.RPM.Hdr.Strs(1081) {
				fs := strings.Fields(tl)
				if len(fs) > 0 {
					got = append(got, fs[len(fs)-1])
				}
			}
			text = strings.Join(pkg.RPM.Hdr.Strs(1082), "\n")
		default:
			return
		}
		if fmt.Sprint(got) != fmt.Sprint(wantOrder) {
			viol("meta:extra-changelog-order:"+f, "changelog entries appear as %v, the file lists them as %v", got, wantOrder)
		}
		last := -1
		for _, n := range wantNotes {
			i := strings.Index(text, n)
			if i < 0 || i < last {
				viol("meta:extra-changelog-order:"+f, "the notes of the changelog entries are missing or not in the order of the file (%q): %q", n, trunc(text, 500))
				break
			}
			last = i
		}
		return
	}
	notes := []string{"second release note one", "second release note two", "first release note", "entry without packager"}
	switch f {
	case "deb":
		p := "/usr/share/doc/" + c.Name + "/changelog.Debian.gz"
		e := pkg.Entry(p)
		if !c.Changelog {
			if e != nil {
				viol("meta:extra-unconfigured-changelog:deb", "%s shipped although no changelog is configured", p)
			}
			return
		}
		if e == nil {
			viol("meta:extra-changelog-missing:deb", "changelog configured but %s is not in the payload", p)
			return
		}
		txt, err := pkgread.Decompress("gzip", e.Data, nil)
		if err != nil {
			viol("meta:extra-changelog:deb", "changelog.Debian.gz is not gzip: %v", err)
			return
		}
		// the Debian changelog names the package in every entry header
		if !strings.HasPrefix(string(txt), c.Name+" (1.1.0-1)") || !strings.Contains(string(txt), "\n"+c.Name+" (1.0.0-1)") {
			viol("meta:extra-changelog-name:deb", "changelog entries are not headed by the package name %q: %q", c.Name, trunc(string(txt), 400))
			return
		}
		for _, n := range append(notes, "1.1.0-1", "1.0.0-1", "0.9.0", "0.8.0", "Jane Roe <jane@example.com>") {
			if !strings.Contains(string(txt), n) {
				viol("meta:extra-changelog:deb", "changelog lacks %q: %q", n, trunc(string(txt), 400))
				return
			}
		}
		// the entry headers carry the configured distribution and urgency (the last entry states an urgency only), the
		// trailers the configured instants (one of them is written with a zone offset)
		var heads, instants []string
		for _, l := range strings.Split(string(txt), "\n") {
			if strings.HasPrefix(l, c.Name+" (") {
				heads = append(heads, l)
			}
			if strings.HasPrefix(l, " -- ") {
				if i := strings.LastIndex(l, "  "); i >= 0 {
					if t, perr := time.Parse("Mon, 02 Jan 2006 15:04:05 -0700", strings.TrimSpace(l[i:])); perr == nil {
						instants = append(instants, fmt.Sprint(t.Unix()))
					} else {
						instants = append(instants, "unparsable:"+strings.TrimSpace(l[i:]))
					}
				}
			}
		}
		wantInst := fmt.Sprint([]int64{time.Date(2009, 12, 8, 22, 0, 0, 0, time.UTC).Unix(), time.Date(2009, 11, 10, 23, 0, 0, 0, time.UTC).Unix(), time.Date(2009, 10, 1, 10, 0, 0, 0, time.UTC).Unix(), time.Date(2009, 9, 1, 9, 0, 0, 0, time.UTC).Unix()})
		if got := "[" + strings.Join(instants, " ") + "]"; got != wantInst {
			viol("meta:extra-changelog-dates:deb", "changelog trailers state the instants %s, configured %s: %q", got, wantInst, trunc(string(txt), 600))
		}
		if len(heads) != 4 || !strings.Contains(heads[0], "bookworm; urgency=medium") || !strings.Contains(heads[1], "bookworm; urgency=medium") || !strings.Contains(heads[3], "urgency=high") {
			viol("meta:extra-changelog-headers:deb", "changelog entry headers %q do not carry the configured distributions and urgencies (bookworm/medium, bookworm/medium, -, urgency high)", heads)
		}
	case "rpm":
		h := pkg.RPM.Hdr
		times, titles, texts := h.Ints(1080), h.Strs(1081), h.Strs(1082)
		if !c.Changelog {
			if len(times)+len(titles)+len(texts) > 0 {
				viol("meta:extra-unconfigured-changelog:rpm", "changelog tags present although no changelog is configured")
			}
			return
		}
		wantTimes := []int64{time.Date(2009, 12, 8, 22, 0, 0, 0, time.UTC).Unix(), time.Date(2009, 11, 10, 23, 0, 0, 0, time.UTC).Unix(), time.Date(2009, 10, 1, 10, 0, 0, 0, time.UTC).Unix(), time.Date(2009, 9, 1, 9, 0, 0, 0, time.UTC).Unix()}
		// every configured entry, also one without notes
		if len(times) != 4 || times[0] != wantTimes[0] || times[1] != wantTimes[1] || times[2] != wantTimes[2] || times[3] != wantTimes[3] {
			viol("meta:extra-changelog:rpm", "CHANGELOGTIME %v, configured entry dates %v", times, wantTimes)
		}
		if len(titles) != 4 || !strings.Contains(titles[0], "1.1.0-1") || !strings.Contains(titles[1], "1.0.0-1") || !strings.Contains(titles[0], "Jane Roe") || !strings.Contains(titles[2], "0.9.0") || !strings.Contains(titles[3], "0.8.0") {
			viol("meta:extra-changelog:rpm", "CHANGELOGNAME %q does not name the configured entries", titles)
		}
		if len(titles) == 4 && strings.TrimSpace(strings.TrimSuffix(strings.TrimSpace(titles[2]), "0.9.0")) != "-" {
			viol("meta:extra-changelog-packager:rpm", "the third changelog entry has no packager configured, CHANGELOGNAME says %q", titles[2])
		}
		all := strings.Join(texts, "\n")
		for _, n := range notes {
			if !strings.Contains(all, n) {
				viol("meta:extra-changelog:rpm", "CHANGELOGTEXT lacks %q: %q", n, all)
			}
		}
		if len(texts) != 4 {
			viol("meta:extra-changelog:rpm", "CHANGELOGTEXT has %d entries, the changelog 4 (one of them without notes)", len(texts))
		}
		if len(texts) == 4 && (strings.Contains(texts[0], "first release") || strings.Contains(texts[1], "second release")) {
			viol("meta:extra-changelog:rpm", "CHANGELOGTEXT entries are attached to the wrong versions: %q", texts)
		}
	}
}

var _ = strconv.Itoa
