package props

import (
	"crypto/md5"
	"crypto/sha1"
	"crypto/sha256"
	"encoding/hex"
	"fmt"
	"io"
	"os"
	"sort"
	"strconv"
	"strings"
	"time"

	"verif/mc/engine"
	"verif/mc/fixture"
	"verif/mc/model"
	"verif/mc/pkgread"
)

// C03Case is one payload shape under one setting. Mutate: build once, rewrite
// share/mut.bin with other bytes of the same length and mtime, build again and
// judge the second package (stored digests must describe the shipped bytes).
type C03Case struct {
	Shape   []string `json:"shape"`
	Name    string   `json:"name_class"`
	Setting Setting  `json:"setting"`
	Mutate  bool     `json:"mutate,omitempty"`
	// Prior: a packaging call of the same configuration that FAILS (signing callback fails / destination
	// writer fails) is made first in the same process
	Prior string `json:"prior,omitempty"`
	// Changelog: "" | small | big - a changelog is configured (deb ships it gzipped in the payload, rpm in header tags)
	Changelog string `json:"changelog,omitempty"`
	// SDE: SOURCE_DATE_EPOCH is set in the process environment while the configuration states its own mtime (the
	// times a package states about its members still agree with the members)
	SDE string `json:"source_date_epoch,omitempty"`
}

var c03Items = []string{"f5000", "f0", "dir", "symlink", "f1", "f1023", "f1024", "config", "ghost", "big", "mut", "disklink", "links-tree", "links-glob"}

// c03FracItems: entries whose times are not whole seconds (explicit entry mtimes; a tree whose directories and
// files have fractional on-disk mtimes): the times a package states about its entries must be the entries' times.
// c03ModeItems: entries whose modes carry the special bits.
var c03ModeItems = []string{"dir-sticky", "dir-setgid", "file-setuid", "file-sticky", "tree-mode"}

var c03FracItems = []string{"frac-file", "frac-dir", "frac-link", "frac-tree", "frac-config"}

var c03Names = map[string]string{"plain": "data.bin", "space": "with space.bin", "percent": "100%s_done%d.bin", "hash": "#hash.bin", "backslash": `back\slash.bin`, "unicode": "ünï.bin"}
var c03NameOrder = []string{"plain", "space", "percent", "hash", "backslash", "unicode", "topdotdir", "topdotfile", "topdots"}

// c03TopNames: whole destinations whose first component starts with dots (the digest lists name them without the
// leading "./" or "/" of the archive member - and without losing anything else).
var c03TopNames = map[string]string{"topdotdir": "/.c03-top/", "topdotfile": "/.c03-", "topdots": "/...c03/.."}

func c03Entry(item string, i int, nameClass string) model.Entry {
	if pre, ok := c03TopNames[nameClass]; ok && i == 0 {
		e := c03EntryAt(item, i, "plain")
		e.Dst = pre + strings.TrimPrefix(e.Dst, "/opt/c03/")
		return e
	}
	return c03EntryAt(item, i, nameClass)
}

func c03EntryAt(item string, i int, nameClass string) model.Entry {
	base := fmt.Sprintf("/opt/c03/%d-", i)
	if strings.HasPrefix(item, "size:") {
		return model.Entry{Src: "sizes/s" + strings.TrimPrefix(item, "size:") + ".bin", Dst: base + "sized.bin"}
	}
	name := item
	if i == 0 && nameClass != "" && nameClass != "plain" {
		name = c03Names[nameClass]
	}
	switch item {
	case "f0":
		return model.Entry{Src: "etc/empty", Dst: base + name}
	case "f1":
		return model.Entry{Src: "etc/conf.d/b.conf", Dst: base + name}
	case "f1023":
		return model.Entry{Src: "etc/conf.d/a.conf", Dst: base + name}
	case "f1024":
		return model.Entry{Src: "share/f1024.bin", Dst: base + name}
	case "f5000":
		return model.Entry{Src: "share/f5000.bin", Dst: base + name}
	case "big":
		return model.Entry{Src: "share/big.bin", Dst: base + name}
	case "mut":
		return model.Entry{Src: "share/mut.bin", Dst: base + name}
	case "disklink":
		return model.Entry{Src: "link", Dst: base + name} // an on-disk symlink as source: shipped as symlink
	case "dir":
		return model.Entry{Dst: base + name, Type: "dir"}
	case "symlink":
		return model.Entry{Src: "/usr/bin/target", Dst: base + name, Type: "symlink"}
	case "config":
		return model.Entry{Src: "etc/app.conf", Dst: base + name, Type: "config"}
	case "ghost":
		return model.Entry{Dst: base + name, Type: "ghost"}
	case "dir-sticky":
		return model.Entry{Dst: base + name, Type: "dir", Mode: 0o1777}
	case "dir-setgid":
		return model.Entry{Dst: base + name, Type: "dir", Mode: 0o2775, Owner: "app", Group: "grp"}
	case "file-setuid":
		return model.Entry{Src: "bin/app", Dst: base + name, Mode: 0o4755}
	case "file-sticky":
		return model.Entry{Src: "etc/app.conf", Dst: base + name, Type: "config", Mode: 0o1644}
	case "tree-mode":
		return model.Entry{Src: "tree", Dst: base + name, Type: "tree", Mode: 0o2750}
	case "links-tree": // on-disk symlinks whose targets are not in canonical form (./x, a/../x, dir/), dangling ones
		return model.Entry{Src: "links", Dst: base + name, Type: "tree"}
	case "links-glob":
		return model.Entry{Src: "links/*", Dst: base + name}
	case "sizes-tree":
		return model.Entry{Src: "sizes", Dst: base + name, Type: "tree"}
	case "symlink-odd":
		// a link target with a blank, '#', a backslash and non-ASCII bytes (what .MTREE states is what the member says)
		return model.Entry{Src: "/opt/My App/bin/tool #1\\x caf\u00e9", Dst: base + name, Type: "symlink"}
	case "config-noreplace":
		return model.Entry{Src: "share/f5000.bin", Dst: base + name, Type: "config|noreplace"}
	case "config-missingok":
		return model.Entry{Src: "share/f1024.bin", Dst: base + name, Type: "config|missingok"}
	case "odd-tree":
		return model.Entry{Src: "oddnames", Dst: base + name, Type: "tree"}
	case "odd-glob":
		return model.Entry{Src: "oddnames/*", Dst: base + name}
	case "hardlinks-tree":
		return model.Entry{Src: "hardlinks", Dst: base + name, Type: "tree"}
	case "hardlink-a":
		return model.Entry{Src: "hardlinks/first.bin", Dst: base + name}
	case "hardlink-b":
		return model.Entry{Src: "hardlinks/second.bin", Dst: base + name}
	case "huge-noise":
		return model.Entry{Src: "huge/noise.bin", Dst: base + name}
	case "huge-zeros":
		return model.Entry{Src: "huge/zeros.bin", Dst: base + name}
	case "huge-tree":
		return model.Entry{Src: "huge", Dst: base + name, Type: "tree"}
	case "many-tree":
		return model.Entry{Src: "many", Dst: base + name, Type: "tree"}
	case "many-glob":
		return model.Entry{Src: "many/d0?/f01*", Dst: base + name}
	case "frac-file":
		return model.Entry{Src: "share/f1024.bin", Dst: base + name, MTime: EntryMTime.Add(750 * time.Millisecond)}
	case "frac-config":
		return model.Entry{Src: "etc/app.conf", Dst: base + name, Type: "config", MTime: EntryMTime.Add(500 * time.Millisecond)}
	case "frac-dir":
		return model.Entry{Dst: base + name, Type: "dir", MTime: EntryMTime.Add(999 * time.Millisecond)}
	case "frac-link":
		return model.Entry{Src: "/usr/bin/target", Dst: base + name, Type: "symlink", MTime: EntryMTime.Add(600 * time.Millisecond)}
	case "frac-tree":
		return model.Entry{Src: "frac", Dst: base + name, Type: "tree"}
	}
	panic(item)
}

func c03Settings(thorough bool) []Setting {
	all := c01Settings()
	var out []Setting
	for _, s := range all {
		if s.Name == "default" || s.Only != "" || (thorough && s.Name == "mtime=B") {
			out = append(out, s)
		}
	}
	return out
}

func init() {
	engine.Register(&engine.Prop{
		ID:    "C03",
		Level: "model_checking",
		Rule: "every multiset of <=2 (thorough <=3) payload items over {files of 0,1,1023,1024,5000 B, a 200 KiB/3 MiB file, dir, symlink, config, ghost, mutable file} plus the empty payload, x destination name classes (plain, space, %, #, backslash, non-ASCII) for singletons, x compression settings, all five formats; " +
			"every digest/size the package stores about itself is recomputed from the decoded shipped bytes; plus a rebuild after a source was rewritten with same length and mtime; non-trivial = at least one stored digest or size compared; distinct = distinct (format, stored size/digest vector)",
		Assumptions: []string{
			"rpm sig PAYLOADSIZE accepted as the sum of file sizes (with or without symlink target lengths) or the uncompressed cpio length; SIZE as the sum of file sizes with or without symlink target lengths (rpm versions differ)",
			"builds without a configured mtime are outside this alphabet: every stored time is then the clock (C07)",
			"deb/ipk Installed-Size accepted in [floor(sum/1024), ceil(sum/1024)+entries]",
			"apk per-file SHA-1 PAX checksums are compared for regular files",
		},
		Setup:  setupTree,
		Decode: decodeInto[C03Case],
		Bounds: func(env *engine.Env) map[string]any {
			return map[string]any{"items": c03Items, "name_classes": c03NameOrder, "max_multiset": map[string]int{"quick": 2, "thorough": 3}}
		},
		Enumerate: func(env *engine.Env, yield func(any) bool) {
			sets := c03Settings(env.Thorough())
			for _, s := range sets {
				if !yield(C03Case{Shape: nil, Setting: s}) {
					return
				}
			}
			for _, nc := range c03NameOrder {
				for _, it := range c03Items {
					for _, s := range sets {
						if nc != "plain" && s.Name != "default" {
							continue
						}
						if !yield(C03Case{Shape: []string{it}, Name: nc, Setting: s}) {
							return
						}
					}
				}
			}
			for i, a := range c03Items {
				for _, b := range c03Items[i:] {
					for _, s := range sets {
						if !yield(C03Case{Shape: []string{a, b}, Setting: s}) {
							return
						}
					}
				}
			}
			// modes with setuid / setgid / sticky bits (what the package says about an entry must be what it ships)
			for i, a := range c03ModeItems {
				for _, s := range sets {
					if !yield(C03Case{Shape: []string{a}, Setting: s}) {
						return
					}
				}
				for _, b := range c03ModeItems[i+1:] {
					if !yield(C03Case{Shape: []string{a, b}, Setting: Setting{Name: "default"}}) {
						return
					}
				}
			}
			// times that are not whole seconds: entry mtimes, on-disk tree times, the package mtime itself
			for _, s := range []Setting{{Name: "default"}, {Name: "mtime=F", MTime: "F"}, {Name: "mtime=G", MTime: "G"}} {
				for i, a := range c03FracItems {
					if !yield(C03Case{Shape: []string{a}, Setting: s}) {
						return
					}
					for _, b := range c03FracItems[i+1:] {
						if !yield(C03Case{Shape: []string{a, b}, Setting: s}) {
							return
						}
					}
					if !yield(C03Case{Shape: []string{a, "f5000"}, Setting: s}) {
						return
					}
				}
				if s.MTime != "" {
					for _, it := range []string{"f5000", "dir", "symlink", "config"} {
						if !yield(C03Case{Shape: []string{it}, Setting: s}) {
							return
						}
					}
					if !yield(C03Case{Shape: nil, Setting: s}) {
						return
					}
				}
			}
			// file sizes on block, buffer and streaming-threshold boundaries (sizes, digests and size sums must follow)
			for _, s := range sets {
				for _, n := range fixture.BoundarySizes {
					it := fmt.Sprintf("size:%d", n)
					if !yield(C03Case{Shape: []string{it}, Setting: s}) {
						return
					}
					if s.Name == "default" {
						if !yield(C03Case{Shape: []string{it, "symlink"}, Setting: s}) {
							return
						}
						if !yield(C03Case{Shape: []string{it, "dir", "f1"}, Setting: s}) {
							return
						}
					}
				}
			}
			// SOURCE_DATE_EPOCH in the environment next to a configured mtime, and alone
			for _, s := range []Setting{sets[0], {Name: "mtime=unset", MTime: "unset"}} {
				for _, sde := range []string{"1500000000", "1000000000", "0"} {
					for _, sh := range [][]string{{"f5000", "dir", "symlink"}, {"config", "f1"}, nil} {
						if !yield(C03Case{Shape: sh, Setting: s, SDE: sde}) {
							return
						}
					}
				}
			}
			// every configuration-file flavour with content, a link whose target needs escaping
			for _, s := range []Setting{sets[0], {Name: "mtime=B", MTime: "B"}} {
				for _, sh := range [][]string{{"config-noreplace"}, {"config-missingok"}, {"config", "config-noreplace", "config-missingok", "f1"}, {"symlink-odd"}, {"symlink-odd", "symlink", "f1"}} {
					if !yield(C03Case{Shape: sh, Setting: s}) {
						return
					}
				}
			}
			// names that are not plain text (the digest lists and size sums name and count every file); two names of one
			// file on the build host (two files in the package)
			for _, s := range sets {
				if s.Only != "" && !env.Thorough() {
					continue
				}
				for _, sh := range [][]string{{"odd-tree"}, {"odd-glob", "f1"}, {"hardlinks-tree"}, {"hardlink-a", "hardlink-b", "f1"}, {"hardlink-b", "hardlink-a"}} {
					if !yield(C03Case{Shape: sh, Setting: s}) {
						return
					}
				}
			}
			// large inputs: files beyond every compressor window, thousands of files (size sums, digests of every one)
			for _, s := range sets {
				if s.Only != "" && !env.Thorough() && s.Name != "deb.compression=zstd" && s.Name != "rpm.compression=xz" {
					continue
				}
				for _, sh := range [][]string{{"huge-noise"}, {"huge-zeros"}, {"huge-tree", "f1"}, {"many-tree"}, {"many-glob", "dir"}, {"many-tree", "huge-noise", "symlink"}} {
					if !yield(C03Case{Shape: sh, Setting: s}) {
						return
					}
				}
			}
			// a changelog: deb ships it gzipped inside the payload (sizes count what is shipped)
			for _, cl := range []string{"small", "big"} {
				for _, shape := range [][]string{nil, {"f1"}, {"f5000", "dir"}, {"f1023", "symlink", "config"}} {
					for _, s := range sets {
						if !yield(C03Case{Shape: shape, Setting: s, Changelog: cl}) {
							return
						}
					}
				}
			}
			// a failed packaging call first (signer fails / destination fails), then the judged build
			for _, prior := range []string{"signer-fails", "write-fails"} {
				for _, shape := range [][]string{{"f5000"}, {"f5000", "config"}, {"big", "f1"}, nil} {
					if !yield(C03Case{Shape: shape, Setting: Setting{Name: "default"}, Prior: prior}) {
						return
					}
				}
			}
			// source rewritten between two builds
			for _, other := range append([]string{""}, c03Items[:6]...) {
				shape := []string{"mut"}
				if other != "" {
					shape = append(shape, other)
				}
				for _, mt := range []string{"A", "B"} {
					if !yield(C03Case{Shape: shape, Setting: Setting{Name: "mtime=" + mt, MTime: mt}, Mutate: true}) {
						return
					}
				}
			}
			if env.Thorough() {
				for i, a := range c03Items {
					for j, b := range c03Items[i:] {
						for _, c := range c03Items[i+j:] {
							for _, s := range sets[:1] {
								if !yield(C03Case{Shape: []string{a, b, c}, Setting: s}) {
									return
								}
							}
						}
					}
				}
			}
		},
		Check: checkC03,
	})
}

func hexsum(h string, b []byte) string {
	switch h {
	case "md5":
		s := md5.Sum(b)
		return hex.EncodeToString(s[:])
	case "sha1":
		s := sha1.Sum(b)
		return hex.EncodeToString(s[:])
	}
	s := sha256.Sum256(b)
	return hex.EncodeToString(s[:])
}

func checkC03(env *engine.Env, ci any) engine.Outcome {
	c := ci.(C03Case)
	t := tree(env)
	var out engine.Outcome
	var list []model.Entry
	for i, it := range c.Shape {
		list = append(list, c03Entry(it, i, c.Name))
	}
	doc := c.Setting.doc(list, t.Root)
	switch c.Changelog {
	case "small":
		doc["changelog"] = t.P("changelog.yaml")
	case "big":
		doc["changelog"] = t.P("changelog-big.yaml")
	}
	text := doc.YAML()
	if c.SDE != "" {
		old, had := os.LookupEnv("SOURCE_DATE_EPOCH")
		os.Setenv("SOURCE_DATE_EPOCH", c.SDE)
		defer func() {
			if had {
				os.Setenv("SOURCE_DATE_EPOCH", old)
			} else {
				os.Unsetenv("SOURCE_DATE_EPOCH")
			}
		}()
	}
	formats := Formats
	if c.Setting.Only != "" {
		formats = []string{c.Setting.Only}
	}
	mut := t.P("share/mut.bin")
	mutNode := t.Get("share/mut.bin")
	restore := func() {
		os.WriteFile(mut, mutNode.Data, 0o644)
		os.Chtimes(mut, mutNode.MTime, mutNode.MTime)
	}
	var keys []string
	for _, f := range formats {
		viol := func(sig, format string, a ...any) {
			out.Violations = append(out.Violations, engine.Violation{Sig: sig,
				Detail: fmt.Sprintf("format=%s setting=%s mutate=%v prior-failed-call=%q list=%s\n", f, c.Setting.Name, c.Mutate, c.Prior, descList(list)) + fmt.Sprintf(format, a...)})
		}
		if c.Mutate {
			restore()
			buildYAML(text, f)
			out.Transitions++
			os.WriteFile(mut, fixture.Noise(len(mutNode.Data), 99), 0o644)
			os.Chtimes(mut, mutNode.MTime, mutNode.MTime)
		}
		if c.Prior != "" {
			out.Transitions++
			switch c.Prior {
			case "signer-fails":
				c06Build(text, f, io.Discard, func(r io.Reader) ([]byte, error) { return nil, errInjected })
			case "write-fails":
				c06Build(text, f, &faultWriter{k: 1, variant: "sticky"}, nil)
				c06Build(text, f, &faultWriter{k: 0, variant: "sticky"}, nil)
			}
		}
		out.Transitions++
		data, err := buildYAML(text, f)
		if c.Mutate {
			restore()
		}
		if err != nil {
			viol("digest:build-error:"+f, "valid configuration, packaging failed: %v", err)
			continue
		}
		pkg, err := pkgread.Decode(f, data, env.Tools)
		if err != nil {
			if strings.Contains(err.Error(), pkgread.ErrNoDecoder.Error()) {
				out.HarnessError = "no decoder for " + c.Setting.Name
				return out
			}
			viol("digest:undecodable:"+f, "package cannot be decoded: %v", err)
			continue
		}
		k := judgeDigests(f, pkg, viol)
		if k != "" {
			out.Nontrivial = true
		}
		keys = append(keys, f+":"+k)
	}
	out.Key = c.Prior + "|" + c.Changelog + "|" + strings.Join(keys, "|")
	return out
}

// judgeDigests recomputes every stored digest/size from the shipped bytes.
func judgeDigests(f string, pkg *pkgread.Pkg, viol func(sig, format string, a ...any)) string {
	var sum int64
	nfiles := 0
	for i := range pkg.Entries {
		if e := &pkg.Entries[i]; e.Kind == "file" && !e.NoData {
			sum += int64(len(e.Data))
			nfiles++
		}
	}
	var key []string
	kib := func(name string) {
		v, ok := pkg.Field("Installed-Size")
		if !ok {
			if f == "ipk" && sum/1024 == 0 {
				return
			}
			viol("digest:installed-size-missing:"+f, "no Installed-Size field (payload %d bytes)", sum)
			return
		}
		n, err := strconv.ParseInt(v, 10, 64)
		lo, hi := sum/1024, (sum+1023)/1024+int64(len(pkg.Entries))
		if err != nil || n < lo || n > hi {
			viol("digest:installed-size:"+f, "Installed-Size %q is not a KiB estimate of the %d payload bytes (accepted %d..%d)", v, sum, lo, hi)
		}
		key = append(key, "isz="+v)
	}
	switch f {
	case "deb":
		kib("deb")
		type line struct{ sum, name string }
		var lines []line
		for _, l := range strings.Split(strings.TrimSuffix(string(pkg.Md5sums), "\n"), "\n") {
			if l == "" {
				continue
			}
			if len(l) < 35 || l[32:34] != "  " {
				viol("digest:md5sums-syntax:deb", "md5sums line %q is not '<md5>  <name>'", l)
				continue
			}
			lines = append(lines, line{l[:32], l[34:]})
		}
		byName := map[string]string{}
		for _, l := range lines {
			n := strings.TrimPrefix(l.name, "./")
			if _, dup := byName[n]; dup {
				viol("digest:md5sums-duplicate:deb", "md5sums names %q twice", l.name)
			}
			byName[n] = l.sum
		}
		for i := range pkg.DataTar {
			e := &pkg.DataTar[i]
			if e.Typeflag != '0' && e.Typeflag != 0 {
				continue
			}
			n := strings.TrimPrefix(e.Name, "./")
			got, ok := byName[n]
			if !ok {
				viol("digest:md5sums-missing:deb", "regular payload file %q has no md5sums line (lines: %v)", e.Name, lines)
				continue
			}
			delete(byName, n)
			if want := hexsum("md5", e.Data); got != want {
				viol("digest:md5sums-mismatch:deb", "md5sums says %s for %q, shipped bytes have MD5 %s", got, e.Name, want)
			}
		}
		for n := range byName {
			viol("digest:md5sums-extra:deb", "md5sums names %q which is not a regular file of the payload", n)
		}
		key = append(key, fmt.Sprintf("md5lines=%d", len(lines)))
	case "ipk":
		kib("ipk")
	case "apk":
		dh, _ := pkg.Field("datahash")
		if want := hexsum("sha256", pkg.DataBlob); dh != want {
			viol("digest:datahash:apk", "datahash = %s, the data segment as shipped has SHA-256 %s", dh, want)
		}
		sz, _ := pkg.Field("size")
		if sz != strconv.FormatInt(sum, 10) {
			viol("digest:size:apk", "size = %s, regular payload bytes total %d", sz, sum)
		}
		for i := range pkg.DataTar {
			e := &pkg.DataTar[i]
			if e.Typeflag != '0' && e.Typeflag != 0 {
				continue
			}
			got, ok := e.PAX["APK-TOOLS.checksum.SHA1"]
			if !ok {
				viol("digest:pax-sha1-missing:apk", "regular file %q has no APK-TOOLS.checksum.SHA1 record", e.Name)
			} else if want := hexsum("sha1", e.Data); got != want {
				viol("digest:pax-sha1:apk", "%q: PAX checksum %s, shipped bytes have SHA-1 %s", e.Name, got, want)
			}
		}
		key = append(key, "size="+sz, "dh="+trunc12(dh))
	case "archlinux":
		sz, ok := pkg.Field("size")
		if !ok {
			sz = "0"
		}
		if sz != strconv.FormatInt(sum, 10) {
			viol("digest:size:archlinux", ".PKGINFO size = %s, regular payload bytes total %d", sz, sum)
		}
		for _, p := range pkg.Problems {
			if strings.HasPrefix(p, "mtree-syntax") {
				viol("digest:mtree-syntax:archlinux", ".MTREE cannot be parsed by mtree(5) rules: %s", p)
			}
		}
		if len(pkg.Mtree) == 0 || pkg.Mtree[0].Path != "./.PKGINFO" {
			viol("digest:mtree-pkginfo-first:archlinux", ".MTREE does not list .PKGINFO first")
		}
		lines := map[string]pkgread.MtreeLine{}
		for _, m := range pkg.Mtree {
			mp := strings.TrimSuffix(m.Path, "/")
			if _, dup := lines[mp]; dup {
				viol("digest:mtree-duplicate:archlinux", ".MTREE lists %q twice", m.Path)
			}
			lines[mp] = m
		}
		check := func(name, kind string, mode int64, mtime int64, data []byte, link string) {
			m, ok := lines["./"+name]
			if !ok {
				viol("digest:mtree-missing:archlinux:"+kind, ".MTREE has no line for %s %q (raw: %q)", kind, name, trunc(string(pkg.MtreeRaw), 300))
				return
			}
			delete(lines, "./"+name)
			wantType := map[string]string{"file": "file", "dir": "dir", "symlink": "link"}[kind]
			if m.KV["type"] != wantType {
				viol("digest:mtree-type:archlinux:"+kind, "%q: .MTREE type=%s, shipped as %s", name, m.KV["type"], kind)
			}
			if kind != "symlink" {
				if got, err := strconv.ParseInt(m.KV["mode"], 8, 64); err != nil || got != mode {
					viol("digest:mtree-mode:archlinux:"+kind, "%q: .MTREE mode=%s, tar header mode %o", name, m.KV["mode"], mode)
				}
			}
			if got := m.KV["time"]; got != fmt.Sprintf("%d.0", mtime) {
				viol("digest:mtree-time:archlinux:"+kind, "%q: .MTREE time=%s, tar header mtime %d", name, got, mtime)
			}
			if kind == "file" {
				if m.KV["size"] != strconv.Itoa(len(data)) {
					viol("digest:mtree-size:archlinux", "%q: .MTREE size=%s, shipped %d bytes", name, m.KV["size"], len(data))
				}
				if m.KV["md5digest"] != hexsum("md5", data) {
					viol("digest:mtree-md5:archlinux", "%q: .MTREE md5digest=%s, shipped bytes have %s", name, m.KV["md5digest"], hexsum("md5", data))
				}
				if m.KV["sha256digest"] != hexsum("sha256", data) {
					viol("digest:mtree-sha256:archlinux", "%q: .MTREE sha256digest=%s, shipped bytes have %s", name, m.KV["sha256digest"], hexsum("sha256", data))
				}
			}
			if kind == "symlink" && m.KV["link"] != link {
				viol("digest:mtree-link:archlinux", "%q: .MTREE link=%q, shipped link target %q", name, m.KV["link"], link)
			}
		}
		for i := range pkg.OuterTar {
			e := &pkg.OuterTar[i]
			if e.Name == ".MTREE" || e.Name == ".INSTALL" {
				continue
			}
			kind := map[byte]string{'0': "file", 0: "file", '5': "dir", '2': "symlink"}[e.Typeflag]
			check(strings.TrimSuffix(e.Name, "/"), kind, e.Mode, e.ModTime.Unix(), e.Data, e.Linkname)
		}
		for p := range lines {
			viol("digest:mtree-extra:archlinux", ".MTREE lists %q which is not in the archive", p)
		}
		key = append(key, "size="+sz, fmt.Sprintf("mtree=%d", len(pkg.Mtree)))
	case "rpm":
		r := pkg.RPM
		if got, want := r.Sig.Str(273), hexsum("sha256", r.Hdr.Raw); got != want {
			viol("digest:sig-sha256:rpm", "signature header SHA256 %s, header blob has %s", got, want)
		}
		if v := r.Sig.Ints(1000); len(v) != 1 || v[0] != int64(len(r.Hdr.Raw)+len(r.Payload)) {
			viol("digest:sig-size:rpm", "SIGSIZE %v, header+payload are %d bytes", v, len(r.Hdr.Raw)+len(r.Payload))
		}
		// rpm counts symlink targets into the size tags in some versions: both sums are accepted
		var linkBytes int64
		for _, fl := range r.Files {
			linkBytes += int64(len(fl.LinkTo))
		}
		if v := r.Sig.Ints(1007); len(v) != 1 || (v[0] != sum && v[0] != sum+linkBytes && v[0] != int64(len(r.PayloadRaw))) {
			viol("digest:sig-payloadsize:rpm", "signature PAYLOADSIZE %v, file bytes %d (+%d link bytes), cpio length %d", v, sum, linkBytes, len(r.PayloadRaw))
		}
		if got, want := strings.Join(r.Hdr.Strs(5092), ","), hexsum("sha256", r.Payload); got != want {
			viol("digest:payloaddigest:rpm", "PAYLOADDIGEST %s, compressed payload as shipped has %s", got, want)
		}
		if v := r.Hdr.Ints(5093); len(v) != 1 || v[0] != 8 {
			viol("digest:payloaddigestalgo:rpm", "PAYLOADDIGESTALGO %v, expected 8 (SHA-256)", v)
		}
		if v := r.Hdr.Ints(1009); len(v) != 1 || (v[0] != sum && v[0] != sum+linkBytes) {
			viol("digest:size:rpm", "SIZE %v, regular file bytes total %d (+%d link bytes)", v, sum, linkBytes)
		}
		if v := r.Hdr.Ints(5011); len(r.Files) > 0 {
			// consumers read the first value; every value must name SHA-256
			bad := len(v) == 0
			for _, a := range v {
				bad = bad || a != 8
			}
			if bad {
				viol("digest:filedigestalgo:rpm", "FILEDIGESTALGO %v, expected 8 (SHA-256)", v)
			}
		}
		for i := range pkg.Entries {
			e := &pkg.Entries[i]
			fl := r.Files[i]
			switch {
			case e.Kind == "file" && !e.NoData:
				if fl.Digest != hexsum("sha256", e.Data) {
					viol("digest:filedigest:rpm", "%q: FILEDIGESTS %s, shipped bytes have %s", e.Path, fl.Digest, hexsum("sha256", e.Data))
				}
				if fl.Size != int64(len(e.Data)) {
					viol("digest:filesize:rpm", "%q: FILESIZES %d, shipped %d bytes", e.Path, fl.Size, len(e.Data))
				}
			case e.Kind == "symlink":
				if fl.Size != int64(len(fl.LinkTo)) || fl.Digest != "" {
					viol("digest:linksize:rpm", "%q: symlink FILESIZES %d digest %q, target %q", e.Path, fl.Size, fl.Digest, fl.LinkTo)
				}
			case e.Kind == "dir":
				if fl.Digest != "" {
					viol("digest:dirdigest:rpm", "%q: directory carries digest %q", e.Path, fl.Digest)
				}
			}
		}
		key = append(key, fmt.Sprintf("size=%d files=%d", sum, len(r.Files)))
	}
	sort.Strings(key)
	return strings.Join(key, ",")
}
