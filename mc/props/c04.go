package props

import (
	"bytes"
	"fmt"
	"io"
	"os"
	"os/exec"
	"path/filepath"
	"sort"
	"strings"
	"unicode/utf8"

	"verif/mc/engine"
	"verif/mc/fixture"
	"verif/mc/model"
	"verif/mc/pkgread"

	"github.com/sassoftware/go-rpmutils"
)

// C04Case is one configuration of one structural class, built for one format.
type C04Case struct {
	Class     string        `json:"class"`
	Format    string        `json:"format"`
	List      []model.Entry `json:"list"`
	Setting   Setting       `json:"setting"`
	Scripts   bool          `json:"scripts,omitempty"`
	Sign      string        `json:"sign,omitempty"` // debsign | dpkg-sig | rpm | apk2048 | apk4096
	DescLen   int           `json:"desc_len,omitempty"`
	ScriptLen int           `json:"script_len,omitempty"`
	// Changelog: a changelog is configured; ChangelogFile names it ("" = the standard one)
	Changelog     bool   `json:"changelog,omitempty"`
	ChangelogFile string `json:"changelog_file,omitempty"`
	// ScriptMask: with Scripts, the subset of the format's script slots that is configured (0 = all)
	ScriptMask uint `json:"script_mask,omitempty"`
	// Alts: ipk alternatives whose targets are files of the package itself and whose links lie in directories the
	// contents do not create (metadata only: the payload is what the contents denote)
	Alts bool `json:"ipk_alternatives,omitempty"`
}

func keyPath(env *engine.Env, name string) string { return filepath.Join(env.Verif, "keys", name) }

// signDoc adds signing settings for the format.
func signDoc(env *engine.Env, d fixture.Doc, format, sign string) {
	sub := func(k string) map[string]any {
		m, _ := d[k].(map[string]any)
		if m == nil {
			m = map[string]any{}
		} else {
			c := map[string]any{}
			for a, b := range m {
				c[a] = b
			}
			m = c
		}
		d[k] = m
		return m
	}
	switch sign {
	case "debsign":
		sub("deb")["signature"] = map[string]any{"key_file": keyPath(env, "privkey_unprotected.asc")}
	case "dpkg-sig":
		sub("deb")["signature"] = map[string]any{"key_file": keyPath(env, "privkey_unprotected.asc"), "method": "dpkg-sig", "signer": "Jane Roe <jane@example.com>", "type": "builder"}
	case "rpm":
		sub("rpm")["signature"] = map[string]any{"key_file": keyPath(env, "privkey_unprotected.asc")}
	case "apk2048":
		sub("apk")["signature"] = map[string]any{"key_file": keyPath(env, "rsa_unprotected.priv"), "key_name": "origin"}
	case "apk4096":
		sub("apk")["signature"] = map[string]any{"key_file": keyPath(env, "rsa4096.priv"), "key_name": "big"}
	}
}

func longName(n int) string {
	var b strings.Builder
	for b.Len() < n {
		b.WriteString("longname-")
	}
	return b.String()[:n]
}

func c04Settings(format string) []Setting {
	var out []Setting
	for _, s := range c01Settings() {
		if s.Name == "default" || s.Only == format {
			out = append(out, s)
		}
	}
	return out
}

func init() {
	engine.Register(&engine.Prop{
		ID:    "C04",
		Level: "model_checking",
		Rule: "one configuration per structural class: every entry template alone, the empty payload, pairs of the 8 simplest templates, x every compression of the format; with scripts; signed variants (deb debsign/dpkg-sig x 4 compressions, rpm, apk with 2048- and 4096-bit keys); " +
			"exhaustive alignment sweeps (description length over all 512 residues for apk, 64 for deb, 16 for rpm/ipk/archlinux; apk script lengths around 512/1024); member names of 100..260 bytes, with spaces and non-ASCII; " +
			"each package is parsed end to end by harness-owned structure validators and by an independent implementation (dpkg-deb, GNU tar, bsdtar, go-rpmutils); non-trivial = package decoded; distinct = distinct (format, member/segment layout)",
		Assumptions: []string{
			"second opinions used when installed: dpkg-deb -I/-c (deb), GNU tar -tzf (apk, ipk), bsdtar -tf (archlinux), go-rpmutils reader (rpm)",
			"rpm, apk-tools, pacman and opkg themselves are not in the image",
		},
		Setup:  setupScripts,
		Decode: decodeInto[C04Case],
		Bounds: func(env *engine.Env) map[string]any {
			return map[string]any{"formats": Formats, "alignment_sweep": map[string]int{"apk": 512, "deb": 64, "rpm": 16, "ipk": 16, "archlinux": 16}}
		},
		Enumerate: func(env *engine.Env, yield func(any) bool) {
			ts := c01Templates()
			for _, f := range Formats {
				for _, s := range c04Settings(f) {
					if !yield(C04Case{Class: "empty", Format: f, Setting: s}) {
						return
					}
					for _, e := range ts {
						if !yield(C04Case{Class: "single", Format: f, Setting: s, List: []model.Entry{e}}) {
							return
						}
					}
				}
				for i, a := range ts[:8] {
					for _, b := range ts[i+1 : 8] {
						if !yield(C04Case{Class: "pair", Format: f, Setting: Setting{Name: "default"}, List: []model.Entry{a, b}, Scripts: true}) {
							return
						}
					}
				}
				// names
				// directories, symlinks, link targets and owner names that do not fit a plain ustar header
				for _, e := range []model.Entry{
					{Dst: "/opt/" + longName(120), Type: "dir"},
					{Dst: "/usr/share/foo/donn\u00e9es", Type: "dir"},
					{Src: "/opt/" + longName(138), Dst: "/usr/bin/longtarget", Type: "symlink"},
					{Src: "/usr/bin/t", Dst: "/opt/" + longName(130), Type: "symlink"},
					{Src: "/usr/share/donn\u00e9es/t", Dst: "/usr/bin/nonascii-target", Type: "symlink"},
					{Src: "/opt/My App/bin/tool", Dst: "/usr/bin/blank-target", Type: "symlink"},
					{Src: "/opt/a#b/back\\slash", Dst: "/usr/bin/hash-target", Type: "symlink"},
					{Src: "../rel ative/t\tab", Dst: "/usr/bin/rel-target", Type: "symlink"},
					{Src: "/opt/x", Dst: "/usr/bin/my link", Type: "symlink"},
					{Dst: "/opt/my dir/sub#dir", Type: "dir"},
					{Dst: "/etc/app/ghost.conf", Type: "ghost"},
					{Dst: "/etc/ghost-with-mode", Type: "ghost", Mode: 0o600, Owner: "app"},
					{Src: "etc/app.conf", Dst: "/opt/owner31", Owner: strings.Repeat("o", 31), Group: strings.Repeat("g", 31)},
					{Src: "etc/app.conf", Dst: "/opt/group-nonascii", Owner: "app", Group: "gr\u00fcppe"},
					{Dst: "/opt/dir-owner31", Type: "dir", Owner: strings.Repeat("o", 31), Group: strings.Repeat("g", 31)},
					{Src: "tree", Dst: "/opt/" + longName(110), Type: "tree"},
				} {
					if !yield(C04Case{Class: "long-meta", Format: f, Setting: Setting{Name: "default"}, List: []model.Entry{e}}) {
						return
					}
				}
				for _, n := range []int{99, 100, 101, 155, 156, 200, 255, 256, 260} {
					e := model.Entry{Src: "etc/app.conf", Dst: "/opt/" + longName(n)}
					if !yield(C04Case{Class: "long-name", Format: f, Setting: Setting{Name: "default"}, List: []model.Entry{e}}) {
						return
					}
					e2 := model.Entry{Src: "etc/app.conf", Dst: "/opt/" + longName(n/2) + "/" + longName(n-n/2)}
					if !yield(C04Case{Class: "long-path", Format: f, Setting: Setting{Name: "default"}, List: []model.Entry{e2}}) {
						return
					}
				}
				// top-level names that sort before ".PKGINFO" / start with odd characters
				for _, top := range []string{"+extras", ".BUILD", "-dash", "!bang", " lead", "#hash", "~tilde", ".a"} {
					e := model.Entry{Src: "etc/app.conf", Dst: "/" + top + "/payload.txt"}
					e2 := model.Entry{Src: "etc/empty", Dst: "/usr/share/x/payload.txt"}
					if !yield(C04Case{Class: "odd-top-level", Format: f, Setting: Setting{Name: "default"}, List: []model.Entry{e, e2}}) {
						return
					}
				}
				for _, nm := range []string{"with space", "ünï/cödé", "tab\there", "100%", "a=b", "-dash", "quote\"s"} {
					e := model.Entry{Src: "etc/app.conf", Dst: "/opt/" + nm}
					d := model.Entry{Dst: "/opt/d " + nm, Type: "dir"}
					if !yield(C04Case{Class: "odd-name", Format: f, Setting: Setting{Name: "default"}, List: []model.Entry{e, d}}) {
						return
					}
				}
				// one destination spelled in two ways: rejected, or else still a well-formed archive
				for _, sp := range []string{"opt/dup", "/opt//dup", "/opt/./dup", "/opt/x/../dup", "/opt/dup/"} {
					for _, second := range []model.Entry{{Src: "etc/app.conf"}, {Src: "/t", Type: "symlink"}, {Type: "dir"}, {Src: "etc/app.conf", Type: "config"}} {
						a := model.Entry{Src: "etc/empty", Dst: "/opt/dup"}
						b := second
						b.Dst = sp
						if !yield(C04Case{Class: "dup-spelling", Format: f, Setting: Setting{Name: "default"}, List: []model.Entry{a, b}}) {
							return
						}
						if !yield(C04Case{Class: "dup-spelling", Format: f, Setting: Setting{Name: "default"}, List: []model.Entry{b, a}}) {
							return
						}
					}
				}
				sweep := map[string]int{"apk": 512, "deb": 64, "rpm": 16, "ipk": 16, "archlinux": 16}[f]
				for n := 1; n <= sweep; n++ {
					if !yield(C04Case{Class: "align", Format: f, Setting: Setting{Name: "default"}, List: []model.Entry{ts[0]}, DescLen: n}) {
						return
					}
				}
			}
			// apk: last control member an exact multiple of 512
			for _, n := range []int{1, 510, 511, 512, 513, 1023, 1024, 1025, 1536} {
				for _, sign := range []string{"", "apk2048", "apk4096"} {
					if !yield(C04Case{Class: "apk-script-len", Format: "apk", Setting: Setting{Name: "default"}, List: []model.Entry{ts[0]}, Scripts: true, ScriptLen: n, Sign: sign}) {
						return
					}
				}
			}
			// signed variants
			payloads := [][]model.Entry{nil, {ts[0]}, {ts[0], ts[6]}}
			// zstd streams with payloads larger than one block / larger than the window defaults
			for _, l := range [][]model.Entry{{{Src: "share/big.bin", Dst: "/opt/big.bin"}}, {{Src: "sizes", Dst: "/opt/sizes", Type: "tree"}}, {{Src: "sizes/s1048577.bin", Dst: "/opt/a"}, {Src: "sizes/s1048576.bin", Dst: "/opt/b"}, {Src: "share/big.bin", Dst: "/opt/c"}}} {
				for _, cs := range []struct {
					f string
					s Setting
				}{{"deb", Setting{Name: "deb.compression=zstd", DebCompress: "zstd", Only: "deb"}}, {"rpm", Setting{Name: "rpm.compression=zstd", RPMCompress: "zstd", Only: "rpm"}}, {"rpm", Setting{Name: "rpm.compression=zstd:fastest", RPMCompress: "zstd:fastest", Only: "rpm"}}, {"archlinux", Setting{Name: "default"}}} {
					if !yield(C04Case{Class: "zstd-large", Format: cs.f, Setting: cs.s, List: l}) {
						return
					}
				}
			}
			// large inputs under every setting of the format: files beyond every compressor window (noise, zeros),
			// thousands of files
			for _, f := range Formats {
				for _, s := range c04Settings(f) {
					for _, l := range [][]model.Entry{{{Src: "huge/noise.bin", Dst: "/opt/noise.bin"}}, {{Src: "huge", Dst: "/opt/huge", Type: "tree"}, {Src: "etc/app.conf", Dst: "/etc/app.conf", Type: "config"}}, {{Src: "many", Dst: "/opt/many", Type: "tree"}}, {{Src: "oddnames", Dst: "/opt/odd", Type: "tree"}, {Src: "oddnames/c*", Dst: "/etc/odd", Type: "config"}}, {{Src: "hardlinks", Dst: "/opt/hl", Type: "tree"}}} {
						if !yield(C04Case{Class: "large", Format: f, Setting: s, List: l}) {
							return
						}
					}
				}
			}
			// compression names beyond the documented ones (other letter case, aliases, levels), should the tree take them:
			// the member names, magic numbers and streams must still agree
			for _, comp := range []string{"XZ", "Zstd", "ZSTD", "None", "NONE", "Gzip", "GZIP", "zst", "gz", "xz:6", "zstd:19", "gzip:9", "none:0", " xz", "xz "} {
				for _, l := range [][]model.Entry{{ts[0]}, {ts[0], ts[6]}} {
					if !yield(C04Case{Class: "candidate-compression", Format: "deb", Setting: Setting{Name: "deb.compression=" + comp, DebCompress: comp, Only: "deb"}, List: l}) {
						return
					}
					if !yield(C04Case{Class: "candidate-compression", Format: "rpm", Setting: Setting{Name: "rpm.compression=" + comp, RPMCompress: comp, Only: "rpm"}, List: l}) {
						return
					}
				}
			}
			// one-letter names at the top of the tree, the root directory itself as an entry (a file system image)
			for _, f := range Formats {
				for _, l := range [][]model.Entry{
					{{Dst: "/a", Type: "dir"}},
					{{Src: "etc/app.conf", Dst: "/a/f"}},
					{{Src: "tree", Dst: "/x", Type: "tree"}},
					{{Src: "etc/app.conf", Dst: "/a/b/c/d"}, {Src: "/t", Dst: "/l", Type: "symlink"}},
					{{Src: "rootfs", Dst: "/", Type: "tree"}},
					{{Dst: "/", Type: "dir"}, {Src: "bin/app", Dst: "/usr/bin/app"}},
				} {
					if !yield(C04Case{Class: "short-names", Format: f, Setting: Setting{Name: "default"}, List: l}) {
						return
					}
				}
			}
			// the rarely used ipk settings next to a payload that holds the alternatives' targets
			for _, f := range Formats {
				for _, l := range [][]model.Entry{{{Src: "bin/app", Dst: "/usr/bin/app"}}, {{Src: "bin/app", Dst: "/usr/bin/app"}, {Src: "etc/app.conf", Dst: "/etc/app.conf", Type: "config"}, {Dst: "/bin", Type: "dir"}}, nil} {
					if !yield(C04Case{Class: "ipk-extras", Format: f, Setting: Setting{Name: "default"}, List: l, Alts: true}) {
						return
					}
				}
			}
			// a changelog (deb ships it as a generated payload member below /usr/share/doc/<name>/, rpm in header tags)
			for _, f := range []string{"deb", "rpm"} {
				for _, l := range [][]model.Entry{nil, {ts[0]}, {{Src: "doc/README", Dst: "/usr/share/doc/pkg/README"}}, {{Dst: "/usr/share/doc", Type: "dir"}}, {{Src: "tree", Dst: "/usr/share/doc/pkg/examples", Type: "tree"}}} {
					for _, s := range c04Settings(f) {
						if !yield(C04Case{Class: "changelog", Format: f, Setting: s, List: l, Changelog: true}) {
							return
						}
					}
					for _, cf := range []string{"changelog-empty.yaml", "changelog-undated.yaml", "changelog-big.yaml"} {
						if !yield(C04Case{Class: "changelog", Format: f, Setting: Setting{Name: "default"}, List: l, Changelog: true, ChangelogFile: cf}) {
							return
						}
					}
				}
			}
			// the file the command line tool writes (to a fresh path, over an existing longer file)
			for _, f := range Formats {
				for _, cls := range []string{"cli-fresh", "cli-over-existing"} {
					for _, l := range [][]model.Entry{{ts[0]}, {ts[0], ts[4], ts[5]}, nil} {
						if !yield(C04Case{Class: cls, Format: f, Setting: Setting{Name: "default"}, List: l}) {
							return
						}
					}
				}
			}
			// every non-empty subset of the script slots of every format (control members / .INSTALL presence)
			for _, f := range Formats {
				for m := uint(1); m < 1<<uint(len(scriptSlots[f])); m++ {
					if !yield(C04Case{Class: "script-subset", Format: f, Setting: Setting{Name: "default"}, List: []model.Entry{ts[0]}, Scripts: true, ScriptMask: m}) {
						return
					}
				}
			}
			for _, pl := range payloads {
				for _, sign := range []string{"debsign", "dpkg-sig"} {
					for _, s := range c04Settings("deb") {
						if !yield(C04Case{Class: "signed", Format: "deb", Setting: s, List: pl, Sign: sign}) {
							return
						}
					}
				}
				for _, s := range c04Settings("rpm") {
					if !yield(C04Case{Class: "signed", Format: "rpm", Setting: s, List: pl, Sign: "rpm", Scripts: true}) {
						return
					}
				}
				for _, sign := range []string{"apk2048", "apk4096"} {
					for _, sc := range []bool{false, true} {
						if !yield(C04Case{Class: "signed", Format: "apk", Setting: Setting{Name: "default"}, List: pl, Sign: sign, Scripts: sc}) {
							return
						}
					}
				}
			}
			if env.Thorough() {
				for _, f := range Formats {
					for _, s := range c04Settings(f) {
						for i, a := range ts {
							for _, b := range ts[i+1:] {
								if !yield(C04Case{Class: "pair", Format: f, Setting: s, List: []model.Entry{a, b}}) {
									return
								}
							}
						}
					}
				}
			}
		},
		Check: checkC04,
	})
}

func c04Doc(env *engine.Env, c C04Case) (fixture.Doc, error) {
	t := tree(env)
	d := c.Setting.doc(c.List, t.Root)
	if c.DescLen > 0 {
		d["description"] = strings.Repeat("d", c.DescLen)
	}
	if c.Scripts {
		if err := writeScripts(t, c.Format, "normal"); err != nil {
			return nil, err
		}
		for i, s := range scriptSlots[c.Format] {
			if c.ScriptMask == 0 || c.ScriptMask&(1<<uint(i)) != 0 {
				setPath(d, s.Key, scriptPath(t, "normal", s.Key))
			}
		}
		if c.ScriptLen > 0 {
			// .pre-upgrade sorts last among the apk control members
			p := scriptPath(t, "normal", "apk.scripts.preupgrade")
			if err := os.WriteFile(p, bytes.Repeat([]byte("#"), c.ScriptLen), 0o755); err != nil {
				return nil, err
			}
			os.Chtimes(p, fixture.T0, fixture.T0)
		}
	}
	if c.Sign != "" {
		signDoc(env, d, c.Format, c.Sign)
	}
	if c.Changelog {
		d["changelog"] = t.P("changelog.yaml")
		if c.ChangelogFile != "" {
			d["changelog"] = t.P(c.ChangelogFile)
		}
	}
	if c.Alts {
		d["ipk"] = map[string]any{"alternatives": []any{
			map[string]any{"priority": 200, "target": "/usr/bin/app", "link_name": "/bin/vi"},
			map[string]any{"priority": 100, "target": "/usr/bin/app", "link_name": "/usr/local/bin/editor"},
			map[string]any{"priority": 50, "target": "/bin/busybox", "link_name": "/bin/vi"},
		}, "tags": []any{"t1"}, "abi_version": "1", "auto_installed": true, "essential": true, "fields": map[string]any{"X-A": "b"}}
	}
	return d, nil
}

// c04ViaCLI packages through the nfpm binary built from the tree and returns the bytes found at the target path.
func c04ViaCLI(env *engine.Env, text, f string, overExisting bool) ([]byte, error) {
	bin, err := nfpmBinary(env)
	if err != nil {
		return nil, err
	}
	work, err := os.MkdirTemp(env.Scratch, "c04cli-")
	if err != nil {
		return nil, err
	}
	defer os.RemoveAll(work)
	cp, target := filepath.Join(work, "nfpm.yaml"), filepath.Join(work, "out"+extOf[f])
	os.WriteFile(cp, []byte(text), 0o644)
	if overExisting {
		os.WriteFile(target, bytes.Repeat([]byte("stale bytes of an earlier, larger package\n"), 24000), 0o644)
	}
	cmd := exec.Command(bin, "package", "-f", cp, "-p", f, "-t", target)
	cmd.Dir = work
	if o, err := cmd.CombinedOutput(); err != nil {
		return nil, fmt.Errorf("nfpm package: %v: %s", err, o)
	}
	return os.ReadFile(target)
}

func checkC04(env *engine.Env, ci any) engine.Outcome {
	c := ci.(C04Case)
	t := tree(env)
	var out engine.Outcome
	f := c.Format
	viol := func(sig, format string, a ...any) {
		out.Violations = append(out.Violations, engine.Violation{Sig: sig,
			Detail: fmt.Sprintf("format=%s class=%s setting=%s sign=%q scripts=%v desc_len=%d script_len=%d list=%s\n", f, c.Class, c.Setting.Name, c.Sign, c.Scripts, c.DescLen, c.ScriptLen, descList(c.List)) + fmt.Sprintf(format, a...)})
	}
	// the property quantifies over every configuration the packagers accept: a
	// list the reference planner rejects is judged too whenever a package comes out
	want := model.Plan(c.List, f, c.Setting.umask(), c.Setting.pkgMTime(), c.Setting.NoGlob, t)
	d, err := c04Doc(env, c)
	if err != nil {
		out.HarnessError = err.Error()
		return out
	}
	var data []byte
	if strings.HasPrefix(c.Class, "cli-") {
		// the file the command line tool leaves at the target path is judged (fresh path / over an existing longer file)
		data, err = c04ViaCLI(env, d.YAML(), f, c.Class == "cli-over-existing")
	} else {
		data, err = buildYAML(d.YAML(), f)
	}
	if err != nil {
		if want.Unclear != "" || want.Collision || want.OtherErr != "" {
			out.Key = "rejected-config"
			return out
		}
		if c.Class == "candidate-compression" {
			out.Key = "candidate-compression:" + c.Setting.Name + ":refused"
			return out // a compression name this tree does not take: nothing to judge
		}
		viol("wellformed:build-error:"+f+":"+c.Class, "valid configuration, packaging failed: %v", err)
		return out
	}
	pkg, err := pkgread.Decode(f, data, env.Tools)
	if err != nil {
		if strings.Contains(err.Error(), pkgread.ErrNoDecoder.Error()) {
			out.HarnessError = "no decoder for " + c.Setting.Name
			return out
		}
		viol("wellformed:unreadable:"+f, "the package cannot be read end to end: %v", err)
		return out
	}
	out.Nontrivial = true
	for _, p := range pkg.Problems {
		cls, _, _ := strings.Cut(p, ":")
		viol("wellformed:"+cls+":"+f, "%s", p)
	}
	var layout []string
	switch f {
	case "deb":
		for _, m := range pkg.Ar {
			layout = append(layout, m.Name)
		}
		if (c.Sign != "") != (pkg.SigName != "") {
			viol("wellformed:deb-signature-member:deb", "signing=%q but signature member is %q", c.Sign, pkg.SigName)
		}
		secondOpinionDeb(env, data, pkg, viol)
	case "ipk":
		layout = append(layout, fmt.Sprintf("members=%d", len(pkg.OuterTar)))
		secondOpinionTar(env, data, "ipk", []string{"./debian-binary", "./control.tar.gz", "./data.tar.gz"}, viol)
	case "apk":
		layout = append(layout, fmt.Sprintf("gz=%d ctl=%d", len(pkg.GzMembers), len(pkg.ControlTar)))
		if (c.Sign != "") != (len(pkg.GzMembers) == 3) {
			viol("wellformed:apk-signature-segment:apk", "signing=%q but the stream has %d gzip members", c.Sign, len(pkg.GzMembers))
		}
		var names []string
		if pkg.SigName != "" {
			names = append(names, pkg.SigName)
		}
		for _, e := range pkg.ControlTar {
			names = append(names, e.Name)
		}
		for _, e := range pkg.DataTar {
			names = append(names, e.Name)
		}
		secondOpinionTar(env, data, "apk", names, viol)
	case "archlinux":
		var names []string
		for _, e := range pkg.OuterTar {
			names = append(names, e.Name)
		}
		layout = append(layout, fmt.Sprintf("install=%v", pkg.InstallRaw != nil))
		if c.Scripts != (pkg.InstallRaw != nil) {
			viol("wellformed:arch-install-presence:archlinux", ".INSTALL present=%v, scripts configured=%v", pkg.InstallRaw != nil, c.Scripts)
		}
		// order: payload, .PKGINFO, .MTREE, [.INSTALL]
		n := len(names)
		tail := []string{".PKGINFO", ".MTREE"}
		if c.Scripts {
			tail = append(tail, ".INSTALL")
		}
		if n < len(tail) || strings.Join(names[n-len(tail):], " ") != strings.Join(tail, " ") {
			viol("wellformed:arch-member-order:archlinux", "archive ends with %v, expected %v", names[max(0, n-3):], tail)
		}
		if len(pkg.Mtree) == 0 || pkg.Mtree[0].Path != "./.PKGINFO" {
			viol("wellformed:arch-mtree-first:archlinux", ".MTREE does not list .PKGINFO first")
		}
		secondOpinionBsdtar(env, data, names, viol)
	case "rpm":
		r := pkg.RPM
		layout = append(layout, fmt.Sprintf("sigpad=%d files=%d cpio=%d", r.SigPad, len(r.Files), len(r.Cpio)))
		if !r.CpioTrailer {
			viol("wellformed:rpm-cpio-trailer:rpm", "cpio payload has no TRAILER!!! entry")
		}
		if r.Hdr.Start%8 != 0 {
			viol("wellformed:rpm-header-alignment:rpm", "header starts at offset %d, not 8-byte aligned", r.Hdr.Start)
		}
		var hdrNames []string
		for _, fl := range r.Files {
			if fl.Flags&64 == 0 {
				hdrNames = append(hdrNames, fl.Name)
			}
		}
		all := make([]string, 0, len(r.Files))
		for _, fl := range r.Files {
			all = append(all, fl.Name)
		}
		if !sort.StringsAreSorted(all) {
			viol("wellformed:rpm-file-order:rpm", "header file list is not sorted: %v", all)
		}
		var cpNames []string
		for _, e := range r.Cpio {
			cpNames = append(cpNames, "/"+strings.TrimPrefix(strings.TrimPrefix(e.Name, "."), "/"))
		}
		if strings.Join(cpNames, "\n") != strings.Join(hdrNames, "\n") {
			viol("wellformed:rpm-cpio-correspondence:rpm", "cpio entries %v do not correspond one-to-one and in order to the header file list minus ghosts %v", cpNames, hdrNames)
		}
		if got := r.Hdr.Str(1124); got != "cpio" {
			viol("wellformed:rpm-payload-format:rpm", "PAYLOADFORMAT %q", got)
		}
		wantComp := "gzip"
		if c.Setting.RPMCompress != "" {
			wantComp, _, _ = strings.Cut(c.Setting.RPMCompress, ":")
		}
		if got := pkgread.SniffCompression(r.Payload); got != wantComp || r.Compressor != wantComp {
			viol("wellformed:rpm-compressor:rpm", "PAYLOADCOMPRESSOR %q, payload stream is %s, configured %s", r.Compressor, got, wantComp)
		}
		if (c.Sign != "") != (r.Sig.Has(268) && r.Sig.Has(1002)) {
			viol("wellformed:rpm-signature-tags:rpm", "signing=%q but RSAHEADER present=%v PGP present=%v", c.Sign, r.Sig.Has(268), r.Sig.Has(1002))
		}
		secondOpinionRPM(data, r, viol)
	}
	sort.Strings(layout)
	out.Key = f + ":" + c.Class + ":" + c.Setting.Name + ":" + c.Sign + ":" + strings.Join(layout, ",") + fmt.Sprintf(":n=%d", len(pkg.Entries))
	return out
}

func runTool(path string, stdin []byte, args ...string) (string, error) {
	cmd := exec.Command(path, args...)
	cmd.Stdin = bytes.NewReader(stdin)
	var o, e bytes.Buffer
	cmd.Stdout, cmd.Stderr = &o, &e
	cmd.Env = append(os.Environ(), "LC_ALL=C", "TZ=UTC", "GNUPGHOME="+gnupgHome())
	if err := cmd.Run(); err != nil {
		return o.String(), fmt.Errorf("%v: %s", err, strings.TrimSpace(e.String()))
	}
	return o.String(), nil
}

// gnupgHome gives gpgv a private, pre-created home directory (several workers
// creating ~/.gnupg at the same time make gpgv fail sporadically).
var gnupgHomeDir string

func gnupgHome() string {
	if gnupgHomeDir == "" {
		// below the process's scratch directory, which the run removes
		d, err := os.MkdirTemp(engine.ProcScratch, "verif-gnupg-")
		if err != nil {
			return os.TempDir()
		}
		os.Chmod(d, 0o700)
		gnupgHomeDir = d
	}
	return gnupgHomeDir
}

func tmpFile(env *engine.Env, name string, data []byte) (string, func()) {
	p := filepath.Join(env.Scratch, name)
	os.WriteFile(p, data, 0o644)
	return p, func() { os.Remove(p) }
}

func secondOpinionDeb(env *engine.Env, data []byte, pkg *pkgread.Pkg, viol func(sig, format string, a ...any)) {
	dpkg := env.Tool("dpkg-deb")
	if dpkg == "" {
		return
	}
	p, rm := tmpFile(env, "c04.deb", data)
	defer rm()
	if _, err := runTool(dpkg, nil, "-I", p); err != nil {
		viol("wellformed:dpkg-deb-rejects:deb", "dpkg-deb -I rejects the package: %v", err)
		return
	}
	if pkg.DataName == "data.tar.zst" {
		// dpkg-deb in this image may predate zstd support: only -I is asked
		if _, err := runTool(dpkg, nil, "-c", p); err != nil && !strings.Contains(err.Error(), "unknown compression") && !strings.Contains(err.Error(), "zst") {
			viol("wellformed:dpkg-deb-rejects:deb", "dpkg-deb -c rejects the package: %v", err)
		}
		return
	}
	outp, err := runTool(dpkg, nil, "-c", p)
	if err != nil {
		viol("wellformed:dpkg-deb-rejects:deb", "dpkg-deb -c rejects the package: %v", err)
		return
	}
	if n := strings.Count(outp, "\n"); n != len(pkg.DataTar) {
		viol("wellformed:dpkg-deb-disagrees:deb", "dpkg-deb -c lists %d members, the harness reader found %d", n, len(pkg.DataTar))
	}
	if ar := env.Tool("ar"); ar != "" {
		outp, err := runTool(ar, nil, "t", p)
		if err != nil {
			viol("wellformed:ar-rejects:deb", "ar t rejects the package: %v", err)
		} else {
			var names []string
			for _, m := range pkg.Ar {
				names = append(names, m.Name)
			}
			if strings.TrimSpace(outp) != strings.Join(names, "\n") {
				viol("wellformed:ar-disagrees:deb", "ar t lists %q, harness reader found %v", strings.TrimSpace(outp), names)
			}
		}
	}
}

func secondOpinionTar(env *engine.Env, data []byte, what string, wantNames []string, viol func(sig, format string, a ...any)) {
	tarp := env.Tool("tar")
	if tarp == "" {
		return
	}
	outp, err := runTool(tarp, data, "--quoting-style=literal", "-tzf", "-")
	if err != nil {
		viol("wellformed:tar-rejects:"+what, "GNU tar -tzf rejects the %s stream: %v", what, err)
		return
	}
	got := strings.Split(strings.TrimSuffix(outp, "\n"), "\n")
	if strings.Join(got, "\n") != strings.Join(wantNames, "\n") {
		viol("wellformed:tar-disagrees:"+what, "GNU tar lists %q, harness reader found %q", got, wantNames)
	}
}

func secondOpinionBsdtar(env *engine.Env, data []byte, wantNames []string, viol func(sig, format string, a ...any)) {
	bt := env.Tool("bsdtar")
	if bt == "" {
		return
	}
	cmd := exec.Command(bt, "-tf", "-")
	cmd.Stdin = bytes.NewReader(data)
	cmd.Env = append(os.Environ(), "LC_ALL=C.UTF-8")
	var o, e bytes.Buffer
	cmd.Stdout, cmd.Stderr = &o, &e
	if err := cmd.Run(); err != nil {
		// one narrow class of its own: the only complaint is that a member name is not UTF-8 (a name found on disk that
		// way), which a pax path record must be
		nonUTF8 := false
		for _, n := range wantNames {
			if !utf8.ValidString(n) {
				nonUTF8 = true
			}
		}
		onlyConv := true
		for _, l := range strings.Split(strings.TrimSpace(e.String()), "\n") {
			if !strings.Contains(l, "Pathname can't be converted from UTF-8 to current locale") && !strings.Contains(l, "Error exit delayed from previous errors") {
				onlyConv = false
			}
		}
		if nonUTF8 && onlyConv {
			viol("wellformed:bsdtar-rejects:archlinux:name-not-utf8", "bsdtar -tf complains about a member name that is not UTF-8 (as found on disk): %s", e.String())
			return
		}
		viol("wellformed:bsdtar-rejects:archlinux", "bsdtar -tf rejects the package: %v: %s", err, e.String())
		return
	}
	if n := strings.Count(o.String(), "\n"); n != len(wantNames) {
		viol("wellformed:bsdtar-disagrees:archlinux", "bsdtar lists %d members, harness reader found %d", n, len(wantNames))
	}
}

func secondOpinionRPM(data []byte, r *pkgread.RPM, viol func(sig, format string, a ...any)) {
	rp, err := rpmutils.ReadRpm(bytes.NewReader(data))
	if err != nil {
		viol("wellformed:rpmutils-rejects:rpm", "go-rpmutils cannot read the package: %v", err)
		return
	}
	fs, err := rp.Header.GetFiles()
	if err != nil {
		viol("wellformed:rpmutils-rejects:rpm", "go-rpmutils cannot read the file list: %v", err)
		return
	}
	if len(fs) != len(r.Files) {
		viol("wellformed:rpmutils-disagrees:rpm", "go-rpmutils sees %d files, harness reader %d", len(fs), len(r.Files))
	}
	pr, err := rp.PayloadReaderExtended()
	if err != nil {
		viol("wellformed:rpmutils-rejects:rpm", "go-rpmutils cannot open the payload: %v", err)
		return
	}
	n := 0
	for {
		fi, err := pr.Next()
		if err == io.EOF {
			break
		}
		if err != nil {
			viol("wellformed:rpmutils-rejects:rpm", "go-rpmutils payload walk fails after %d entries: %v", n, err)
			return
		}
		_ = fi
		io.Copy(io.Discard, pr)
		n++
	}
	if n != len(r.Cpio) {
		viol("wellformed:rpmutils-disagrees:rpm", "go-rpmutils walks %d payload entries, harness reader %d", n, len(r.Cpio))
	}
}
