package props

import (
	"errors"
	"fmt"
	"os"
	"path"
	"path/filepath"
	"sort"
	"strings"

	"verif/mc/engine"
	"verif/mc/fixture"
	"verif/mc/model"
	"verif/mc/pkgread"

	"github.com/goreleaser/nfpm/v2/files"
)

// C05Case is one content list prepared for one packager.
type C05Case struct {
	Part     string        `json:"part"`
	Packager string        `json:"packager"`
	List     []model.Entry `json:"list"`
	// Cwd / Spelling: the working directory (fixture relative) and the literal source spelling handed to the planner
	// for the first entry (the reference planner works with List[0].Src, which names the same directory)
	Cwd      string `json:"cwd,omitempty"`
	Spelling string `json:"spelling,omitempty"`
}

type c05Tmpl struct {
	name string
	e    model.Entry
}

func c05Templates(reduced bool) []c05Tmpl {
	all := []c05Tmpl{
		{"file", model.Entry{Src: "etc/app.conf"}},
		{"dir", model.Entry{Type: "dir"}},
		{"symlink", model.Entry{Src: "/target", Type: "symlink"}},
		{"tree", model.Entry{Src: "tree", Type: "tree"}},
		{"ghost", model.Entry{Type: "ghost"}},
		{"glob", model.Entry{Src: "etc/conf.d/*.conf"}},
		{"config", model.Entry{Src: "etc/app.conf", Type: "config"}},
		{"dirsrc", model.Entry{Src: "etc/conf.d"}},
		{"globsib", model.Entry{Src: "etc/con*/*.conf", Type: "config|noreplace"}},
		{"doc", model.Entry{Src: "doc/manual.txt", Type: "doc"}},
		{"disklink", model.Entry{Src: "link"}},
		{"missingok", model.Entry{Src: "etc/empty", Type: "config|missingok"}},
		{"readme", model.Entry{Src: "doc/README", Type: "readme"}},
		{"treelinks", model.Entry{Src: "links", Type: "tree"}},
	}
	if reduced {
		return all[:6]
	}
	return all
}

func c05Universe(reduced bool) []model.Entry {
	dsts := []string{"/a", "/a/", "/a/b", "/a/b/c", "/c", "a", "//a//b/", "/a/./b", "/a/x/../b", "/", "/a/b/c/d", "b/", "/c/d", "/a/."}
	tags := []string{"", "deb", "rpm"}
	if reduced {
		dsts = []string{"/a", "/a/", "/a/b", "/c", "a", "/a/x/../b"}
		tags = []string{"", "rpm"}
	}
	var u []model.Entry
	for _, t := range c05Templates(reduced) {
		for _, d := range dsts {
			for _, tag := range tags {
				e := t.e
				e.Dst = d
				e.Packager = tag
				u = append(u, e)
			}
		}
	}
	return u
}

func c05DstStrings(maxLen int) []string {
	alpha := []byte{'a', '/', '.', 'b'}
	var out []string
	var rec func(prefix []byte)
	rec = func(prefix []byte) {
		if len(prefix) > 0 {
			out = append(out, string(prefix))
		}
		if len(prefix) == maxLen {
			return
		}
		for _, c := range alpha {
			rec(append(append([]byte{}, prefix...), c))
		}
	}
	rec(nil)
	sort.SliceStable(out, func(i, j int) bool { return len(out[i]) < len(out[j]) })
	return out
}

func init() {
	engine.Register(&engine.Prop{
		ID:    "C05",
		Level: "model_checking",
		Rule: "every content list of length <=2 (thorough: <=3 over a reduced universe) over destinations x entry kinds x packager tags, prepared for each packager, " +
			"plus every destination string up to length 6 (thorough 8) over {a,b,/,.}; tree-overlap: a tree at 7 spellings of its destination x an entry of 6 kinds at 10 paths at/inside the tree, both orders; siblings: every ordered triple over 7 destinations that sort between a path and its children x {file, dir, symlink, tree}; reprepare: a plan prepared for all packagers prepared again for one; run on files.PrepareForPackager and compared with the reference planner; part maporder: every list of <=2 entries over the reduced universe under every map iteration order (woven copy); " +
			"a case is non-trivial when the list has >=1 relevant entry; distinct = distinct (outcome class, planned destination/kind/source set)",
		Assumptions: []string{
			"reference planner model/plan.go states the documented denotation",
			"hash-map iteration order: part maporder runs the planner on the woven copy under every key order of every map range (all permutations for <=4 keys, else sorted/reversed/rotations) within 1 (thorough 2) deviating ranges",
		},
		Setup:  setupTree,
		Decode: decodeInto[C05Case],
		Bounds: func(env *engine.Env) map[string]any {
			return map[string]any{"universe_entries": len(c05Universe(false)), "reduced_universe_entries": len(c05Universe(true)),
				"max_list_len": map[string]int{"quick": 2, "thorough": 3}, "packagers": []string{"", "deb", "rpm", "apk"}, "dst_alphabet": "a b / .", "dst_max_len": c05MaxLen(env)}
		},
		Enumerate: func(env *engine.Env, yield func(any) bool) {
			pk := []string{"deb", "rpm", "apk", ""}
			u := c05Universe(false)
			// length 1
			for _, e := range u {
				for _, p := range pk {
					if !yield(C05Case{Part: "lists", Packager: p, List: []model.Entry{e}}) {
						return
					}
				}
			}
			// destination spellings
			spell := []model.Entry{{Src: "etc/app.conf"}, {Type: "dir"}, {Src: "/t", Type: "symlink"}, {Src: "etc/conf.d/*.conf"}, {Src: "tree", Type: "tree"}}
			for _, d := range c05DstStrings(c05MaxLen(env)) {
				for _, t := range spell {
					e := t
					e.Dst = d
					if !yield(C05Case{Part: "dst", Packager: "deb", List: []model.Entry{e}}) {
						return
					}
				}
			}
			// length 2
			for _, a := range u {
				for _, b := range u {
					for _, p := range pk {
						if !yield(C05Case{Part: "lists", Packager: p, List: []model.Entry{a, b}}) {
							return
						}
					}
				}
			}
			// a plan prepared for all packagers, prepared again for one packager (what the packagers do with
			// info.Contents after Validate / a first Package): same plan as preparing the list directly
			for _, a := range c05Universe(true) {
				for _, b := range c05Universe(true) {
					for _, p := range []string{"deb", "rpm", "apk"} {
						// the members of an expanded tree do not carry the tree's packager tag: a tagged
						// tree is outside this part (its meaning after expansion is not documented)
						if (a.Type == "tree" && a.Packager != "") || (b.Type == "tree" && b.Packager != "") {
							continue
						}
						if !yield(C05Case{Part: "reprepare", Packager: p, List: []model.Entry{a, b}}) {
							return
						}
					}
				}
			}
			// siblings: destinations that sort between a path and its children ('.', '-', ' ', '!' < '/'), so that a path,
			// its look-alike siblings and something beneath it are not neighbours in the sorted plan: every ordered triple
			sibD := []string{"/a/b", "/a/b.x", "/a/b-x", "/a/b/c", "/a/b x", "/a/bb", "/a/b!/c", "/a/b\\c"}
			sibT := []model.Entry{{Src: "etc/app.conf"}, {Type: "dir"}, {Src: "/t", Type: "symlink"}, {Src: "tree", Type: "tree"}}
			var sib []model.Entry
			for _, t := range sibT {
				for _, d := range sibD {
					e := t
					e.Dst = d
					sib = append(sib, e)
				}
			}
			for _, a := range sib {
				for _, b := range sib {
					for _, c := range sib {
						for _, p := range []string{"deb", "rpm"} {
							if !yield(C05Case{Part: "siblings", Packager: p, List: []model.Entry{a, b, c}}) {
								return
							}
						}
					}
				}
			}
			// tree-overlap: a tree next to an entry that lies at or inside one of the tree's own paths, every spelling of the
			// tree's destination, both orders
			treeD := []string{"/a", "a", "/a/", "./a", "//a", "/a/.", "/b/../a"}
			inD := []string{"/a/x", "/a/sub", "/a/sub/y", "/a/emptydir", "/a/sub/l", "a/x", "/a/new", "/a", "/a/sub/", "/a/x/deeper"}
			inT := []model.Entry{{Src: "etc/app.conf"}, {Type: "dir"}, {Src: "/t", Type: "symlink"}, {Type: "ghost"}, {Src: "etc/app.conf", Type: "config"}, {Src: "tree/sub", Type: "tree"}}
			for _, td := range treeD {
				tr := model.Entry{Src: "tree", Dst: td, Type: "tree"}
				for _, d := range inD {
					for _, t := range inT {
						e := t
						e.Dst = d
						for _, p := range []string{"deb", "rpm"} {
							if !yield(C05Case{Part: "tree-overlap", Packager: p, List: []model.Entry{tr, e}}) {
								return
							}
							if !yield(C05Case{Part: "tree-overlap", Packager: p, List: []model.Entry{e, tr}}) {
								return
							}
						}
					}
				}
			}
			// sources spelled relative to the working directory, incl. the working directory itself (dot files keep their dot)
			for _, sp := range []struct{ cwd, spelling, src string }{
				{"dots", ".", "dots"}, {"dots", "./", "dots"}, {"dots", "../dots", "dots"}, {"dots", "./.", "dots"}, {"dots/sub", "..", "dots"},
				{"", "dots", "dots"}, {"", "./dots/", "dots"}, {"dots", ".config", "dots/.config"}, {"dots", "./.config/", "dots/.config"}, {"dots/.config", ".", "dots/.config"},
				// glob patterns relative to the working directory whose matches start with a dot / have no common directory
				{"dots", ".e*", "dots/.e*"}, {"dots", "./.e*", "dots/.e*"}, {"dots", "*nv", "dots/*nv"}, {"dots", ".*/settings", "dots/.*/settings"}, {"dots", "s*/.keep", "dots/s*/.keep"},
				{"dots", ".env", "dots/.env"}, {"dots", "./.env", "dots/.env"}, {"dots", "..data", "dots/..data"}, {"dots/sub", "../.env", "dots/.env"},
			} {
				for _, typ := range []string{"tree", ""} {
					if typ == "" && strings.Trim(sp.spelling, "./") == "" {
						continue // the working directory itself as a plain (globbed) source has no documented meaning
					}
					if typ == "tree" && (strings.ContainsAny(sp.spelling, "*") || strings.HasSuffix(sp.src, "env") || strings.HasSuffix(sp.src, "data")) {
						continue // not directories
					}
					for _, dst := range []string{"/opt/app", "/opt/app/", "/"} {
						for _, p := range []string{"deb", "rpm"} {
							e := model.Entry{Src: sp.src, Dst: dst, Type: typ}
							if !yield(C05Case{Part: "cwd", Packager: p, List: []model.Entry{e}, Cwd: sp.cwd, Spelling: sp.spelling}) {
								return
							}
							if !yield(C05Case{Part: "cwd", Packager: p, List: []model.Entry{e, {Src: "etc/app.conf", Dst: "/opt/app/env2"}}, Cwd: sp.cwd, Spelling: sp.spelling}) {
								return
							}
						}
					}
				}
			}
			// the deb changelog entry next to a content entry at the changelog's own path: an entry addressed to another
			// packager does not touch it, an entry that deb itself ships there collides with it
			for _, tag := range []string{"rpm", "apk", "ipk", "archlinux", "", "deb"} {
				for _, typ := range []string{"", "config", "dir", "symlink", "ghost", "doc"} {
					for _, sp := range []string{"/usr/share/doc/pkg/changelog.Debian.gz", "usr/share/doc/pkg/changelog.Debian.gz", "/usr/share/doc/pkg/./changelog.Debian.gz"} {
						e := c08Entry(typ, tag, 1, false)
						e.Dst = sp
						if !yield(C05Case{Part: "changelog", Packager: "deb", List: []model.Entry{e}}) {
							return
						}
					}
				}
			}
			// the same with a root file system image at "/" (and at /usr): most of its directories belong to the filesystem
			// package - implied rather than claimed; only an explicitly declared directory may take their place
			for _, tr := range []model.Entry{{Src: "rootfs", Dst: "/", Type: "tree"}, {Src: "rootfs/usr", Dst: "/usr", Type: "tree"}, {Src: "rootfs/etc", Dst: "/etc/", Type: "tree", Owner: "app"}} {
				for _, d := range []string{"/etc", "/usr", "/usr/share", "/usr/bin", "/etc/app", "/etc/logrotate.d", "/usr/share/licenses/logrotate", "/opt", "/opt/x", "/usr/bin/tool", "/etc/app/app.conf", "/var/lib/logrotate", "/mnt"} {
					for _, t := range inT {
						e := t
						e.Dst = d
						for _, p := range []string{"deb", "rpm"} {
							if !yield(C05Case{Part: "tree-overlap", Packager: p, List: []model.Entry{tr, e}}) {
								return
							}
							if !yield(C05Case{Part: "tree-overlap", Packager: p, List: []model.Entry{e, tr}}) {
								return
							}
						}
					}
				}
			}
			// destinations with backslashes (an ordinary character here) next to "." and ".." components; globs whose
			// literal leading directory lies above the deepest directory all matches share
			for _, p := range pk {
				for _, d := range []string{`/usr\..\etc/x`, `/a\..\b`, `/a/..\b/c`, `/a\/b`, `a\b\..`, `/zzz\..\current`, `\a`, `/a/\../b`} {
					for _, t := range c05Templates(true) {
						e := t.e
						e.Dst = d
						if !yield(C05Case{Part: "backslash", Packager: p, List: []model.Entry{e}}) {
							return
						}
						if !yield(C05Case{Part: "backslash", Packager: p, List: []model.Entry{e, {Src: "etc/app.conf", Dst: "/etc/x"}, {Src: "etc/app.conf", Dst: "/b/c"}}}) {
							return
						}
					}
				}
				for _, g := range []string{"etc/*/main.conf", "etc/**/main.conf", "tree/*/y", "deep/l0/**/bottom", "samename/*/only-arm64", "many/d0?/f000", "rootfs/*/share/licenses/*/COPYING"} {
					for _, dst := range []string{"/dst", "/dst/"} {
						if !yield(C05Case{Part: "glob-base", Packager: p, List: []model.Entry{{Src: g, Dst: dst}}}) {
							return
						}
					}
				}
			}
			// every spelling of the root directory as the destination of an entry that is not a directory, with an entry
			// beneath it (both orders); packager tags that differ from a packager's name in letter case or by a blank (such
			// an entry is addressed to nobody)
			for _, p := range pk {
				for _, sp := range []string{"/", "", ".", "..", "/.", "//", "/a/..", "./", "/./."} {
					for _, t := range c05Templates(false) {
						e := t.e
						e.Dst = sp
						below := model.Entry{Src: "etc/app.conf", Dst: "/a/x"}
						if !yield(C05Case{Part: "root-spellings", Packager: p, List: []model.Entry{e, below}}) {
							return
						}
						if !yield(C05Case{Part: "root-spellings", Packager: p, List: []model.Entry{below, e}}) {
							return
						}
					}
				}
				for _, tag := range []string{"DEB", "Deb", "Rpm", "RPM", "apk ", " deb", "deb ", "APK", "IPK", "ArchLinux"} {
					for _, t := range c05Templates(false) {
						e := t.e
						e.Dst, e.Packager = "/opt/tagged", tag
						if !yield(C05Case{Part: "odd-tags", Packager: p, List: []model.Entry{e}}) {
							return
						}
						if !yield(C05Case{Part: "odd-tags", Packager: p, List: []model.Entry{e, {Src: "etc/app.conf", Dst: "/opt/tagged"}}}) {
							return
						}
					}
				}
			}
			// large shapes: a directory of 1500 files, 2000 files in 20 directories, a chain of 40 directories (as source
			// and as destination), same-named files of sibling directories sent to one directory
			deepDst := "/srv"
			for l := 0; l < 45; l++ {
				deepDst += fmt.Sprintf("/n%d", l)
			}
			for _, p := range pk {
				for _, l := range [][]model.Entry{
					{{Src: "wide", Dst: "/opt/wide", Type: "tree"}},
					{{Src: "wide/", Dst: "/opt/wide"}},
					{{Src: "wide/w1*", Dst: "/opt/wide"}},
					{{Src: "many", Dst: "/opt/many", Type: "tree"}},
					{{Src: "many/*/f09?", Dst: "/opt/many"}},
					{{Src: "deep", Dst: "/opt/deep", Type: "tree"}},
					{{Src: "deep/", Dst: "/opt/deep"}},
					{{Src: fixture.DeepPath(fixture.DeepLevels) + "/bottom", Dst: deepDst + "/bottom"}},
					{{Dst: deepDst, Type: "dir"}},
					{{Src: "/t", Dst: deepDst + "/link", Type: "symlink"}},
					{{Src: "deep", Dst: deepDst, Type: "tree"}},
					{{Src: "samename/*/libfoo.so", Dst: "/usr/lib/"}},
					{{Src: "samename/*/libfoo.so", Dst: "/usr/lib"}},
					{{Src: "samename/*/*", Dst: "/usr/lib/"}},
					{{Src: "samename/", Dst: "/usr/lib/"}},
					{{Src: "samename", Dst: "/usr/lib/", Type: "tree"}},
					{{Src: "samename/amd64/libfoo.so", Dst: "/usr/lib/"}, {Src: "samename/arm64/libfoo.so", Dst: "/usr/lib/"}},
					{{Src: "samename/amd64/", Dst: "/usr/lib/"}, {Src: "samename/arm64/", Dst: "/usr/lib/"}},
					{{Src: "samename/amd64", Dst: "/usr/lib/", Type: "tree"}, {Src: "samename/arm64", Dst: "/usr/lib", Type: "tree"}},
				} {
					if !yield(C05Case{Part: "large", Packager: p, List: l}) {
						return
					}
				}
			}
			// map-order seam (woven copy): every list of <=2 entries over the reduced universe under
			// every order of every map iteration of the planner
			// every entry kind alone (the sibling-directory glob, trees with links, ...), then pairs over the reduced universe
			for _, p := range []string{"deb", "rpm"} {
				for _, t := range c05Templates(false) {
					for _, d := range []string{"/a", "/a/", "/a/b", "a"} {
						e := t.e
						e.Dst = d
						if !yield(C05Case{Part: "maporder", Packager: p, List: []model.Entry{e}}) {
							return
						}
						if !yield(C05Case{Part: "maporder", Packager: p, List: []model.Entry{e, {Src: "etc/app.conf", Dst: "/c"}}}) {
							return
						}
					}
				}
			}
			ru := c05Universe(true)
			for _, p := range []string{"deb", "rpm"} {
				for _, a := range ru {
					if !yield(C05Case{Part: "maporder", Packager: p, List: []model.Entry{a}}) {
						return
					}
					for _, b := range ru {
						if !yield(C05Case{Part: "maporder", Packager: p, List: []model.Entry{a, b}}) {
							return
						}
					}
				}
			}
			if env.Thorough() {
				r := c05Universe(true)
				for _, a := range r {
					for _, b := range r {
						for _, c := range r {
							for _, p := range pk {
								if !yield(C05Case{Part: "lists3", Packager: p, List: []model.Entry{a, b, c}}) {
									return
								}
							}
						}
					}
				}
			}
		},
		Check: checkC05,
	})
}

// checkC05Changelog builds a deb with a changelog and one content entry at the changelog's path.
func checkC05Changelog(env *engine.Env, c C05Case) engine.Outcome {
	t := tree(env)
	var out engine.Outcome
	out.Nontrivial = true
	e := c.List[0]
	d := Setting{Name: "default"}.doc(c.List, t.Root)
	d["changelog"] = filepath.Join(t.Root, "changelog.yaml")
	viol := func(sig, format string, a ...any) {
		out.Violations = append(out.Violations, engine.Violation{Sig: sig, Detail: fmt.Sprintf("deb with changelog and the entry %s\n", descList(c.List)) + fmt.Sprintf(format, a...)})
	}
	data, err := buildYAML(d.YAML(), "deb")
	// does deb itself ship something at that path? rpm-only kinds and entries addressed elsewhere do not
	ships := model.Relevant(e, "deb") && !model.RPMOnly(e.Type)
	typ := e.Type
	if typ == "" {
		typ = "file"
	}
	out.Key = fmt.Sprintf("changelog:%s:%s:%s:err=%v", e.Packager, typ, e.Dst, err != nil)
	const path = "/usr/share/doc/pkg/changelog.Debian.gz"
	if ships {
		if err == nil {
			viol("plan:collision-missed:changelog:"+typ, "the deb changelog and a %s entry for deb occupy %s; packaging succeeded", typ, path)
		}
		return out
	}
	if err != nil {
		viol("plan:false-collision:changelog:"+typ, "the entry is not shipped by deb (packager %q, type %s) but packaging failed: %v", e.Packager, typ, err)
		return out
	}
	pkg, derr := pkgread.Decode("deb", data, env.Tools)
	if derr != nil {
		viol("plan:undecodable:changelog", "%v", derr)
		return out
	}
	g := pkg.Entry(path)
	if g == nil {
		viol("plan:entries:missing:changelog", "changelog configured, but %s is absent from the deb (an entry addressed to %q sits at that path)", path, e.Packager)
		return out
	}
	if len(g.Data) < 2 || g.Data[0] != 0x1f || g.Data[1] != 0x8b {
		viol("plan:entries:changelog-replaced", "%s is not the generated gzip changelog (%d bytes)", path, len(g.Data))
	}
	return out
}

func c05MaxLen(env *engine.Env) int {
	if env.Thorough() {
		return 8
	}
	return 6
}

func kindsOf(list []model.Entry) string {
	var ks []string
	for _, e := range list {
		t := e.Type
		if t == "" {
			t = "file"
		}
		ks = append(ks, t)
	}
	return strings.Join(ks, "+")
}

func checkC05(env *engine.Env, ci any) engine.Outcome {
	c := ci.(C05Case)
	if c.Part == "maporder" {
		return checkC05MapOrder(env, c)
	}
	if c.Part == "reprepare" {
		return checkC05Reprepare(env, c)
	}
	if c.Part == "changelog" {
		return checkC05Changelog(env, c)
	}
	t := tree(env)
	var out engine.Outcome
	umask := umaskOf(0o022)
	want := model.Plan(c.List, c.Packager, umask, PkgMTime, false, t)
	if want.Unclear != "" {
		out.Key = "unclear"
		return out
	}
	contents := toContents(c.List, t)
	if c.Cwd != "" {
		old, werr := os.Getwd()
		if werr == nil {
			werr = os.Chdir(t.P(c.Cwd))
		}
		if werr != nil {
			out.HarnessError = werr.Error()
			return out
		}
		defer os.Chdir(old)
		contents[0].Source = c.Spelling
	}
	got, err := files.PrepareForPackager(contents, umask, c.Packager, false, PkgMTime)
	viol := func(sig, format string, a ...any) {
		out.Violations = append(out.Violations, engine.Violation{Sig: sig, Detail: fmt.Sprintf("packager=%q list=%s\n", c.Packager, descList(c.List)) + fmt.Sprintf(format, a...)})
	}
	for _, e := range c.List {
		if model.Relevant(e, c.Packager) {
			out.Nontrivial = true
		}
	}
	switch {
	case want.Collision:
		out.Key = "collision:" + want.WhyClass
		if err == nil {
			viol("plan:collision-missed:"+want.WhyClass, "reference: %s => content collision; implementation succeeded with plan %s", want.Why, descPlan(got))
		} else if !errors.Is(err, files.ErrContentCollision) {
			viol("plan:collision-wrong-error:"+want.WhyClass, "reference: %s => content collision; implementation failed with a different error: %v", want.Why, err)
		}
		return out
	case want.OtherErr != "":
		out.Key = "invalid:" + want.OtherErr
		if err == nil {
			viol("plan:invalid-accepted:"+kindsOf(c.List), "reference rejects the list (%s); implementation succeeded with plan %s", want.OtherErr, descPlan(got))
		}
		return out
	}
	if err != nil {
		out.Key = "spurious-error"
		if errors.Is(err, files.ErrContentCollision) {
			viol("plan:false-collision:"+kindsOf(c.List), "reference plans %d entries without collision; implementation reports: %v", len(want.Entries), err)
		} else {
			viol("plan:spurious-error:"+kindsOf(c.List), "reference plans %d entries; implementation fails: %v", len(want.Entries), err)
		}
		return out
	}
	// invariants of a successful plan
	seen := map[string]int{}
	for i, g := range got {
		d := g.Destination
		isDir := g.Type == files.TypeDir || g.Type == files.TypeImplicitDir
		trim := strings.TrimRight(d, "/")
		if trim == "" {
			trim = "/"
		}
		if !strings.HasPrefix(d, "/") {
			viol("plan:invariant:not-absolute:"+g.Type, "destination %q is not absolute", d)
		}
		if path.Clean(trim) != trim || strings.Contains(d, "//") {
			viol("plan:invariant:not-clean:"+g.Type, "destination %q is not lexically clean", d)
		}
		if isDir != strings.HasSuffix(d, "/") {
			viol("plan:invariant:dir-slash:"+g.Type, "destination %q of type %s: trailing slash must mark directories only", d, g.Type)
		}
		if j, dup := seen[trim]; dup {
			viol("plan:invariant:duplicate:"+got[j].Type+"+"+g.Type, "destinations %q and %q occupy the same path", got[j].Destination, d)
		}
		seen[trim] = i
		if i > 0 && !(got[i-1].Destination < d) {
			viol("plan:invariant:order", "plan not in ascending destination order at %q, %q", got[i-1].Destination, d)
		}
		for anc := path.Dir(trim); anc != "/" && anc != "."; anc = path.Dir(anc) {
			j, ok := seen[anc]
			if !ok {
				viol("plan:invariant:ancestor-missing:"+g.Type, "ancestor %q of %q is not planned before it", anc, d)
				break
			}
			if got[j].Type != files.TypeDir && got[j].Type != files.TypeImplicitDir {
				viol("plan:invariant:ancestor-not-dir:"+got[j].Type+"/"+g.Type, "%q lies beneath %q which is a %s", d, got[j].Destination, got[j].Type)
			}
		}
	}
	// equality with the reference plan
	wantBy := map[string]model.PEntry{}
	for _, w := range want.Entries {
		wantBy[w.Dst] = w
	}
	var keyParts []string
	for _, g := range got {
		w, ok := wantBy[g.Destination]
		if !ok {
			viol("plan:entries:extra:"+g.Type, "implementation plans %s %q which the configuration does not denote (reference plan: %s)", g.Type, g.Destination, descWant(want.Entries))
			continue
		}
		delete(wantBy, g.Destination)
		if w.SystemDir && w.Kind == "dir" {
			w.Kind = "implicit dir" // in the plan a tree's system directory is an implied one, for every packager
		}
		if w.Kind != g.Type {
			viol("plan:entries:kind:"+w.Kind+"->"+g.Type, "%q is planned as %s, the configuration denotes %s", g.Destination, g.Type, w.Kind)
		}
		switch w.Kind {
		case "dir", "implicit dir":
		case "symlink":
			if g.Source != w.Src {
				viol("plan:entries:link-target", "symlink %q targets %q, declared/literal target is %q", g.Destination, g.Source, w.Src)
			}
		default:
			gsrc := g.Source
			if c.Cwd != "" && !filepath.IsAbs(gsrc) {
				gsrc = filepath.Join(t.P(c.Cwd), gsrc) // planned relative to the working directory: the same file
			}
			if w.Src != "" && filepath.Clean(gsrc) != filepath.ToSlash(filepath.Join(t.Root, w.Src)) {
				viol("plan:entries:source:"+w.Kind, "%q is sourced from %q, the configuration maps %q there", g.Destination, g.Source, w.Src)
			}
		}
		keyParts = append(keyParts, g.Destination+"="+g.Type)
	}
	for d, w := range wantBy {
		viol("plan:entries:missing:"+w.Kind, "configuration denotes %s %q, implementation's plan lacks it (plan: %s)", w.Kind, d, descPlan(got))
	}
	out.Key = "ok:" + strings.Join(keyParts, ",")
	return out
}

func descList(l []model.Entry) string {
	var parts []string
	for _, e := range l {
		s := fmt.Sprintf("{src=%q dst=%q type=%q", e.Src, e.Dst, e.Type)
		if e.Packager != "" {
			s += fmt.Sprintf(" packager=%q", e.Packager)
		}
		if e.Mode != 0 {
			s += fmt.Sprintf(" mode=%#o", uint32(e.Mode))
		}
		if e.Owner != "" || e.Group != "" {
			s += fmt.Sprintf(" owner=%s group=%s", e.Owner, e.Group)
		}
		if !e.MTime.IsZero() {
			s += " mtime=" + e.MTime.Format("2006-01-02T15:04:05Z")
		}
		parts = append(parts, s+"}")
	}
	return "[" + strings.Join(parts, " ") + "]"
}

func descPlan(cs files.Contents) string {
	var parts []string
	for _, c := range cs {
		parts = append(parts, c.Type+" "+c.Destination)
	}
	return "[" + strings.Join(parts, "; ") + "]"
}

func descWant(es []model.PEntry) string {
	var parts []string
	for _, e := range es {
		parts = append(parts, e.Kind+" "+e.Dst)
	}
	return "[" + strings.Join(parts, "; ") + "]"
}

// checkC05Reprepare: prepare(prepare(list, ""), p) must plan the same destinations and kinds as prepare(list, p).
func checkC05Reprepare(env *engine.Env, c C05Case) engine.Outcome {
	var out engine.Outcome
	t := tree(env)
	umask := umaskOf(0o022)
	direct, derr := files.PrepareForPackager(toContents(c.List, t), umask, c.Packager, false, PkgMTime)
	all, aerr := files.PrepareForPackager(toContents(c.List, t), umask, "", false, PkgMTime)
	out.Transitions = 3
	if aerr != nil {
		out.Key = "reprepare:first-fails"
		return out
	}
	again, rerr := files.PrepareForPackager(all, umask, c.Packager, false, PkgMTime)
	out.Nontrivial = len(all) > 0
	render := func(cs files.Contents, err error) string {
		if err != nil {
			if errors.Is(err, files.ErrContentCollision) {
				return "collision"
			}
			return "error"
		}
		var parts []string
		for _, g := range cs {
			parts = append(parts, g.Destination+"="+g.Type)
		}
		return strings.Join(parts, ",")
	}
	d, r := render(direct, derr), render(again, rerr)
	out.Key = "reprepare:" + c.Packager + ":" + r
	if derr != nil {
		// the direct preparation rejects the list for this packager; only agreement of successful plans is judged
		return out
	}
	if d != r {
		out.Violations = append(out.Violations, engine.Violation{Sig: "plan:reprepare-differs:" + kindsOf(c.List),
			Detail: fmt.Sprintf("packager=%q list=%s\npreparing the list for all packagers and the result again for %q plans\n  %s\npreparing the list directly for %q plans\n  %s", c.Packager, descList(c.List), c.Packager, r, c.Packager, d)})
	}
	return out
}
