//go:build !verif

package props

import "verif/mc/engine"

func checkC05MapOrder(env *engine.Env, c C05Case) engine.Outcome {
	return engine.Outcome{HarnessError: "map-order part needs the woven build: " + wovenNote()}
}
