//go:build verif

package props

import (
	"errors"
	"fmt"
	"strings"

	"verif/mc/engine"

	"github.com/goreleaser/nfpm/v2/files"
	"github.com/goreleaser/nfpm/v2/vrt"
)

// checkC05MapOrder prepares the list under every order of every woven map
// iteration (within the deviation bound) and requires the same outcome class and plan.
func checkC05MapOrder(env *engine.Env, c C05Case) engine.Outcome {
	var out engine.Outcome
	t := tree(env)
	umask := umaskOf(0o022)
	render := func() string {
		got, err := files.PrepareForPackager(toContents(c.List, t), umask, c.Packager, false, PkgMTime)
		if err != nil {
			if errors.Is(err, files.ErrContentCollision) {
				return "collision"
			}
			return "error"
		}
		var b strings.Builder
		for _, g := range got {
			fmt.Fprintf(&b, "%s|%s|%s|%o|%s|%s;", g.Destination, g.Type, g.Source, g.FileInfo.Mode, g.FileInfo.Owner, g.FileInfo.Group)
		}
		return b.String()
	}
	bound := 1
	if env.Thorough() {
		bound = 2
	}
	ref := ""
	n := 0
	vrt.SetMapOrder(true)
	st := explore(bound, 2000, func(prefix []int) []vrt.Point {
		vrt.BeginChoices(prefix)
		r := render()
		pts := vrt.EndChoices()
		out.Transitions++
		if n == 0 {
			ref = r
		} else if r != ref {
			out.Violations = append(out.Violations, engine.Violation{Sig: "plan:map-order-dependent:" + kindsOf(c.List),
				Detail: fmt.Sprintf("packager=%q list=%s\nunder map iteration orders %v (%s) the outcome is\n  %s\nunder sorted order it is\n  %s", c.Packager, descList(c.List), prefix, descPoints(pts), r, ref)})
		}
		n++
		return pts
	})
	ranges := vrt.MapRanges
	vrt.SetMapOrder(false)
	out.Counters = map[string]int{"maporder_executions": st.Execs, "maporder_ranges_executed": ranges}
	out.Nontrivial = ranges > 0
	out.Key = "maporder:" + c.Packager + ":" + ref
	return out
}
