package props

import (
	"bytes"
	"errors"
	"fmt"
	"io"
	"os"
	"os/exec"
	"path/filepath"
	"strings"
	"time"

	"golang.org/x/sys/unix"

	"verif/mc/engine"
	"verif/mc/fixture"
	"verif/mc/model"
	"verif/mc/pkgread"

	"github.com/goreleaser/nfpm/v2"
)

// C06Case is one injected fault.
type C06Case struct {
	Part    string `json:"part"` // write | source | invalid | signer | cli
	Format  string `json:"format"`
	Sign    string `json:"sign,omitempty"`
	Comp    string `json:"compression,omitempty"`
	K       int    `json:"k,omitempty"`
	Variant string `json:"variant,omitempty"` // error | short | sticky
	Ref     string `json:"ref,omitempty"`     // which file reference is broken
	Shape   string `json:"shape,omitempty"`   // missing | directory | dangling
	Class   string `json:"class,omitempty"`   // invalid-setting class / cli scenario
	Retry   string `json:"retry,omitempty"`   // source: package the same settings a second time (still-broken | repaired)
	J       int    `json:"j,omitempty"`       // signer call that fails
}

var errInjected = errors.New("injected write failure (ENOSPC)")

type faultWriter struct {
	k        int
	variant  string
	n        int
	buf      bytes.Buffer
	injected bool
	faultLen int
}

func (w *faultWriter) Write(p []byte) (int, error) {
	i := w.n
	w.n++
	if w.k >= 0 && (i == w.k || (w.variant == "sticky" && i >= w.k)) {
		if !w.injected {
			w.faultLen = len(p)
		}
		w.injected = true
		if w.variant == "short" {
			h := len(p) / 2
			w.buf.Write(p[:h])
			return h, io.ErrShortWrite
		}
		return 0, errInjected
	}
	w.buf.Write(p)
	return len(p), nil
}

// c06Doc is the configuration all fault cases start from: a 200 KiB file, a
// config file, scripts, a changelog, optional signing and compression.
func c06Doc(env *engine.Env, f, sign, comp string) (fixture.Doc, map[string]string) {
	t := tree(env)
	list := []model.Entry{{Src: "share/big.bin", Dst: "/opt/big.bin"}, {Src: "etc/app.conf", Dst: "/etc/app.conf", Type: "config"}, {Src: "tree", Dst: "/opt/tree", Type: "tree"}}
	set := Setting{Name: "default"}
	if f == "deb" {
		set.DebCompress = comp
	}
	if f == "rpm" {
		set.RPMCompress = comp
	}
	refs := map[string]string{"content:big": t.P("share/big.bin"), "content:conf": t.P("etc/app.conf"), "content:tree": t.P("tree")}
	// the configuration-file flavours name sources every format reads ("missing ok" is about the installed system)
	list = append(list, model.Entry{Src: "share/f5000.bin", Dst: "/etc/app/nr.conf", Type: "config|noreplace"},
		model.Entry{Src: "share/ww.txt", Dst: "/etc/app/mo.conf", Type: "config|missingok"})
	refs["content:noreplace"], refs["content:missingok"] = t.P("share/f5000.bin"), t.P("share/ww.txt")
	if f == "rpm" {
		// the rpm-only entry types read their sources too
		list = append(list, model.Entry{Src: "doc/manual.txt", Dst: "/usr/share/doc/app/manual.txt", Type: "doc"},
			model.Entry{Src: "doc/LICENSE", Dst: "/usr/share/licenses/app/LICENSE", Type: "licence"},
			model.Entry{Src: "doc/README", Dst: "/usr/share/doc/app/README", Type: "readme"},
			model.Entry{Src: "share/f1024.bin", Dst: "/usr/share/licenses/app/COPYING", Type: "license"})
		refs["content:doc"], refs["content:licence"], refs["content:readme"] = t.P("doc/manual.txt"), t.P("doc/LICENSE"), t.P("doc/README")
		refs["content:license"] = t.P("share/f1024.bin")
	}
	d := set.doc(list, t.Root)
	writeScripts(t, f, "normal")
	for _, s := range scriptSlots[f] {
		p := scriptPath(t, "normal", s.Key)
		setPath(d, s.Key, p)
		refs["script:"+s.Key] = p
	}
	if f == "deb" || f == "rpm" {
		d["changelog"] = t.P("changelog.yaml")
		refs["changelog"] = t.P("changelog.yaml")
	}
	if sign != "" {
		// the key lives in the worker's tree so that it can be broken
		kf := map[string]string{"debsign": "privkey_unprotected.asc", "dpkg-sig": "privkey_unprotected.asc", "rpm": "privkey_unprotected.asc", "apk2048": "rsa_unprotected.priv", "apk4096": "rsa4096.priv"}[sign]
		dst := filepath.Join(t.Root, "keys-"+kf)
		if _, err := os.Stat(dst); err != nil {
			b, _ := os.ReadFile(keyPath(env, kf))
			os.WriteFile(dst, b, 0o600)
		}
		signDoc(env, d, f, sign)
		blk := map[string]string{"debsign": "deb", "dpkg-sig": "deb", "rpm": "rpm", "apk2048": "apk", "apk4096": "apk"}[sign]
		d[blk].(map[string]any)["signature"].(map[string]any)["key_file"] = dst
		refs["key"] = dst
	}
	return d, refs
}

type c06Config struct{ f, sign, comp string }

func c06Configs() []c06Config {
	var out []c06Config
	for _, f := range Formats {
		signs := []string{""}
		comps := []string{""}
		switch f {
		case "deb":
			signs = []string{"", "debsign", "dpkg-sig"}
			comps = []string{"", "xz", "zstd", "none"}
		case "rpm":
			signs = []string{"", "rpm"}
			comps = []string{"", "xz", "zstd", "lzma"}
		case "apk":
			signs = []string{"", "apk2048"}
		}
		for _, s := range signs {
			for _, c := range comps {
				if s != "" && c != "" && c != "xz" {
					continue
				}
				out = append(out, c06Config{f, s, c})
			}
		}
	}
	return out
}

var c06Invalid = []struct {
	class   string
	formats []string
	apply   func(env *engine.Env, d fixture.Doc, f string)
}{
	// file references that are nothing but a reference to an unset variable: a file of that name does not exist (and an
	// empty path is no configured file either way: the setting was made)
	{"changelog-unset-reference", []string{"deb", "rpm"}, func(env *engine.Env, d fixture.Doc, f string) { d["changelog"] = "${C06_UNSET_VARIABLE}" }},
	{"script-unset-reference", []string{"deb", "rpm", "apk", "ipk", "archlinux"}, func(env *engine.Env, d fixture.Doc, f string) {
		d["scripts"] = map[string]any{"postinstall": "${C06_UNSET_VARIABLE}"}
	}},
	{"script-unset-reference-with-suffix", []string{"deb", "rpm", "apk", "ipk", "archlinux"}, func(env *engine.Env, d fixture.Doc, f string) {
		d["scripts"] = map[string]any{"preremove": "${C06_UNSET_VARIABLE}/pre.sh"}
	}},
	{"deb-compression-unknown", []string{"deb"}, func(env *engine.Env, d fixture.Doc, f string) { d["deb"] = map[string]any{"compression": "bzip2"} }},
	{"rpm-compression-unknown", []string{"rpm"}, func(env *engine.Env, d fixture.Doc, f string) { d["rpm"] = map[string]any{"compression": "bzip2"} }},
	{"rpm-compression-level-malformed", []string{"rpm"}, func(env *engine.Env, d fixture.Doc, f string) { d["rpm"] = map[string]any{"compression": "gzip:fast"} }},
	{"rpm-compression-level-unsupported", []string{"rpm"}, func(env *engine.Env, d fixture.Doc, f string) { d["rpm"] = map[string]any{"compression": "lzma:3"} }},
	{"rpm-epoch-not-numeric", []string{"rpm"}, func(env *engine.Env, d fixture.Doc, f string) { d["epoch"] = "abc" }},
	{"platform-not-linux", []string{"apk", "archlinux"}, func(env *engine.Env, d fixture.Doc, f string) { d["platform"] = "darwin" }},
	{"archlinux-name-invalid", []string{"archlinux"}, func(env *engine.Env, d fixture.Doc, f string) { d["name"] = "-bad name" }},
	{"deb-signature-type-invalid", []string{"deb"}, func(env *engine.Env, d fixture.Doc, f string) {
		signDoc(env, d, "deb", "debsign")
		d["deb"].(map[string]any)["signature"].(map[string]any)["type"] = "bogus"
	}},
	{"rpm-epoch-out-of-range", []string{"rpm"}, func(env *engine.Env, d fixture.Doc, f string) { d["epoch"] = "4294967296" }},
	{"rpm-epoch-far-out-of-range", []string{"rpm"}, func(env *engine.Env, d fixture.Doc, f string) { d["epoch"] = "18446744073709551616" }},
	{"rpm-epoch-negative", []string{"rpm"}, func(env *engine.Env, d fixture.Doc, f string) { d["epoch"] = "-1" }},
	{"rpm-epoch-blank-padded", []string{"rpm"}, func(env *engine.Env, d fixture.Doc, f string) { d["epoch"] = " 1" }},
	{"rpm-epoch-decimal-point", []string{"rpm"}, func(env *engine.Env, d fixture.Doc, f string) { d["epoch"] = "1.0" }},
	{"key-id-not-hex", []string{"deb", "rpm"}, func(env *engine.Env, d fixture.Doc, f string) {
		signDoc(env, d, f, map[string]string{"deb": "debsign", "rpm": "rpm"}[f])
		d[f].(map[string]any)["signature"].(map[string]any)["key_id"] = "not-hex!"
	}},
	{"key-id-unknown", []string{"deb", "rpm"}, func(env *engine.Env, d fixture.Doc, f string) {
		signDoc(env, d, f, map[string]string{"deb": "debsign", "rpm": "rpm"}[f])
		d[f].(map[string]any)["signature"].(map[string]any)["key_id"] = "0123456789abcdef"
	}},
	{"key-encrypted-no-passphrase", []string{"deb", "rpm", "apk"}, func(env *engine.Env, d fixture.Doc, f string) {
		kf := map[string]string{"deb": "privkey.asc", "rpm": "privkey.asc", "apk": "rsa.priv"}[f]
		d[f] = map[string]any{"signature": map[string]any{"key_file": keyPath(env, kf), "key_name": "k"}}
		if f != "apk" {
			delete(d[f].(map[string]any)["signature"].(map[string]any), "key_name")
		}
		if f == "rpm" {
			d[f].(map[string]any)["buildhost"] = "h"
		}
	}},
	{"key-file-garbage", []string{"deb", "rpm", "apk"}, func(env *engine.Env, d fixture.Doc, f string) {
		d[f] = map[string]any{"signature": map[string]any{"key_file": keyPath(env, "wrong_key_format.priv")}}
	}},
	{"content-type-invalid", Formats, func(env *engine.Env, d fixture.Doc, f string) {
		d["contents"] = []any{map[string]any{"src": tree(env).P("etc/app.conf"), "dst": "/x", "type": "weird"}}
	}},
	{"apk-sign-no-key-name-bad-maintainer", []string{"apk"}, func(env *engine.Env, d fixture.Doc, f string) {
		d["apk"] = map[string]any{"signature": map[string]any{"key_file": keyPath(env, "rsa_unprotected.priv")}}
		d["maintainer"] = "not an address"
	}},
	{"apk-sign-no-key-name-no-maintainer", []string{"apk"}, func(env *engine.Env, d fixture.Doc, f string) {
		d["apk"] = map[string]any{"signature": map[string]any{"key_file": keyPath(env, "rsa_unprotected.priv")}}
		delete(d, "maintainer")
	}},
	{"apk-sign-no-key-name-blank-maintainer", []string{"apk"}, func(env *engine.Env, d fixture.Doc, f string) {
		d["apk"] = map[string]any{"signature": map[string]any{"key_file": keyPath(env, "rsa_unprotected.priv")}}
		d["maintainer"] = "   "
	}},
	{"apk-sign-no-key-name-maintainer-without-address", []string{"apk"}, func(env *engine.Env, d fixture.Doc, f string) {
		d["apk"] = map[string]any{"signature": map[string]any{"key_file": keyPath(env, "rsa_unprotected.priv")}}
		d["maintainer"] = "Jane Roe"
	}},
	{"glob-no-match-missingok", Formats, func(env *engine.Env, d fixture.Doc, f string) {
		d["contents"] = []any{map[string]any{"src": tree(env).P("etc/*.nomatch"), "dst": "/etc/x", "type": "config|missingok"}}
	}},
	{"glob-no-match", Formats, func(env *engine.Env, d fixture.Doc, f string) {
		d["contents"] = []any{map[string]any{"src": tree(env).P("etc/*.nomatch"), "dst": "/x"}}
	}},
	{"changelog-dangling", []string{"deb", "rpm"}, func(env *engine.Env, d fixture.Doc, f string) { d["changelog"] = tree(env).P("no-such-changelog.yaml") }},
	{"changelog-malformed", []string{"deb", "rpm"}, func(env *engine.Env, d fixture.Doc, f string) { d["changelog"] = tree(env).P("etc/app.conf") }},
	// a changelog that cannot be read, next to an entry the user ships at the path the deb changelog goes to
	{"changelog-dangling-entry-at-its-path", []string{"deb", "rpm"}, func(env *engine.Env, d fixture.Doc, f string) {
		d["changelog"] = tree(env).P("no-such-changelog.yaml")
		d["contents"] = []any{map[string]any{"src": tree(env).P("doc/README"), "dst": fmt.Sprintf("/usr/share/doc/%v/changelog.Debian.gz", d["name"])}}
	}},
	{"changelog-malformed-entry-at-its-path", []string{"deb", "rpm"}, func(env *engine.Env, d fixture.Doc, f string) {
		d["changelog"] = tree(env).P("etc/app.conf")
		d["contents"] = []any{map[string]any{"src": tree(env).P("doc/README"), "dst": fmt.Sprintf("/usr/share/doc/%v/changelog.Debian.gz", d["name"]), "type": "doc"}}
	}},
	// a package time the rpm header cannot state (32-bit seconds since 1970), with and without contents
	{"rpm-mtime-before-1970-no-contents", []string{"rpm"}, func(env *engine.Env, d fixture.Doc, f string) {
		d["mtime"] = "1960-02-03T04:05:06Z"
		delete(d, "contents")
	}},
	{"rpm-mtime-after-2106-no-contents", []string{"rpm"}, func(env *engine.Env, d fixture.Doc, f string) {
		d["mtime"] = "2110-02-03T04:05:06Z"
		delete(d, "contents")
	}},
	{"rpm-mtime-after-2106", []string{"rpm"}, func(env *engine.Env, d fixture.Doc, f string) { d["mtime"] = "2110-02-03T04:05:06Z" }},
	{"name-empty", Formats, func(env *engine.Env, d fixture.Doc, f string) { d["name"] = "" }},
	{"content-collision-same-source", Formats, func(env *engine.Env, d fixture.Doc, f string) {
		d["contents"] = []any{map[string]any{"src": tree(env).P("etc/app.conf"), "dst": "/x", "file_info": map[string]any{"mode": 0o600}},
			map[string]any{"src": tree(env).P("etc/app.conf"), "dst": "/x", "type": "config|noreplace", "file_info": map[string]any{"mode": 0o644, "owner": "app"}}}
	}},
	// the same with an override block for the format (whatever the block sets, two entries at one path collide)
	{"content-collision-same-source-with-override-block", Formats, func(env *engine.Env, d fixture.Doc, f string) {
		d["contents"] = []any{map[string]any{"src": tree(env).P("etc/app.conf"), "dst": "/x", "file_info": map[string]any{"mode": 0o600}},
			map[string]any{"src": tree(env).P("etc/app.conf"), "dst": "/x", "file_info": map[string]any{"mode": 0o644}}}
		d["overrides"] = map[string]any{f: map[string]any{"depends": []any{"x"}}}
	}},
	{"apk-sign-key-id-no-key-name-maintainer-without-address", []string{"apk"}, func(env *engine.Env, d fixture.Doc, f string) {
		d["apk"] = map[string]any{"signature": map[string]any{"key_file": keyPath(env, "rsa_unprotected.priv"), "key_id": "ignored"}}
		d["maintainer"] = "Jane Roe"
	}},
	{"content-collision-glob-and-file", Formats, func(env *engine.Env, d fixture.Doc, f string) {
		d["contents"] = []any{map[string]any{"src": tree(env).P("etc/conf.d/*.conf"), "dst": "/etc/conf.d"},
			map[string]any{"src": tree(env).P("etc/conf.d/a.conf"), "dst": "/etc/conf.d/a.conf", "type": "config"}}
	}},
	{"content-collision", Formats, func(env *engine.Env, d fixture.Doc, f string) {
		d["contents"] = []any{map[string]any{"src": tree(env).P("etc/app.conf"), "dst": "/x"}, map[string]any{"src": tree(env).P("etc/empty"), "dst": "/x"}}
	}},
}

// archlinux package names may hold ASCII letters, digits and @ . _ + - only (and not start with - or .)
var c06BadArchNames = map[string]string{"space": "foo bar", "hash": "#", "slash": "a/b", "colon": "a:b", "latin1": "caf\u00e9", "cyrillic": "\u043f\u0430\u043a\u0435\u0442",
	"arabic-digit": "foo\u0663", "fullwidth": "\uff46\uff4f\uff4f", "sharp-s": "stra\u00dfe-1", "newline": "foo\nbar", "leading-hyphen": "-foo", "cjk": "\u5305", "combining": "e\u0301x"}

func init() {
	for _, k := range model.SortedKeys(c06BadArchNames) {
		name := c06BadArchNames[k]
		c06Invalid = append(c06Invalid, struct {
			class   string
			formats []string
			apply   func(env *engine.Env, d fixture.Doc, f string)
		}{"archlinux-name-invalid-" + k, []string{"archlinux"}, func(env *engine.Env, d fixture.Doc, f string) { d["name"] = name }})
	}
	engine.Register(&engine.Prop{
		ID:    "C06",
		Level: "fault_enumeration",
		Rule: "write: for every format x {unsigned, signed} x compression class, the number N of destination writes of a clean run is counted and EVERY write index k in [0,N) is failed in three ways (error with n=0; short write n=len/2 + io.ErrShortWrite; sticky: every write from k on fails), each from a fresh parse; " +
			"source: every file reference of the configuration (each content source, each script slot, changelog, key file) broken one at a time (missing, replaced by a directory, dangling symlink); invalid: one configuration per invalid-setting class; signer: a signing callback failing at its j-th call for every j; " +
			"cli: the nfpm binary built from the tree with a missing source / missing script / invalid setting / a target that is a symlink to /dev/full / a target that already exists, for every format; non-trivial = the fault was consumed (injected write reached, broken file referenced); distinct = distinct (part, format, fault, outcome)",
		Assumptions: []string{
			"a writer that returns n<len(p) with a nil error violates io.Writer and is not part of the fault alphabet",
			"a content source replaced by a directory is a valid directory source, so that shape is applied to scripts, changelog and key files only",
		},
		Setup:  setupScripts,
		Decode: decodeInto[C06Case],
		Bounds: func(env *engine.Env) map[string]any {
			return map[string]any{"configs": len(c06Configs()), "variants": []string{"error", "short", "sticky"}, "invalid_classes": len(c06Invalid)}
		},
		Enumerate: enumC06,
		Check:     checkC06,
	})
}

func c06Build(text, f string, w io.Writer, signFn func(io.Reader) ([]byte, error)) error {
	cfg, err := parseYAML(text, nil)
	if err != nil {
		return fmt.Errorf("parse: %w", err)
	}
	info, err := cfg.Get(f)
	if err != nil {
		return err
	}
	info = nfpm.WithDefaults(info)
	if signFn != nil {
		info.Deb.Signature.SignFn = signFn
		info.RPM.Signature.SignFn = signFn
		info.APK.Signature.SignFn = signFn
	}
	p, err := nfpm.Get(f)
	if err != nil {
		return err
	}
	return p.Package(info, w)
}

func enumC06(env *engine.Env, yield func(any) bool) {
	if env.Data["tree"] == nil {
		return
	}
	for _, cc := range c06Configs() {
		d, refs := c06Doc(env, cc.f, cc.sign, cc.comp)
		clean := &faultWriter{k: -1}
		if err := c06Build(d.YAML(), cc.f, clean, nil); err != nil {
			// the clean configuration must build; reported by the k=-1 case
			if !yield(C06Case{Part: "write", Format: cc.f, Sign: cc.sign, Comp: cc.comp, K: -1, Variant: "clean"}) {
				return
			}
			continue
		}
		for k := 0; k < clean.n; k++ {
			for _, v := range []string{"error", "short", "sticky"} {
				if !yield(C06Case{Part: "write", Format: cc.f, Sign: cc.sign, Comp: cc.comp, K: k, Variant: v}) {
					return
				}
			}
		}
		if cc.comp == "" && cc.sign == "" && wovenAvailable {
			// a source that changes while it is packaged, at each of the code's accesses to it (woven copy)
			for _, sh := range []string{"grow", "shrink", "rewrite", "grow-rewrite", "shrink-rewrite", "remove"} {
				for _, place := range []string{"file", "config", "glob", "tree"} {
					if !yield(C06Case{Part: "mutating-source", Format: cc.f, Shape: sh, Ref: place}) {
						return
					}
				}
			}
		}
		if cc.comp == "" && cc.sign == "" {
			// sources that are neither files, directories nor links (a named pipe nobody writes to, a socket, a device),
			// met in every way a content entry reaches a source
			for _, sh := range []string{"fifo", "socket", "chardev"} {
				for _, place := range []string{"direct", "config", "glob", "dir", "tree"} {
					if !yield(C06Case{Part: "special", Format: cc.f, Shape: sh, Ref: place}) {
						return
					}
				}
			}
		}
		if cc.comp == "" || env.Thorough() {
			var names []string
			for r := range refs {
				names = append(names, r)
			}
			sortStrings(names)
			for _, r := range names {
				shapes := []string{"missing", "dangling", "loop", "directory"}
				if strings.HasPrefix(r, "content:") {
					shapes = shapes[:3]
				}
				if r == "content:tree" {
					shapes = shapes[:1] // a tree whose source is a symlink has no documented meaning
				}
				for _, sh := range shapes {
					if !yield(C06Case{Part: "source", Format: cc.f, Sign: cc.sign, Ref: r, Shape: sh}) {
						return
					}
					if sh == "missing" && cc.comp == "" {
						for _, rt := range []string{"still-broken", "repaired"} {
							if !yield(C06Case{Part: "source", Format: cc.f, Sign: cc.sign, Ref: r, Shape: sh, Retry: rt}) {
								return
							}
						}
					}
				}
			}
		}
	}
	for _, inv := range c06Invalid {
		for _, f := range inv.formats {
			if !yield(C06Case{Part: "invalid", Format: f, Class: inv.class}) {
				return
			}
		}
	}
	for _, s := range []struct {
		f, sign string
		calls   int
	}{{"deb", "debsign", 1}, {"deb", "dpkg-sig", 1}, {"rpm", "rpm", 2}, {"apk", "apk2048", 1}} {
		for j := 0; j < s.calls; j++ {
			if !yield(C06Case{Part: "signer", Format: s.f, Sign: s.sign, J: j}) {
				return
			}
		}
	}
	for _, typ := range []string{"bogus", "builder", "Origin", "origin ", "ORIGIN", " maint", "archive\n", "o"} {
		if !yield(C06Case{Part: "signer-invalid", Format: "deb", Class: typ}) {
			return
		}
	}
	for _, f := range Formats {
		for _, cls := range []string{"missing-source", "missing-script", "invalid-content-type", "invalid-compression", "dev-full", "dev-full-directory-target", "preexisting-target-missing-source", "preexisting-target-dev-full", "config-missing", "config-unknown-key", "missing-source-directory-target", "missing-source-empty-target", "missing-source-relative-target", "missing-source-stdin-config", "missing-source-default-config"} {
			if !yield(C06Case{Part: "cli", Format: f, Class: cls}) {
				return
			}
		}
	}
}

func sortStrings(s []string) {
	for i := 1; i < len(s); i++ {
		for j := i; j > 0 && s[j] < s[j-1]; j-- {
			s[j], s[j-1] = s[j-1], s[j]
		}
	}
}

func checkC06(env *engine.Env, ci any) engine.Outcome {
	c := ci.(C06Case)
	var out engine.Outcome
	f := c.Format
	viol := func(sig, format string, a ...any) {
		out.Violations = append(out.Violations, engine.Violation{Sig: sig,
			Detail: fmt.Sprintf("part=%s format=%s sign=%q compression=%q k=%d variant=%s ref=%s shape=%s class=%s j=%d\n", c.Part, f, c.Sign, c.Comp, c.K, c.Variant, c.Ref, c.Shape, c.Class, c.J) + fmt.Sprintf(format, a...)})
	}
	switch c.Part {
	case "write":
		d, _ := c06Doc(env, f, c.Sign, c.Comp)
		w := &faultWriter{k: c.K, variant: c.Variant}
		err := c06Build(d.YAML(), f, w, nil)
		out.Key = fmt.Sprintf("write:%s:%s:%s:%d:%s:err=%v", f, c.Sign, c.Comp, c.K, c.Variant, err != nil)
		if c.K < 0 {
			if err != nil {
				viol("fault:clean-build-fails:"+f, "the fault-free configuration does not build: %v", err)
			}
			return out
		}
		if !w.injected {
			return out
		}
		out.Nontrivial = true
		if err == nil {
			pos := "middle"
			if c.K == 0 {
				pos = "first"
			}
			size := "n-byte"
			if w.faultLen == 1 {
				size = "1-byte"
			}
			_, derr := pkgread.Decode(f, w.buf.Bytes(), env.Tools)
			viol("fault:write-error-swallowed:"+f+":"+c.Variant+":"+pos+":"+size, "write #%d of the output (%d bytes) failed (%s) but Package returned nil; the %d bytes accepted by the writer decode: %v", c.K, w.faultLen, c.Variant, w.buf.Len(), derr)
		}
	case "source":
		d, refs := c06Doc(env, f, c.Sign, "")
		p := refs[c.Ref]
		bak := p + ".c06bak"
		if err := os.Rename(p, bak); err != nil {
			out.HarnessError = err.Error()
			return out
		}
		defer func() {
			os.RemoveAll(p)
			os.Rename(bak, p)
		}()
		switch c.Shape {
		case "dangling":
			os.Symlink(p+".nowhere", p)
		case "loop":
			os.Symlink(filepath.Base(p), p) // a symlink to itself: ELOOP
		case "directory":
			os.Mkdir(p, 0o755)
		}
		if c.Retry != "" {
			// the same effective settings are packaged again after the failure: while the source is still broken
			// ("still-broken") or after it has been repaired ("repaired"). No call may report success for a package
			// that lacks what the configuration denotes.
			cfg, perr := parseYAML(d.YAML(), nil)
			if perr != nil {
				out.HarnessError = perr.Error()
				return out
			}
			info, gerr := cfg.Get(f)
			if gerr != nil {
				out.HarnessError = gerr.Error()
				return out
			}
			info = nfpm.WithDefaults(info)
			pk, _ := nfpm.Get(f)
			var b1 bytes.Buffer
			err1 := pk.Package(info, &b1)
			if c.Retry == "repaired" {
				os.RemoveAll(p)
				os.Rename(bak, p)
			}
			var b2 bytes.Buffer
			err2 := pk.Package(info, &b2)
			// the complete package: fresh settings while the source is intact (repaired case only)
			var ref []byte
			var rerr error = errors.New("source still broken")
			if c.Retry == "repaired" {
				ref, rerr = buildYAML(d.YAML(), f)
				os.Rename(p, bak) // the deferred restore expects the backup
			}
			out.Nontrivial = err1 != nil
			out.Transitions += 2
			out.Key = fmt.Sprintf("retry:%s:%s:%s:%s:%s:err1=%v:err2=%v", f, c.Sign, c.Ref, c.Shape, c.Retry, err1 != nil, err2 != nil)
			if err1 == nil {
				return out // reported by the plain source part
			}
			if err2 != nil {
				return out
			}
			// success on the second call: the package must be the complete one
			// complete = ships the same payload entries and scripts as the package built from fresh settings (signatures
			// differ from run to run, so bytes are not compared)
			summary := func(b []byte) (string, bool) {
				pkg, derr := pkgread.Decode(f, b, env.Tools)
				if derr != nil {
					return "", false
				}
				var l []string
				for i := range pkg.Entries {
					e := &pkg.Entries[i]
					l = append(l, fmt.Sprintf("%s|%s|%d|%s", e.Path, e.Kind, len(e.Data), e.SHA256))
				}
				for k, v := range pkg.Scripts {
					l = append(l, fmt.Sprintf("script:%s|%d", k, len(v)))
				}
				sortStrings(l)
				return strings.Join(l, "\n"), true
			}
			complete := false
			if rerr == nil {
				a, ok1 := summary(ref)
				b, ok2 := summary(b2.Bytes())
				complete = ok1 && ok2 && a == b
			}
			if c.Retry == "still-broken" || !complete {
				kind, _, _ := strings.Cut(c.Ref, ":")
				n := -1
				if pkg, derr := pkgread.Decode(f, b2.Bytes(), env.Tools); derr == nil {
					n = len(pkg.Entries)
				}
				viol("fault:retry-reports-success:"+f+":"+kind+":"+c.Retry, "%s (%s) was %s: the first Package call on these settings failed (%v); the second call on the SAME settings (%s) returned nil and wrote %d bytes with %d payload entries, which is not the complete package (%d bytes)", c.Ref, p, c.Shape, err1, c.Retry, b2.Len(), n, len(ref))
			}
			return out
		}
		var buf bytes.Buffer
		err := c06Build(d.YAML(), f, &buf, nil)
		out.Nontrivial = true
		out.Key = fmt.Sprintf("source:%s:%s:%s:%s:err=%v", f, c.Sign, c.Ref, c.Shape, err != nil)
		if err == nil {
			kind, _, _ := strings.Cut(c.Ref, ":")
			viol("fault:unreadable-source-accepted:"+f+":"+kind+":"+c.Shape, "%s (%s) is %s but Package returned nil and wrote %d bytes", c.Ref, p, c.Shape, buf.Len())
		}
	case "special":
		dir, err := os.MkdirTemp(env.Scratch, "special-")
		if err != nil {
			out.HarnessError = err.Error()
			return out
		}
		defer os.RemoveAll(dir)
		os.Mkdir(filepath.Join(dir, "d"), 0o755)
		os.WriteFile(filepath.Join(dir, "d", "regular"), []byte("regular file\n"), 0o644)
		sp := filepath.Join(dir, "d", "special")
		switch c.Shape {
		case "fifo":
			err = unix.Mkfifo(sp, 0o644)
		case "socket":
			var fd int
			if fd, err = unix.Socket(unix.AF_UNIX, unix.SOCK_STREAM, 0); err == nil {
				defer unix.Close(fd)
				// bind by a short relative path (socket addresses are limited to 108 bytes)
				old, _ := os.Getwd()
				os.Chdir(filepath.Join(dir, "d"))
				err = unix.Bind(fd, &unix.SockaddrUnix{Name: "special"})
				os.Chdir(old)
			}
		case "chardev":
			err = unix.Mknod(sp, unix.S_IFCHR|0o644, int(unix.Mkdev(1, 3))) // like /dev/null
		}
		out.Key = fmt.Sprintf("special:%s:%s:%s", f, c.Shape, c.Ref)
		if err != nil {
			// this host does not let the harness create such a file: nothing to judge
			out.Key += ":cannot-create"
			return out
		}
		var e model.Entry
		switch c.Ref {
		case "direct":
			e = model.Entry{Src: "d/special", Dst: "/opt/special"}
		case "config":
			e = model.Entry{Src: "d/special", Dst: "/etc/special.conf", Type: "config"}
		case "glob":
			e = model.Entry{Src: "d/*", Dst: "/opt/d"}
		case "dir":
			e = model.Entry{Src: "d/", Dst: "/opt/d"}
		case "tree":
			e = model.Entry{Src: "d", Dst: "/opt/d", Type: "tree"}
		}
		d := Setting{Name: "default"}.doc([]model.Entry{e}, dir)
		var buf bytes.Buffer
		done := make(chan error, 1)
		go func() { done <- c06Build(d.YAML(), f, &buf, nil) }()
		out.Transitions++
		out.Nontrivial = true
		// a named pipe: Package must not sit down to read it - nobody need ever write to it. Whether it does is observed
		// without a clock: a write end can be opened without blocking exactly when a reader has the pipe open
		finished := false
		for i := 0; !finished && i < 2400; i++ {
			select {
			case err = <-done:
				finished = true
			case <-time.After(50 * time.Millisecond):
				if c.Shape != "fifo" {
					continue
				}
				if wfd, werr := unix.Open(sp, unix.O_WRONLY|unix.O_NONBLOCK, 0); werr == nil {
					viol("fault:waits-on-named-pipe:"+c.Ref, "the source %s is a named pipe: Package(%s) opened it for reading and waits for a writer (it returns only when one appears - never, on a build host)\n%s", sp, f, d.YAML())
					unix.Close(wfd) // the reader sees end-of-file and goes on
					select {
					case <-done:
					case <-time.After(30 * time.Second):
					}
					return out
				}
			}
		}
		if !finished {
			viol("fault:never-returns:"+c.Shape+":"+c.Ref, "the source %s is a %s: Package(%s) did not return within two minutes (the configuration packages in milliseconds without it)\n%s", sp, c.Shape, f, d.YAML())
			return out
		}
		out.Key += fmt.Sprintf(":err=%v", err != nil)
		if err == nil {
			// a package was produced: it holds nothing but what the entry denotes (files, directories below the destination)
			pkg, derr := pkgread.Decode(f, buf.Bytes(), env.Tools)
			if derr != nil {
				viol("fault:special-source:undecodable:"+f, "a %s among the sources: Package returned nil, the output cannot be decoded: %v", c.Shape, derr)
				return out
			}
			// ... and it does not pass over the special file in silence: what the entry names (or matches) is in the
			// package in some form, or the call fails
			named := false
			for i := range pkg.Entries {
				if pth := pkg.Entries[i].Path; pth == "/opt/special" || pth == "/etc/special.conf" || pth == "/opt/d/special" {
					named = true
				}
			}
			if !named {
				viol("fault:special-source:silently-dropped:"+c.Ref, "a %s among the sources (%s, reached as %s): Package(%s) returned nil and the package does not mention it at all (members: %s)", c.Shape, sp, c.Ref, f, strings.Join(pkg.SortedPaths(), " "))
			}
			for i := range pkg.Entries {
				en := &pkg.Entries[i]
				okKind := en.Kind == "file" || en.Kind == "dir" || en.Kind == "symlink"
				okPath := en.Path == "/opt" || en.Path == "/etc" || strings.HasPrefix(en.Path, "/opt/") || strings.HasPrefix(en.Path, "/etc/")
				if !okKind || !okPath {
					viol("fault:special-source:foreign-member:"+f+":"+c.Shape, "a %s among the sources (%s): Package returned nil and the payload holds a member %q of kind %s", c.Shape, sp, en.Path, en.Kind)
				}
			}
		}
	case "invalid":
		d := Setting{Name: "default"}.doc([]model.Entry{{Src: "etc/app.conf", Dst: "/etc/app.conf"}}, tree(env).Root)
		for _, inv := range c06Invalid {
			if inv.class == c.Class {
				inv.apply(env, d, f)
			}
		}
		var buf bytes.Buffer
		err := c06Build(d.YAML(), f, &buf, nil)
		out.Nontrivial = true
		out.Key = fmt.Sprintf("invalid:%s:%s:err=%v", f, c.Class, err != nil)
		if err == nil {
			viol("fault:invalid-setting-accepted:"+f+":"+c.Class, "the setting is invalid (%s) but Package returned nil and wrote %d bytes\n%s", c.Class, buf.Len(), d.YAML())
		}
	case "signer":
		d, _ := c06Doc(env, f, "", "")
		calls := 0
		sentinel := errors.New("signer sentinel failure")
		fn := func(r io.Reader) ([]byte, error) {
			io.Copy(io.Discard, r)
			calls++
			if calls-1 == c.J {
				return nil, sentinel
			}
			return []byte("not-a-real-signature"), nil
		}
		if c.Sign == "dpkg-sig" {
			d["deb"] = map[string]any{"signature": map[string]any{"method": "dpkg-sig"}}
		}
		var buf bytes.Buffer
		err := c06Build(d.YAML(), f, &buf, fn)
		out.Nontrivial = calls > c.J
		out.Key = fmt.Sprintf("signer:%s:%s:%d:err=%v", f, c.Sign, c.J, err != nil)
		if calls > c.J && err == nil {
			viol("fault:signer-failure-swallowed:"+f+":"+c.Sign, "signing callback failed at call #%d but Package returned nil", c.J+1)
		}
	case "signer-invalid":
		// a signing callback that works, with a signature type that is invalid: the setting is still invalid
		d, _ := c06Doc(env, f, "", "")
		d["deb"] = map[string]any{"signature": map[string]any{"type": c.Class}}
		calls := 0
		fn := func(r io.Reader) ([]byte, error) {
			io.Copy(io.Discard, r)
			calls++
			return []byte("not-a-real-signature"), nil
		}
		var buf bytes.Buffer
		err := c06Build(d.YAML(), f, &buf, fn)
		out.Nontrivial = true
		out.Key = fmt.Sprintf("signer-invalid:%s:%q:err=%v", f, c.Class, err != nil)
		if err == nil {
			viol("fault:invalid-setting-accepted:deb:signature-type-with-callback", "signature type %q is invalid, the signing callback was called %d time(s) and Package returned nil (%d bytes)", c.Class, calls, buf.Len())
		}
	case "cli":
		checkC06CLI(env, c, &out, viol)
	case "mutating-source":
		checkC06Woven(env, c, &out, viol)
	}
	return out
}

func checkC06CLI(env *engine.Env, c C06Case, out *engine.Outcome, viol func(sig, format string, a ...any)) {
	f := c.Format
	t := tree(env)
	bin, err := nfpmBinary(env)
	if err != nil {
		out.HarnessError = err.Error()
		return
	}
	work, err := os.MkdirTemp(env.Scratch, "c06cli-")
	if err != nil {
		out.HarnessError = err.Error()
		return
	}
	defer os.RemoveAll(work)
	d := Setting{Name: "default"}.doc([]model.Entry{{Src: "share/f5000.bin", Dst: "/opt/f5000.bin"}, {Src: "etc/app.conf", Dst: "/etc/app.conf"}}, t.Root)
	cfgPath := filepath.Join(work, "nfpm.yaml")
	target := filepath.Join(work, "out"+extOf[f])
	args := []string{"package", "-f", cfgPath, "-p", f, "-t", target}
	preexisting := false
	switch c.Class {
	case "missing-source", "preexisting-target-missing-source":
		d["contents"] = []any{map[string]any{"src": t.P("no/such/file"), "dst": "/x"}}
	case "missing-script":
		d["scripts"] = map[string]any{"postinstall": t.P("no-such-script.sh")}
	case "invalid-content-type":
		d["contents"] = []any{map[string]any{"src": t.P("etc/app.conf"), "dst": "/x", "type": "weird"}}
	case "invalid-compression":
		if f != "deb" && f != "rpm" {
			out.Key = "cli:n/a"
			return
		}
		d[f] = map[string]any{"compression": "bzip2"}
	case "dev-full", "preexisting-target-dev-full":
		if err := os.Symlink("/dev/full", target); err != nil {
			out.HarnessError = err.Error()
			return
		}
	case "dev-full-directory-target":
		// the conventional name inside a target directory is a symlink to /dev/full
		cfg, _ := parseYAML(d.YAML(), nil)
		info, _ := cfg.Get(f)
		info = nfpm.WithDefaults(info)
		p, _ := nfpm.Get(f)
		dir := filepath.Join(work, "outdir")
		os.Mkdir(dir, 0o755)
		target = filepath.Join(dir, p.ConventionalFileName(info))
		os.Symlink("/dev/full", target)
		args = []string{"package", "-f", cfgPath, "-p", f, "-t", dir}
	case "missing-source-directory-target", "missing-source-empty-target", "missing-source-relative-target", "missing-source-stdin-config", "missing-source-default-config":
		// the failing build reached through the other ways of naming target and configuration: whatever file the
		// command creates on the way (under the conventional name, relative to the working directory) must be gone
		d["contents"] = []any{map[string]any{"src": t.P("etc/app.conf"), "dst": "/etc/app.conf"}, map[string]any{"src": t.P("no/such/file"), "dst": "/x"}}
		cfg, _ := parseYAML(Setting{Name: "default"}.doc(nil, t.Root).YAML(), nil)
		info, _ := cfg.Get(f)
		info = nfpm.WithDefaults(info)
		p, _ := nfpm.Get(f)
		conv := p.ConventionalFileName(info)
		switch c.Class {
		case "missing-source-directory-target":
			os.Mkdir(filepath.Join(work, "outdir"), 0o755)
			target = filepath.Join(work, "outdir", conv)
			args = []string{"package", "-f", cfgPath, "-p", f, "-t", filepath.Join(work, "outdir")}
		case "missing-source-empty-target":
			target = filepath.Join(work, conv)
			args = []string{"package", "-f", cfgPath, "-p", f}
		case "missing-source-relative-target":
			os.Mkdir(filepath.Join(work, "rel"), 0o755)
			target = filepath.Join(work, "rel", "out"+extOf[f])
			args = []string{"package", "-f", "nfpm.yaml", "-p", f, "-t", filepath.Join("rel", "out"+extOf[f])}
		case "missing-source-stdin-config":
			args = []string{"package", "-f", "-", "-p", f, "-t", target}
		case "missing-source-default-config":
			args = []string{"package", "-p", f, "-t", target}
		}
	case "config-missing":
		args = []string{"package", "-f", filepath.Join(work, "absent.yaml"), "-p", f, "-t", target}
	case "config-unknown-key":
		d["no_such_key"] = 1
	}
	if strings.HasPrefix(c.Class, "preexisting-target") && c.Class != "preexisting-target-dev-full" {
		os.WriteFile(target, []byte("package from a previous build"), 0o644)
		preexisting = true
	}
	if c.Class != "config-missing" {
		os.WriteFile(cfgPath, []byte(d.YAML()), 0o644)
	}
	cmd := exec.Command(bin, args...)
	cmd.Dir = work
	var so, se bytes.Buffer
	cmd.Stdout, cmd.Stderr = &so, &se
	if c.Class == "missing-source-stdin-config" {
		cmd.Stdin = strings.NewReader(d.YAML())
	}
	runErr := cmd.Run()
	_, lerr := os.Lstat(target)
	// nothing else may be left behind either (a package under another name, a temporary file)
	if entries, derr := os.ReadDir(work); derr == nil {
		for _, e := range entries {
			switch e.Name() {
			case "nfpm.yaml", "outdir", "rel", filepath.Base(target):
			default:
				viol("fault:cli-leaves-other-file:"+c.Class+":"+f, "after the failed run the working directory holds %q", e.Name())
			}
		}
	}
	for _, sub := range []string{"outdir", "rel"} {
		if entries, derr := os.ReadDir(filepath.Join(work, sub)); derr == nil {
			for _, e := range entries {
				if filepath.Join(work, sub, e.Name()) != target {
					viol("fault:cli-leaves-other-file:"+c.Class+":"+f, "after the failed run %s/ holds %q", sub, e.Name())
				}
			}
		}
	}
	out.Nontrivial = true
	out.Key = fmt.Sprintf("cli:%s:%s:exit=%v:left=%v", f, c.Class, runErr != nil, lerr == nil)
	if runErr == nil {
		viol("fault:cli-exit-zero:"+c.Class+":"+f, "nfpm %v exited 0 although packaging cannot succeed (stdout %q)", args, so.String())
	}
	if lerr == nil {
		what := "a file"
		if preexisting {
			what = "the (now truncated or partial) pre-existing file"
		}
		viol("fault:cli-leaves-target:"+c.Class+":"+f, "after the failed run %s is still at the target path %s", what, target)
	}
	if runErr != nil && strings.TrimSpace(so.String()+se.String()) == "" {
		viol("fault:cli-silent:"+c.Class+":"+f, "nfpm %v failed without printing a cause", args)
	}
	if strings.Contains(so.String(), "created package") && runErr != nil {
		viol("fault:cli-claims-success:"+c.Class+":"+f, "nfpm printed %q and then failed", strings.TrimSpace(so.String()))
	}
}
