//go:build !verif

package props

import "verif/mc/engine"

func checkC06Woven(env *engine.Env, c C06Case, out *engine.Outcome, viol func(sig, format string, a ...any)) {
	out.HarnessError = "part " + c.Part + " needs the woven build: " + wovenNote()
}
