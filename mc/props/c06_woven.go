//go:build verif

package props

import (
	"bytes"
	"crypto/sha256"
	"encoding/hex"
	"fmt"
	"os"
	"path/filepath"
	"strings"

	"verif/mc/engine"
	"verif/mc/fixture"
	"verif/mc/model"
	"verif/mc/pkgread"

	"github.com/goreleaser/nfpm/v2/vrt"
)

// checkC06Woven, part mutating-source: a source changes while it is packaged. The woven copy calls the harness before
// each of its file system accesses; at the k-th access that concerns the source (every k, exhaustively) the source
// grows / shrinks / is rewritten with the same length / disappears. Whatever happens then, the call either fails or
// writes a package whose copy of the file is one whole version of it, with the sizes and digests the package states
// agreeing with what it ships.
func checkC06Woven(env *engine.Env, c C06Case, out *engine.Outcome, viol func(sig, format string, a ...any)) {
	f := c.Format
	dir, err := os.MkdirTemp(env.Scratch, "mutsrc-")
	if err != nil {
		out.HarnessError = err.Error()
		return
	}
	defer os.RemoveAll(dir)
	oldData := fixture.Noise(3000, 9001)
	var newData []byte
	switch c.Shape {
	case "grow":
		newData = append(append([]byte{}, oldData...), fixture.Noise(1500, 9002)...)
	case "shrink":
		newData = oldData[:1200]
	case "rewrite":
		newData = fixture.Noise(3000, 9003)
	case "grow-rewrite":
		newData = fixture.Noise(4500, 9004)
	case "shrink-rewrite":
		newData = fixture.Noise(1200, 9005)
	case "remove":
		newData = nil
	}
	src := filepath.Join(dir, "d", "payload.bin")
	reset := func() {
		os.MkdirAll(filepath.Join(dir, "d"), 0o755)
		os.WriteFile(src, oldData, 0o644)
		os.WriteFile(filepath.Join(dir, "d", "other.txt"), []byte("other\n"), 0o644)
		os.Chtimes(src, fixture.T0, fixture.T0)
	}
	var e model.Entry
	switch c.Ref {
	case "file":
		e = model.Entry{Src: "d/payload.bin", Dst: "/opt/payload.bin"}
	case "config":
		e = model.Entry{Src: "d/payload.bin", Dst: "/etc/payload.conf", Type: "config"}
	case "glob":
		e = model.Entry{Src: "d/*", Dst: "/opt/d"}
	case "tree":
		e = model.Entry{Src: "d", Dst: "/opt/d", Type: "tree"}
	}
	text := Setting{Name: "default"}.doc([]model.Entry{e}, dir).YAML()
	sum := func(b []byte) string { s := sha256.Sum256(b); return hex.EncodeToString(s[:]) }
	// dry run: how often is the source touched?
	reset()
	n := 0
	vrt.OnFS = func(path string, write bool, site string) {
		if strings.HasPrefix(path, filepath.Join(dir, "d")) {
			n++
		}
	}
	_, derr := buildYAML(text, f)
	vrt.OnFS = nil
	if derr != nil {
		out.HarnessError = "dry run: " + derr.Error()
		return
	}
	out.Key = fmt.Sprintf("mutating-source:%s:%s:%s:%d", f, c.Ref, c.Shape, n)
	out.Nontrivial = n > 0
	for k := 0; k < n; k++ {
		reset()
		seen := 0
		vrt.OnFS = func(path string, write bool, site string) {
			if !strings.HasPrefix(path, filepath.Join(dir, "d")) {
				return
			}
			if seen == k {
				if newData == nil {
					os.Remove(src)
				} else {
					os.WriteFile(src, newData, 0o644)
				}
			}
			seen++
		}
		data, err := buildYAML(text, f)
		vrt.OnFS = nil
		out.Transitions++
		if err != nil {
			continue // a failed call is the honest answer
		}
		pkg, derr := pkgread.Decode(f, data, env.Tools)
		if derr != nil {
			viol("fault:changing-source:undecodable:"+f+":"+c.Shape, "the source %s at access %d of %d: Package returned nil, the output cannot be decoded: %v", c.Shape, k, n, derr)
			continue
		}
		var got *pkgread.Entry
		for i := range pkg.Entries {
			if strings.HasSuffix(pkg.Entries[i].Path, "payload.bin") || strings.HasSuffix(pkg.Entries[i].Path, "payload.conf") {
				got = &pkg.Entries[i]
			}
		}
		switch {
		case got == nil:
			viol("fault:changing-source:file-missing:"+f+":"+c.Shape, "the source %s at access %d of %d: Package returned nil and the package does not hold the file at all", c.Shape, k, n)
		case got.SHA256 == sum(oldData) && int(got.Size) == len(oldData):
		case newData != nil && got.SHA256 == sum(newData) && int(got.Size) == len(newData):
		default:
			viol("fault:changing-source:partial-file:"+f+":"+c.Shape, "the source %s at access %d of %d (%d -> %d bytes): Package returned nil and ships %d bytes that are neither the old nor the new file", c.Shape, k, n, len(oldData), len(newData), got.Size)
		}
		judgeDigests(f, pkg, func(sig, format string, a ...any) {
			viol("fault:changing-source:"+sig+":"+c.Shape, "the source %s at access %d of %d: "+format, append([]any{c.Shape, k, n}, a...)...)
		})
	}
	_ = bytes.Equal
}
