package props

import (
	"bytes"
	"crypto/sha256"
	"encoding/hex"
	"fmt"
	"os"
	"os/exec"
	"path/filepath"
	"runtime"
	"sort"
	"strings"
	"time"

	"verif/mc/engine"
	"verif/mc/fixture"
	"verif/mc/model"
	"verif/mc/pkgread"

	"github.com/goreleaser/nfpm/v2"
)

// C07Case: one configuration and format under one slice of the environment alphabet.
type C07Case struct {
	Part   string `json:"part"` // inproc | subproc | sde | clock | maporder | hostname | wallclock | hostfile
	Config int    `json:"config"`
	Format string `json:"format"`
}

type c07Config struct {
	name  string
	doc   func(env *engine.Env, rootForSources string) fixture.Doc
	only  string // format the configuration concerns ("" = all)
	heavy bool
}

func c07Configs(env *engine.Env) []c07Config {
	var out []c07Config
	for i, e := range c01Templates()[:c01NQuick] {
		e := e
		out = append(out, c07Config{name: fmt.Sprintf("entry-%d:%s", i, e.Dst), doc: func(env *engine.Env, root string) fixture.Doc {
			return Setting{Name: "default"}.doc([]model.Entry{e}, root)
		}})
	}
	payload := []model.Entry{{Src: "share/big.bin", Dst: "/opt/big.bin"}, {Src: "etc/app.conf", Dst: "/etc/app.conf", Type: "config"}, {Src: "tree", Dst: "/opt/tree", Type: "tree"}}
	for _, s := range c01Settings() {
		if s.Only == "" {
			continue
		}
		s := s
		out = append(out, c07Config{name: s.Name, only: s.Only, doc: func(env *engine.Env, root string) fixture.Doc { return s.doc(payload, root) }})
	}
	// file sizes on block, buffer and streaming-threshold boundaries
	out = append(out, c07Config{name: "boundary-sizes", doc: func(env *engine.Env, root string) fixture.Doc {
		return Setting{Name: "default"}.doc([]model.Entry{{Src: "sizes", Dst: "/opt/sizes", Type: "tree"}, {Src: "sizes/s1048576.bin", Dst: "/opt/one-mib.bin"}}, root)
	}})
	// times that are not whole seconds: the package mtime, entry mtimes, on-disk times of a tree
	for _, mt := range []string{"F", "G"} {
		s := Setting{Name: "mtime=" + mt, MTime: mt}
		out = append(out, c07Config{name: "fractional-" + s.Name, doc: func(env *engine.Env, root string) fixture.Doc {
			return s.doc(append(append([]model.Entry{}, payload[1:]...), c01Fractional()...), root)
		}})
	}
	// a tree holding a symbolic link with an absolute target inside the tree itself (kept literally, however the source is referenced)
	out = append(out, c07Config{name: "abs-link-tree", doc: func(env *engine.Env, root string) fixture.Doc {
		return Setting{Name: "default"}.doc([]model.Entry{{Src: "abslinks", Dst: "/opt/app", Type: "tree"}, {Src: "abslinks/*", Dst: "/opt/glob"}}, root)
	}})
	// changelogs: one whose entries partly lack a date / a packager, and a long one
	for _, cl := range []string{"changelog-undated.yaml", "changelog-big.yaml"} {
		cl := cl
		out = append(out, c07Config{name: cl, doc: func(env *engine.Env, root string) fixture.Doc {
			d := Setting{Name: "default"}.doc(payload[1:2], root)
			d["changelog"] = filepath.Join(root, cl)
			return d
		}})
	}
	// metadata-rich: relations, extras, scripts, changelog
	out = append(out, c07Config{name: "metadata-rich", doc: func(env *engine.Env, root string) fixture.Doc {
		m := baseMeta()
		m.Rel = map[string][]model.RelItem{}
		for _, k := range model.RelKinds {
			m.Rel[k] = relItems(k, "versioned")
		}
		m.RPMPrefixes, m.RPMGroup = []string{"/usr"}, "g"
		m.ArchPackager, m.ArchPkgbase, m.RPMPackager, m.RPMBuildHost = "Arch Packager <arch@example.com>", "pkgbase", "Rpm Packager <rpm@example.com>", "build_host-01.example.org."
		m.IPKFields = map[string]string{"Source": "x", "source": "lower", "X-B": "y", "x-b": "lower-b", "X-A": "z", "X-origin": "o1", "x-Origin": "o2"}
		m.DebFields = map[string]string{"Bugs": "y", "bugs": "lower", "X-B": "1", "X-A": "2", "X-C": "3", "x-c": "lower-c"}
		m.DebTriggers = map[string][]string{"interest": {"a"}, "activate_noawait": {"b"}}
		m.Epoch, m.Release, m.Prerelease, m.Metadata = "1", "2", "rc1", "git"
		m.Changelog = true
		t := tree(env)
		d := metaDoc(m, "deb", t)
		d["changelog"] = filepath.Join(root, "changelog.yaml")
		d["contents"] = fixture.ContentsYAML(specs(payload[1:]), root)
		writeScripts(t, "deb", "normal")
		writeScripts(t, "rpm", "normal")
		writeScripts(t, "apk", "normal")
		writeScripts(t, "archlinux", "normal")
		for _, f := range Formats {
			for _, s := range scriptSlots[f] {
				rel, _ := filepath.Rel(t.Root, scriptPath(t, "normal", s.Key))
				setPath(d, s.Key, filepath.Join(root, rel))
			}
		}
		return d
	}})
	// many files: the archlinux .MTREE and the tar streams span several compressor blocks
	out = append(out, c07Config{name: "many-files", heavy: true, doc: func(env *engine.Env, root string) fixture.Doc {
		return Setting{Name: "default"}.doc([]model.Entry{{Src: "many", Dst: "/opt/many", Type: "tree"}}, root)
	}})
	// sources whose paths are below 100 bytes written relative to the tree and above 100 bytes written absolutely
	out = append(out, c07Config{name: "long-source-paths", doc: func(env *engine.Env, root string) fixture.Doc {
		return Setting{Name: "default"}.doc([]model.Entry{{Src: fixture.LongSrcDir + "/payload.bin", Dst: "/opt/payload.bin"}, {Src: fixture.LongSrcDir + "/settings.conf", Dst: "/etc/settings.conf", Type: "config"},
			{Src: fixture.LongSrcDir + "/*.conf", Dst: "/etc/globbed"}, {Src: "longsrc", Dst: "/opt/longsrc", Type: "tree"}}, root)
	}})
	// destinations that differ only in letter case (files, directories, links): one fixed order
	out = append(out, c07Config{name: "case-twins", doc: func(env *engine.Env, root string) fixture.Doc {
		return Setting{Name: "default"}.doc([]model.Entry{{Src: "doc/README", Dst: "/opt/seed/README"}, {Src: "etc/app.conf", Dst: "/opt/seed/readme"}, {Src: "bin/app", Dst: "/opt/seed/ReadMe"},
			{Dst: "/opt/Data", Type: "dir"}, {Dst: "/opt/data", Type: "dir"}, {Src: "/t", Dst: "/opt/LINK", Type: "symlink"}, {Src: "/t", Dst: "/opt/link", Type: "symlink"},
			{Src: "etc/app.conf", Dst: "/OPT/x"}, {Src: "etc/app.conf", Dst: "/Opt/x"}}, root)
	}})
	// owner and group names the build host knows too (daemon, bin, nobody), no maintainer configured: what the host's
	// user database and the maintainer's environment variables say is not an input
	out = append(out, c07Config{name: "host-known-owners", doc: func(env *engine.Env, root string) fixture.Doc {
		d := Setting{Name: "default"}.doc([]model.Entry{{Src: "bin/app", Dst: "/usr/bin/app", Owner: "daemon", Group: "daemon"}, {Dst: "/var/lib/app", Type: "dir", Owner: "nobody", Group: "nogroup"}, {Src: "etc/app.conf", Dst: "/etc/app.conf", Type: "config", Owner: "bin", Group: "bin"}, {Src: "tree", Dst: "/opt/tree", Type: "tree", Owner: "daemon", Group: "bin"}}, root)
		delete(d, "maintainer")
		return d
	}})
	// files larger than every compressor window / parallel-compression threshold (21 MiB in all)
	out = append(out, c07Config{name: "huge-files", heavy: true, doc: func(env *engine.Env, root string) fixture.Doc {
		return Setting{Name: "default"}.doc([]model.Entry{{Src: "huge", Dst: "/opt/huge", Type: "tree"}, {Src: "huge/noise.bin", Dst: "/opt/second-copy.bin"}}, root)
	}})
	return out
}

func setupC07(env *engine.Env) error {
	return setupTree(env)
}

func init() {
	engine.Register(&engine.Prop{
		ID:    "C07",
		Level: "model_checking",
		Rule: "configurations = the 25 entry templates, every compression setting with a multi-block payload, a metadata-rich configuration with scripts and changelog, a 2000-file tree, a 30 MiB payload of files beyond every compressor window; x 5 formats x the environment alphabet: " +
			"inproc (3 repetitions, GOMAXPROCS in {1,2,4,8,16}), subproc (the nfpm binary built from the tree under TZ in {UTC, Asia/Tokyo, America/St_Johns}, GOMAXPROCS in {1,16}, sources by relative path from another working directory), sde (SOURCE_DATE_EPOCH in {0, 1, 1700000000} instead of mtime), wallclock (two builds 2.1 s apart), hostfile (a file does / does not exist on the build host at a symlink entry's target), " +
			"and on the woven copy: clock (two clocks 400 days apart; any byte difference or any clock read with a configured mtime is a violation), maporder (every woven range over a string-keyed map under all key orders for <=4 keys, else sorted/reversed/rotations, <=1 deviation; thorough 2), hostname (two host names with rpm.buildhost configured); " +
			"oracle: all outputs of one configuration byte-identical, and every timestamp decoded anywhere in the package is the configured mtime, an explicit entry mtime or a source's on-disk mtime; non-trivial = a package was built; distinct = distinct (configuration, format, output hash)",
		Assumptions: []string{
			"interleavings inside pgzip/zstd are not enumerated; GOMAXPROCS is an environment dimension",
			"allowed timestamps: configured mtime, the explicit entry mtime of the alphabet, any fixture file's mtime (2001-2006), script files' mtime; a time with a sub-second part may be stored as the second it falls in or as the nearest second; anything else is unexplained, anything within a day of the build is a clock leak",
		},
		Setup:  setupC07,
		Decode: decodeInto[C07Case],
		Bounds: func(env *engine.Env) map[string]any {
			return map[string]any{"parts": []string{"inproc", "subproc", "sde", "wallclock", "hostfile", "clock", "maporder", "hostname"}, "formats": Formats}
		},
		Enumerate: func(env *engine.Env, yield func(any) bool) {
			if env.Data["tree"] == nil {
				return
			}
			cfgs := c07Configs(env)
			for _, part := range []string{"inproc", "clock", "maporder", "sde", "subproc", "hostname"} {
				for i, c := range cfgs {
					for _, f := range Formats {
						if c.only != "" && c.only != f {
							continue
						}
						if part == "hostname" && f != "rpm" {
							continue
						}
						if !env.Thorough() && (part == "subproc" || part == "sde") && i >= c01NQuick && strings.HasPrefix(c.name, "entry-") {
							continue
						}
						if part == "maporder" && c.heavy {
							continue
						}
						if !yield(C07Case{Part: part, Config: i, Format: f}) {
							return
						}
					}
				}
			}
			for _, f := range Formats {
				if !yield(C07Case{Part: "hostfile", Format: f}) {
					return
				}
			}
			if !yield(C07Case{Part: "wallclock"}) {
				return
			}
		},
		Check: checkC07,
	})
}

// touchAccessTimes moves the access time (and with it the inode change time) of everything below root, keeping mtimes.
func touchAccessTimes(root string) {
	at := time.Now().Add(-time.Duration(time.Now().UnixNano()%1000) * time.Hour)
	filepath.Walk(root, func(p string, fi os.FileInfo, err error) error {
		if err != nil || fi.Mode()&os.ModeSymlink != 0 {
			return nil
		}
		os.Chtimes(p, at, fi.ModTime())
		return nil
	})
}

func shortHash(b []byte) string {
	s := sha256.Sum256(b)
	return hex.EncodeToString(s[:8])
}

// allowedStamps is the set of timestamps a package may legitimately carry.
func allowedStamps(env *engine.Env, extra ...time.Time) map[int64]string {
	t := tree(env)
	ok := map[int64]string{}
	// a time that is not a whole second is stored in a one-second field as the second it falls in or as the nearest
	// second: both are "the configured time" at the field's resolution (which of the two is C01's and C03's matter)
	add := func(t time.Time, what string) {
		ok[t.Unix()] = what
		if t.Nanosecond() != 0 {
			ok[t.Unix()+1] = what + " (to the nearest second)"
		}
	}
	add(PkgMTime, "configured mtime")
	add(EntryMTime, "entry mtime")
	add(fixture.T0, "script/fixture mtime")
	for _, d := range []time.Duration{500, 600, 750, 999} {
		add(PkgMTime.Add(d*time.Millisecond), "configured mtime")
		add(EntryMTime.Add(d*time.Millisecond), "entry mtime")
	}
	for _, n := range t.Nodes {
		if strings.HasPrefix(n.Rel, "epochs") {
			continue // no configuration of this check ships them (their times include second 0 of 1970)
		}
		add(n.MTime, "mtime of source "+n.Rel)
	}
	for _, e := range extra {
		add(e, "configured")
	}
	return ok
}

func judgeStamps(env *engine.Env, f string, data []byte, allowed map[int64]string, start time.Time, viol func(sig, format string, a ...any)) {
	pkg, err := pkgread.Decode(f, data, env.Tools)
	if err != nil {
		viol("repro:undecodable:"+f, "%v", err)
		return
	}
	// numeric user and group ids cannot be configured (owners are names): an id other than 0 comes from the build host
	for i := range pkg.Entries {
		e := &pkg.Entries[i]
		if e.UID != 0 || e.GID != 0 {
			viol("repro:host-ids:"+f, "%s carries the numeric ids %d:%d (owner %q group %q): ids are not part of a configuration, they can only come from the build host's user database", e.Path, e.UID, e.GID, e.Owner, e.Group)
			break
		}
	}
	for _, s := range pkg.Stamps {
		if _, ok := allowed[s.Unix]; ok {
			continue
		}
		where := s.Where
		if i := strings.IndexAny(where, ":"); i >= 0 {
			where = where[:i]
		}
		if s.Unix > start.Add(-24*time.Hour).Unix() && s.Unix < start.Add(24*time.Hour).Unix() {
			viol("repro:clock-leak:"+f+":"+where, "timestamp %s at %s is the build-time clock, not the configured mtime", time.Unix(s.Unix, 0).UTC().Format(time.RFC3339), s.Where)
		} else {
			viol("repro:timestamp-unexplained:"+f+":"+where, "timestamp %s (%d) at %s is neither the configured mtime, an entry mtime nor a source's mtime", time.Unix(s.Unix, 0).UTC().Format(time.RFC3339), s.Unix, s.Where)
		}
	}
}

func checkC07(env *engine.Env, ci any) engine.Outcome {
	c := ci.(C07Case)
	t := tree(env)
	var out engine.Outcome
	start := time.Now()
	viol := func(sig, format string, a ...any) {
		out.Violations = append(out.Violations, engine.Violation{Sig: sig,
			Detail: fmt.Sprintf("part=%s config=#%d format=%s\n", c.Part, c.Config, c.Format) + fmt.Sprintf(format, a...)})
	}
	f := c.Format
	switch c.Part {
	case "wallclock":
		// builds 2.1 s apart: clock reads inside third-party code would show
		cfgs := c07Configs(env)
		pick := []int{0, 6, len(cfgs) - 2}
		for i, c := range cfgs {
			if strings.HasPrefix(c.name, "changelog-") {
				pick = append(pick, i)
			}
		}
		type k struct {
			i int
			f string
		}
		first := map[k][]byte{}
		for _, i := range pick {
			for _, f := range Formats {
				b, err := buildYAML(cfgs[i].doc(env, t.Root).YAML(), f)
				if err == nil {
					first[k{i, f}] = b
				}
				out.Transitions++
			}
		}
		time.Sleep(2100 * time.Millisecond)
		for _, i := range pick {
			for _, f := range Formats {
				b, err := buildYAML(cfgs[i].doc(env, t.Root).YAML(), f)
				out.Transitions++
				if err != nil {
					continue
				}
				out.Nontrivial = true
				if a, ok := first[k{i, f}]; ok && !bytes.Equal(a, b) {
					viol("repro:differs:wallclock:"+f, "config %s: two builds 2.1 s apart differ (%s vs %s)", cfgs[i].name, shortHash(a), shortHash(b))
				}
			}
		}
		out.Key = "wallclock"
		return out
	case "hostfile":
		// a path the package mentions - a link's target, the destination of a ghost, a directory, a file, a config file -
		// does not exist on the build host / is a file there (mode 0600, 0755) / is a directory there (mode 0700)
		target := filepath.Join(env.Scratch, "hostfile-target")
		os.RemoveAll(target)
		defer os.RemoveAll(target)
		out.Key = "hostfile:" + f
		for _, e := range []model.Entry{
			{Src: target, Dst: "/usr/bin/link", Type: "symlink"},
			{Dst: target, Type: "ghost"},
			{Dst: target, Type: "ghost", HasInfo: true, Owner: "app"},
			{Dst: target, Type: "dir"},
			{Src: "etc/app.conf", Dst: target},
			{Src: "etc/app.conf", Dst: target, Type: "config|noreplace"},
			{Src: "tree", Dst: target, Type: "tree"},
		} {
			d := Setting{Name: "default"}.doc([]model.Entry{e}, t.Root)
			var outs [][]byte
			var labels []string
			for _, st := range []string{"absent", "file-0600", "file-0755", "dir-0700"} {
				os.RemoveAll(target)
				switch st {
				case "file-0600":
					os.WriteFile(target, []byte("x"), 0o600)
				case "file-0755":
					os.WriteFile(target, []byte("other content"), 0o755)
					os.Chmod(target, 0o755)
				case "dir-0700":
					os.Mkdir(target, 0o700)
					os.WriteFile(filepath.Join(target, "inside"), []byte("y"), 0o640)
				}
				b, err := buildYAML(d.YAML(), f)
				out.Transitions++
				if err != nil {
					viol("repro:build-error:"+f, "host path %s, entry %s %s: %v", st, e.Type, e.Dst, err)
					return out
				}
				outs = append(outs, b)
				labels = append(labels, st+" "+shortHash(b))
			}
			os.RemoveAll(target)
			out.Nontrivial = true
			for _, b := range outs[1:] {
				if !bytes.Equal(b, outs[0]) {
					kind := e.Type
					if kind == "" {
						kind = "file"
					}
					viol("repro:differs:hostfile:"+f+":"+kind, "the package bytes of a %s entry depend on what exists on the build host at a path that is not a referenced source (%s): %v", kind, target, labels)
					break
				}
			}
		}
		return out
	}
	cfg := c07Configs(env)[c.Config]
	text := cfg.doc(env, t.Root).YAML()
	allowed := allowedStamps(env)
	outs := map[string][]byte{}
	add := func(label string, b []byte, err error) {
		out.Transitions++
		if err != nil {
			viol("repro:build-error:"+f+":"+c.Part, "%s: %v", label, err)
			return
		}
		outs[label] = b
	}
	switch c.Part {
	case "inproc":
		reps, procs := 3, []int{1, 2, 4, 8, 16}
		if env.Thorough() {
			reps, procs = 6, []int{1, 2, 3, 4, 5, 6, 7, 8, 9, 10, 11, 12, 13, 14, 15, 16}
		}
		for i := 0; i < reps; i++ {
			b, err := buildYAML(text, f)
			add(fmt.Sprintf("repeat-%d", i), b, err)
		}
		// the sources are read (access times change) and their inode change times move: neither is an input
		touchAccessTimes(t.Root)
		ba, erra := buildYAML(text, f)
		add("after-access-time-change", ba, erra)
		old := runtime.GOMAXPROCS(0)
		for _, n := range procs {
			runtime.GOMAXPROCS(n)
			b, err := buildYAML(text, f)
			add(fmt.Sprintf("GOMAXPROCS=%d", n), b, err)
		}
		runtime.GOMAXPROCS(old)
		if b, ok := outs["repeat-0"]; ok {
			judgeStamps(env, f, b, allowed, start, viol)
		}
	case "sde":
		// SOURCE_DATE_EPOCH instead of a configured mtime
		d := cfg.doc(env, t.Root)
		delete(d, "mtime")
		for _, sde := range []string{"0", "1", "1700000000", "1700000000/version_schema=none"} {
			// (the last one: the version taken as written - the package's time is SOURCE_DATE_EPOCH all the same)
			if v, ok := strings.CutSuffix(sde, "/version_schema=none"); ok {
				sde = v
				d["version_schema"] = "none"
			}
			os.Setenv("SOURCE_DATE_EPOCH", sde)
			a, err := buildYAML(d.YAML(), f)
			add("sde="+sde+"#1", a, err)
			b, err2 := buildYAML(d.YAML(), f)
			os.Unsetenv("SOURCE_DATE_EPOCH")
			out.Transitions++
			if err != nil || err2 != nil {
				continue
			}
			if !bytes.Equal(a, b) {
				viol("repro:differs:sde:"+f, "SOURCE_DATE_EPOCH=%s: two builds differ", sde)
			}
			var n int64
			fmt.Sscan(sde, &n)
			al := allowedStamps(env, time.Unix(n, 0))
			delete(al, PkgMTime.Unix())
			judgeStamps(env, f, a, al, start, viol)
			delete(outs, "sde="+sde+"#1") // different epochs legitimately differ
		}
	case "subproc":
		bin, err := nfpmBinary(env)
		if err != nil {
			out.HarnessError = err.Error()
			return out
		}
		work, _ := os.MkdirTemp(env.Scratch, "c07-")
		defer os.RemoveAll(work)
		runBin := func(label, text, cwd string, envv ...string) {
			cp := filepath.Join(work, "nfpm.yaml")
			os.WriteFile(cp, []byte(text), 0o644)
			target := filepath.Join(work, "out.pkg")
			os.Remove(target)
			cmd := exec.Command(bin, "package", "-f", cp, "-p", f, "-t", target)
			var penv []string
			for _, e := range envv {
				switch {
				case strings.HasPrefix(e, "UMASK="):
					cmd = exec.Command("sh", "-c", "umask "+strings.TrimPrefix(e, "UMASK=")+`; exec "$0" "$@"`, bin, "package", "-f", cp, "-p", f, "-t", target)
				default:
					penv = append(penv, e)
				}
			}
			cmd.Dir = cwd
			cmd.Env = append(os.Environ(), penv...)
			if o, err := cmd.CombinedOutput(); err != nil {
				add(label, nil, fmt.Errorf("%v: %s", err, o))
				return
			}
			b, err := os.ReadFile(target)
			add(label, b, err)
		}
		b0, err := buildYAML(text, f)
		add("in-process", b0, err)
		runBin("TZ=UTC", text, work, "TZ=UTC")
		runBin("TZ=Asia/Tokyo", text, work, "TZ=Asia/Tokyo")
		runBin("TZ=America/St_Johns", text, work, "TZ=America/St_Johns")
		runBin("GOMAXPROCS=1", text, work, "GOMAXPROCS=1")
		runBin("GOMAXPROCS=16", text, work, "GOMAXPROCS=16")
		// what was at the target path before is not an input
		func() {
			cp := filepath.Join(work, "nfpm.yaml")
			os.WriteFile(cp, []byte(text), 0o644)
			target := filepath.Join(work, "pre-existing.pkg")
			os.WriteFile(target, bytes.Repeat([]byte("an earlier, larger package\n"), 200000), 0o644)
			cmd := exec.Command(bin, "package", "-f", cp, "-p", f, "-t", target)
			cmd.Dir = work
			cmd.Env = os.Environ()
			if o, err := cmd.CombinedOutput(); err != nil {
				add("over-existing-file", nil, fmt.Errorf("%v: %s", err, o))
				return
			}
			b, err := os.ReadFile(target)
			add("over-existing-file", b, err)
		}()
		// the process umask, locale and home directory are not inputs
		runBin("umask=077", text, work, "UMASK=077")
		runBin("umask=000", text, work, "UMASK=000")
		runBin("LC_ALL=tr_TR.UTF-8", text, work, "LC_ALL=tr_TR.UTF-8", "LANG=tr_TR.UTF-8")
		runBin("HOME=/nonexistent", text, work, "HOME=/nonexistent", "USER=someone", "LOGNAME=someone")
		// the variables packaging tools traditionally read for the maintainer's identity, the temporary directory, and
		// SOURCE_DATE_EPOCH next to a configured mtime (the configured one is the package's time)
		runBin("maintainer-env", text, work, "DEBFULLNAME=Env Maintainer", "DEBEMAIL=env@maintainer.example", "EMAIL=env2@maintainer.example", "NAME=Env Name", "GIT_AUTHOR_NAME=Git Author", "GIT_AUTHOR_EMAIL=git@author.example", "PACKAGER=Env Packager <p@env.example>", "RPM_PACKAGER=x", "HOSTNAME=envhost.example", "HOST=envhost2.example")
		func() {
			td := filepath.Join(work, "other-tmp")
			os.Mkdir(td, 0o755)
			runBin("TMPDIR", text, work, "TMPDIR="+td, "TMP="+td, "TEMP="+td)
		}()
		if strings.Contains(text, "\nmtime: ") {
			// later and earlier than the configured mtime
			runBin("SOURCE_DATE_EPOCH-next-to-mtime", text, work, "SOURCE_DATE_EPOCH=1500000000")
			runBin("earlier-SOURCE_DATE_EPOCH-next-to-mtime", text, work, "SOURCE_DATE_EPOCH=1000000000")
		}
		if env.Thorough() {
			for _, tz := range []string{"Pacific/Chatham", "Australia/Lord_Howe", "Pacific/Kiritimati", "Etc/GMT+12", "Europe/Dublin"} {
				runBin("TZ="+tz, text, work, "TZ="+tz)
			}
			for _, n := range []string{"2", "3", "4", "8"} {
				runBin("GOMAXPROCS="+n, text, work, "GOMAXPROCS="+n)
			}
		}
		// sources referenced relative to another working directory
		rel := cfg.doc(env, ".").YAML()
		runBin("relative-sources", rel, t.Root)
	case "clock", "maporder", "hostname":
		if !wovenAvailable {
			out.HarnessError = "part " + c.Part + " needs the woven build: " + wovenNote()
			return out
		}
		checkC07Woven(env, c, text, f, outs, add, viol, &out)
	}
	// all outputs of this configuration must be byte-identical
	var labels []string
	for l := range outs {
		labels = append(labels, l)
	}
	sort.Strings(labels)
	if len(labels) > 0 {
		out.Nontrivial = true
		ref := outs[labels[0]]
		for _, l := range labels[1:] {
			if !bytes.Equal(outs[l], ref) {
				dim := l
				if i := strings.IndexAny(dim, "=-#"); i > 0 {
					dim = dim[:i]
				}
				viol("repro:differs:"+c.Part+":"+dim+":"+f, "config %s: the package built under %q (%d bytes, %s) differs from the one built under %q (%d bytes, %s)", cfg.name, l, len(outs[l]), shortHash(outs[l]), labels[0], len(ref), shortHash(ref))
			}
		}
		out.Key = fmt.Sprintf("%s:%d:%s:%s", c.Part, c.Config, f, shortHash(ref))
	} else {
		out.Key = fmt.Sprintf("%s:%d:%s:none", c.Part, c.Config, f)
	}
	return out
}

var _ = nfpm.Enumerate
