//go:build !verif

package props

import "verif/mc/engine"

func checkC07Woven(env *engine.Env, c C07Case, text, f string, outs map[string][]byte, add func(string, []byte, error), viol func(sig, format string, a ...any), out *engine.Outcome) {
}
