//go:build verif

package props

import (
	"bytes"
	"fmt"
	"time"

	"verif/mc/engine"

	"github.com/goreleaser/nfpm/v2/vrt"
)

// checkC07Woven runs the parts of C07 that need the seams of the woven copy.
func checkC07Woven(env *engine.Env, c C07Case, text, f string, outs map[string][]byte, add func(string, []byte, error), viol func(sig, format string, a ...any), out *engine.Outcome) {
	switch c.Part {
	case "clock":
		t1 := time.Date(2031, 1, 2, 3, 4, 5, 0, time.UTC)
		for i, clk := range []time.Time{t1, t1.Add(400 * 24 * time.Hour)} {
			vrt.SetClock(clk)
			b, err := buildYAML(text, f)
			reads := vrt.NowCalls()
			vrt.SetClock(time.Time{})
			add(fmt.Sprintf("clock-%d", i), b, err)
			if reads > 0 {
				viol("repro:clock-read:"+f, "the package mtime is configured, yet nfpm read the clock %d time(s) while packaging", reads)
			}
		}
	case "hostname":
		for i, h := range []string{"host-a.example", "host-b.example"} {
			vrt.SetHostname(h)
			b, err := buildYAML(text, f)
			calls := vrt.HostnameCalls()
			vrt.SetHostname("")
			add(fmt.Sprintf("hostname-%d", i), b, err)
			if calls > 0 {
				viol("repro:hostname-read:"+f, "rpm.buildhost is configured, yet the build host's name was read %d time(s)", calls)
			}
		}
	case "maporder":
		bound := 1
		if env.Thorough() {
			bound = 2
		}
		var ref []byte
		refErr := ""
		n := 0
		vrt.SetMapOrder(true)
		st := explore(bound, 3000, func(prefix []int) []vrt.Point {
			vrt.BeginChoices(prefix)
			b, err := buildYAML(text, f)
			pts := vrt.EndChoices()
			out.Transitions++
			e := ""
			if err != nil {
				e = err.Error()
			}
			if n == 0 {
				ref, refErr = b, e
			} else if !bytes.Equal(b, ref) || (e == "") != (refErr == "") {
				viol("repro:differs:maporder:"+f, "the package depends on hash-map iteration order: order choices %v give %s (err %q), sorted order gives %s (err %q); choice points: %s", prefix, shortHash(b), e, shortHash(ref), refErr, descPoints(pts))
			}
			n++
			return pts
		})
		ranges := vrt.MapRanges
		vrt.SetMapOrder(false)
		if out.Counters == nil {
			out.Counters = map[string]int{}
		}
		out.Counters["maporder_executions"] += st.Execs
		out.Counters["maporder_ranges_executed"] += ranges
		if st.Capped {
			out.Counters["maporder_capped"]++
		}
		if ref != nil {
			outs["maporder-sorted"] = ref
		}
	}
}

func descPoints(pts []vrt.Point) string {
	s := ""
	for _, p := range pts {
		if p.Chosen != 0 {
			s += fmt.Sprintf("[%s order %d of %d] ", p.Site, p.Chosen, p.N)
		}
	}
	if s == "" {
		return "(none deviating)"
	}
	return s
}
