package props

import (
	"fmt"
	"os"
	"sort"
	"strings"

	"verif/mc/engine"
	"verif/mc/model"
	"verif/mc/pkgread"
)

// C08Case is one content list built for every format.
type C08Case struct {
	Part string        `json:"part"`
	List []model.Entry `json:"list"`
	// Override: a format that has an (unrelated) override block, which makes Config.Get filter the contents
	Override string `json:"override,omitempty"`
	// Umask: the top-level umask setting (0 = unset). Ghost entries keep their default mode 0644 whatever it is.
	Umask int `json:"umask,omitempty"`
	// Debconf: the deb-only debconf members are configured too ("templates", "config", "both"), and all scripts
	Debconf string `json:"debconf,omitempty"`
	// TypeSpelling: the type of the first entry is written like this in the document (another letter case, padded);
	// judged only when the tree builds it: then it means what its lower-case form means
	TypeSpelling string `json:"type_spelling,omitempty"`
	// IPKAlts: ipk alternatives whose targets are the destinations of the entries (metadata next to the typing)
	IPKAlts bool `json:"ipk_alternatives,omitempty"`
}

// c08Names: destination names with a blank, '#', a backslash, non-ASCII bytes, a glob character and a leading dot.
var c08Names = []string{"my app.conf", "a#b.conf", "back\\slash.conf", "caf\u00e9.conf", "st[a]r*.conf", ".hidden", "tab\tx.conf", "percent%41.conf", "semi;colon", "quote'\"q"}

var c08Types = []string{"", "file", "config", "config|noreplace", "config|missingok", "dir", "symlink", "tree", "ghost", "doc", "licence", "license", "readme"}

func c08Entry(typ, tag string, n int, info bool) model.Entry {
	e := model.Entry{Type: typ, Packager: tag, Dst: fmt.Sprintf("/opt/c08/e%d", n)}
	switch typ {
	case "dir", "ghost":
	case "symlink":
		e.Src = "/usr/bin/target"
	case "tree":
		e.Src = "tree/sub"
	case "doc":
		e.Src = "doc/manual.txt"
	case "licence", "license":
		e.Src = "doc/LICENSE"
	case "readme":
		e.Src = "doc/README"
	default:
		e.Src = "etc/app.conf"
	}
	if info {
		e.Owner, e.Group, e.Mode = "app", "grp", 0o640
		if typ == "dir" || typ == "tree" {
			e.Mode = 0o750
		}
	}
	return e
}

var rpmFlagOf = map[string]int64{"config": 1, "config|noreplace": 1 | 16, "config|missingok": 1 | 8, "ghost": 64, "doc": 2, "licence": 128, "license": 128, "readme": 256}

func init() {
	engine.Register(&engine.Prop{
		ID:    "C08",
		Level: "model_checking",
		Rule: "every (entry type x packager tag) pair as singleton (with and without file_info), paired with a plain file, every ordered pair of entry types, and config globs / directory sources expanding one config entry to several files; " +
			"each list is built for all five formats and conffiles / rpm FILEFLAGS+FILEMODES+cpio presence / archlinux backup lines are compared with the declaration; non-trivial = the list has an entry relevant to the format; distinct = distinct registration outcome",
		Assumptions: []string{"rpm flag values are RPMFILE_CONFIG=1 DOC=2 MISSINGOK=8 NOREPLACE=16 GHOST=64 LICENSE=128 README=256 (rpm's rpmfiles.h)"},
		Setup:       setupTree,
		Decode:      decodeInto[C08Case],
		Bounds: func(env *engine.Env) map[string]any {
			return map[string]any{"entry_types": c08Types, "packager_tags": append([]string{""}, Formats...), "formats": Formats}
		},
		Enumerate: func(env *engine.Env, yield func(any) bool) {
			tags := append([]string{""}, Formats...)
			for _, info := range []bool{false, true} {
				for _, typ := range c08Types {
					for _, tag := range tags {
						if !yield(C08Case{Part: "single", List: []model.Entry{c08Entry(typ, tag, 1, info)}}) {
							return
						}
					}
				}
			}
			for _, typ := range c08Types {
				for _, tag := range tags {
					if !yield(C08Case{Part: "with-plain", List: []model.Entry{c08Entry(typ, tag, 1, false), c08Entry("", "", 2, false)}}) {
						return
					}
				}
			}
			for _, typ := range []string{"config", "config|noreplace", "config|missingok", ""} {
				for _, tag := range tags {
					for _, src := range []string{"etc/conf.d/*.conf", "etc/conf.d", "etc/con*/*.conf", "mixed/*.conf", "mixed", "mixed/[a-z]*.conf"} {
						e := model.Entry{Src: src, Dst: "/etc/c08", Type: typ, Packager: tag}
						if !yield(C08Case{Part: "glob", List: []model.Entry{e, c08Entry("", "", 2, false)}}) {
							return
						}
					}
				}
			}
			for _, a := range c08Types {
				for _, b := range c08Types {
					if !yield(C08Case{Part: "pair", List: []model.Entry{c08Entry(a, "", 1, false), c08Entry(b, "", 2, true)}}) {
						return
					}
				}
			}
			// packager-specific entries in every position, with an override block for one format
			for _, typ := range []string{"config|noreplace", "config|missingok", "config", "ghost", "doc"} {
				for _, f1 := range Formats {
					for _, f2 := range Formats {
						if f1 == f2 {
							continue
						}
						for _, ov := range Formats {
							l := []model.Entry{c08Entry(typ, f1, 1, false), c08Entry("", "", 2, false), c08Entry("config", f2, 3, false)}
							if !yield(C08Case{Part: "override-history", List: l, Override: ov}) {
								return
							}
						}
					}
				}
			}
			// the umask setting must not reach ghost defaults or the typing of anything else
			for _, um := range []int{0o002, 0o027, 0o077, 0o777} {
				for _, typ := range c08Types {
					for _, info := range []bool{false, true} {
						if !yield(C08Case{Part: "umask", Umask: um, List: []model.Entry{c08Entry(typ, "", 1, info), c08Entry("", "", 2, false)}}) {
							return
						}
					}
				}
			}
			// typed entries whose source is a symbolic link on the build host
			for _, typ := range c08Types {
				if typ == "dir" || typ == "ghost" || typ == "symlink" || typ == "tree" {
					continue
				}
				for _, src := range []string{"link", "mixed/0link.conf", "links/plain"} {
					e := c08Entry(typ, "", 1, false)
					e.Src = src
					if !yield(C08Case{Part: "link-source", List: []model.Entry{e, c08Entry("config", "", 2, false)}}) {
						return
					}
				}
			}
			// entries that opt in to environment expansion keep their type and tag
			for _, typ := range c08Types {
				for _, tag := range tags {
					e := c08Entry(typ, tag, 1, false)
					e.Expand = true
					if !yield(C08Case{Part: "expand", List: []model.Entry{e, c08Entry("config", "", 2, false)}}) {
						return
					}
				}
			}
			// configuration files (and the rpm-only kinds) whose names need care in some metadata syntax
			for _, name := range c08Names {
				for _, typ := range []string{"config", "config|noreplace", "config|missingok", "ghost", "doc", ""} {
					e := c08Entry(typ, "", 1, false)
					e.Dst = "/etc/c08 names/" + name
					if !yield(C08Case{Part: "names", List: []model.Entry{e, c08Entry("config", "", 2, false)}}) {
						return
					}
				}
			}
			// types written in another letter case or padded: refused, or meaning what the lower-case form means
			for _, typ := range c08Types {
				if typ == "" {
					continue
				}
				for _, sp := range []string{strings.ToUpper(typ), strings.ToUpper(typ[:1]) + typ[1:], " " + typ, typ + " "} {
					if !yield(C08Case{Part: "type-spelling", TypeSpelling: sp, List: []model.Entry{c08Entry(typ, "", 1, false), c08Entry("", "", 2, false)}}) {
						return
					}
				}
			}
			for _, sp := range []string{"Config|NoReplace", "config|NoReplace", "config | noreplace", "Config|MissingOk"} {
				typ := strings.ToLower(strings.ReplaceAll(sp, " ", ""))
				if !yield(C08Case{Part: "type-spelling", TypeSpelling: sp, List: []model.Entry{c08Entry(typ, "", 1, false), c08Entry("", "", 2, false)}}) {
					return
				}
			}
			// ipk alternatives that point at the package's own configuration files (metadata: the files stay registered)
			for _, typ := range []string{"config", "config|noreplace", "config|missingok", ""} {
				if !yield(C08Case{Part: "ipk-alternatives", IPKAlts: true, List: []model.Entry{c08Entry(typ, "", 1, false), c08Entry("config", "", 2, false)}}) {
					return
				}
			}
			// destinations below the directories whose files some tools type by location (documentation, licences, manual
			// pages, /etc): the type is what the entry declares, wherever it goes
			for _, dir := range []string{"/usr/share/doc/pkg/", "/usr/share/doc/", "/usr/share/licenses/pkg/", "/usr/share/man/man1/", "/etc/", "/etc/pkg/", "/usr/share/info/", "/var/log/"} {
				for _, typ := range c08Types {
					if typ == "tree" {
						continue
					}
					e := c08Entry(typ, "", 1, false)
					e.Dst = dir + "c08-" + strings.NewReplacer("|", "-").Replace(typ) + ".x"
					if !yield(C08Case{Part: "typed-by-location", List: []model.Entry{e, c08Entry("", "", 2, false)}}) {
						return
					}
				}
			}
			// a ghost that names a source (its content is not shipped), with and without file_info, an empty source
			for _, src := range []string{"etc/app.conf", "etc/empty", "bin/app"} {
				for _, info := range []bool{false, true} {
					e := c08Entry("ghost", "", 1, info)
					e.Src = src
					if !yield(C08Case{Part: "ghost-src", List: []model.Entry{e, c08Entry("config", "", 2, false)}}) {
						return
					}
					if !yield(C08Case{Part: "ghost-src", List: []model.Entry{e}}) {
						return
					}
				}
			}
			// packages whose files are all empty (installed size 0): configuration files are registered all the same
			for _, typ := range []string{"config", "config|noreplace", "config|missingok"} {
				e := c08Entry(typ, "", 1, false)
				e.Src = "etc/empty"
				e2 := c08Entry("", "", 2, false)
				e2.Src = "etc/empty"
				for _, l := range [][]model.Entry{{e}, {e, e2}, {e, c08Entry("dir", "", 3, false)}, {e, c08Entry("symlink", "", 3, false)}} {
					if !yield(C08Case{Part: "empty-files", List: l}) {
						return
					}
				}
			}
			// every registering type next to the maintainer scripts and the deb-only debconf members
			for _, dc := range []string{"both", "templates", "config"} {
				for _, typ := range []string{"config", "config|noreplace", "config|missingok", "ghost", "doc"} {
					if !yield(C08Case{Part: "debconf", Debconf: dc, List: []model.Entry{c08Entry(typ, "", 1, false), c08Entry("", "", 2, false)}}) {
						return
					}
				}
			}
			// whole destination paths: longer than 255 bytes (ordinary components), below a dot-named top-level directory
			longDir := "/etc"
			for len(longDir) < 280 {
				longDir += "/component-" + fmt.Sprint(len(longDir))
			}
			for _, dst := range []string{longDir + "/app.conf", longDir[:240] + "/x.conf", "/.app/settings.conf", "/.config", "/..conf/..x", "/etc/.hidden/.x.conf", "./.rel/x.conf"} {
				for _, typ := range []string{"config", "config|noreplace", "config|missingok", "ghost", "doc", "license", "readme", ""} {
					e := c08Entry(typ, "", 1, false)
					e.Dst = dst
					if !yield(C08Case{Part: "paths", List: []model.Entry{e, c08Entry("config", "", 2, false)}}) {
						return
					}
				}
			}
			// file_info that states only some of its fields (the others take the documented defaults)
			for _, typ := range c08Types {
				for mask := 1; mask < 16; mask++ {
					e := c08Entry(typ, "", 1, false)
					e.HasInfo = true
					if mask&1 != 0 {
						e.Owner = "app"
					}
					if mask&2 != 0 {
						e.Group = "grp"
					}
					if mask&4 != 0 {
						e.MTime = EntryMTime
					}
					if mask&8 != 0 {
						e.Mode = 0o600
						if typ == "dir" || typ == "tree" {
							e.Mode = 0o700
						}
					}
					if !yield(C08Case{Part: "partial-info", List: []model.Entry{e, c08Entry("", "", 2, false)}}) {
						return
					}
				}
			}
			if env.Thorough() {
				// every ordered triple of entry types
				for _, a := range c08Types {
					for _, b := range c08Types {
						for _, c := range c08Types {
							if !yield(C08Case{Part: "triple", List: []model.Entry{c08Entry(a, "", 1, false), c08Entry(b, "", 2, true), c08Entry(c, "", 3, false)}}) {
								return
							}
						}
					}
				}
				// every ordered pair under every umask, and every (type, tag) pair with file_info
				for _, um := range []int{0o027, 0o077, 0o777} {
					for _, a := range c08Types {
						for _, b := range c08Types {
							if !yield(C08Case{Part: "umask-pair", Umask: um, List: []model.Entry{c08Entry(a, "", 1, false), c08Entry(b, "", 2, true)}}) {
								return
							}
						}
					}
				}
				for _, name := range c08Names {
					for _, typ := range c08Types {
						for _, tag := range tags {
							e := c08Entry(typ, tag, 1, false)
							e.Dst = "/etc/c08 names/" + name
							if !yield(C08Case{Part: "names", List: []model.Entry{e}}) {
								return
							}
						}
					}
				}
				for _, ov := range Formats {
					for _, a := range c08Types {
						for _, ta := range tags {
							if !yield(C08Case{Part: "override-history", Override: ov, List: []model.Entry{c08Entry(a, ta, 1, false), c08Entry("config", "", 2, false)}}) {
								return
							}
						}
					}
				}
			}
			{
				for _, a := range c08Types {
					for _, ta := range tags {
						for _, b := range c08Types {
							for _, tb := range tags {
								if !yield(C08Case{Part: "pair-tagged", List: []model.Entry{c08Entry(a, ta, 1, false), c08Entry(b, tb, 2, false)}}) {
									return
								}
							}
						}
					}
				}
			}
		},
		Check: checkC08,
	})
}

func checkC08(env *engine.Env, ci any) engine.Outcome {
	c := ci.(C08Case)
	t := tree(env)
	var out engine.Outcome
	set := Setting{Name: "default"}
	if c.Umask != 0 {
		set = Setting{Name: fmt.Sprintf("umask=%#o", c.Umask), Umask: os.FileMode(c.Umask)}
	}
	doc := set.doc(c.List, t.Root)
	if c.Override != "" {
		doc["overrides"] = map[string]any{c.Override: map[string]any{"depends": []any{"only-for-" + c.Override}}}
	}
	if c.Debconf != "" {
		for _, f := range Formats {
			writeScripts(t, f, "normal")
			for _, sl := range scriptSlots[f] {
				if f == "deb" && ((sl.Key == "deb.scripts.templates" && c.Debconf == "config") || (sl.Key == "deb.scripts.config" && c.Debconf == "templates")) {
					continue
				}
				setPath(doc, sl.Key, scriptPath(t, "normal", sl.Key))
			}
		}
	}
	if c.IPKAlts {
		var alts []any
		for i, e := range c.List {
			alts = append(alts, map[string]any{"priority": 100 + i, "target": e.Dst, "link_name": fmt.Sprintf("/usr/bin/alt%d", i)})
		}
		doc["ipk"] = map[string]any{"alternatives": alts}
	}
	if c.TypeSpelling != "" {
		if l, ok := doc["contents"].([]any); ok && len(l) > 0 {
			if m, ok := l[0].(map[string]any); ok {
				m["type"] = c.TypeSpelling
			}
		}
	}
	text := doc.YAML()
	var keys []string
	// judge applies the typing oracle to one built package of format f.
	judge := func(f string, data []byte, err error, stage string) {
		out.Transitions++
		want := model.Plan(c.List, f, set.umask(), set.pkgMTime(), false, t)
		viol := func(sig, format string, a ...any) {
			if stage != "" {
				sig += ":" + stage
			}
			out.Violations = append(out.Violations, engine.Violation{Sig: sig,
				Detail: fmt.Sprintf("format=%s stage=%q list=%s\n", f, stage, descList(c.List)) + fmt.Sprintf(format, a...)})
		}
		if want.Unclear != "" || want.Collision || want.OtherErr != "" {
			return
		}
		if err != nil && c.TypeSpelling != "" {
			return // this tree does not take the spelling: nothing to judge
		}
		if err != nil {
			viol("typing:build-error:"+f+":"+kindsOf(c.List), "valid configuration, packaging failed: %v", err)
			return
		}
		pkg, err := pkgread.Decode(f, data, env.Tools)
		if err != nil {
			viol("typing:undecodable:"+f, "package cannot be decoded: %v", err)
			return
		}
		var wantConf []string
		kindOf := map[string]string{}
		for _, w := range want.Entries {
			p := strings.TrimRight(w.Dst, "/")
			kindOf[p] = w.Kind
			if model.IsConfig(w.Kind) {
				wantConf = append(wantConf, p)
			}
			if w.Kind != "implicit dir" {
				out.Nontrivial = true
			}
		}
		sort.Strings(wantConf)
		switch f {
		case "deb", "ipk":
			got := append([]string{}, pkg.Conffiles...)
			sort.Strings(got)
			if !pkg.HasConffile && len(wantConf) > 0 {
				viol("typing:conffiles-missing:"+f, "no conffiles member, expected %v", wantConf)
			}
			if strings.Join(got, "\n") != strings.Join(wantConf, "\n") {
				viol("typing:conffiles:"+f+":"+diffClass(got, wantConf, kindOf), "conffiles lists %v, declared configuration files are %v", got, wantConf)
			}
			keys = append(keys, f+":conf="+strings.Join(got, ","))
		case "archlinux":
			got := append([]string{}, pkg.Conffiles...)
			sort.Strings(got)
			if strings.Join(got, "\n") != strings.Join(wantConf, "\n") {
				viol("typing:backup:archlinux:"+diffClass(got, wantConf, kindOf), ".PKGINFO backup lines %v, declared configuration files are %v", got, wantConf)
			}
			keys = append(keys, f+":backup="+strings.Join(got, ","))
		case "apk":
			keys = append(keys, "apk")
		case "rpm":
			var ks []string
			for i := range pkg.Entries {
				g := &pkg.Entries[i]
				k := kindOf[g.Path]
				wantFlags := rpmFlagOf[k]
				if g.Flags != wantFlags {
					viol("typing:rpm-flags:"+k, "%q (declared %s) has FILEFLAGS %#x, expected %#x", g.Path, k, g.Flags, wantFlags)
				}
				if k == "ghost" {
					if !g.NoData {
						viol("typing:rpm-ghost-payload", "ghost %q is present in the cpio payload", g.Path)
					}
					w := findEntry(want.Entries, g.Path)
					wm := int64(0o644)
					if w != nil && w.Mode != 0 {
						wm = int64(w.Mode)
					}
					if g.Mode != wm || g.Kind != "file" {
						viol("typing:rpm-ghost-mode", "ghost %q has mode %#o kind %s, expected %#o regular file", g.Path, g.Mode, g.Kind, wm)
					}
				} else if g.NoData {
					viol("typing:rpm-no-payload:"+k, "%q (declared %s) is listed in the header without payload", g.Path, k)
				}
				ks = append(ks, fmt.Sprintf("%s=%x", g.Path, g.Flags))
			}
			keys = append(keys, "rpm:"+strings.Join(ks, ","))
		}
		// rpm-only entry kinds never reach another format; nothing undeclared is shipped
		for i := range pkg.Entries {
			g := &pkg.Entries[i]
			k, ok := kindOf[g.Path]
			if !ok {
				viol("typing:extra-entry:"+f, "payload holds %q which the configuration does not denote for %s", g.Path, f)
			} else if f != "rpm" && model.RPMOnly(k) {
				viol("typing:rpm-only-leak:"+f+":"+k, "rpm-only entry %q (%s) is shipped in %s", g.Path, k, f)
			}
		}
		for p, k := range kindOf {
			if f == "rpm" && k == "implicit dir" {
				continue
			}
			if pkg.Entry(p) == nil && p != "" {
				viol("typing:missing-entry:"+f+":"+k, "declared %s %q is absent from the %s package", k, p, f)
			}
		}
	}
	// (1) each format from a freshly parsed configuration
	for _, f := range Formats {
		data, err := buildYAML(text, f)
		judge(f, data, err, "")
	}
	// (2) the same after other operations on ONE parsed configuration: validate,
	// then every format in turn (rpm last, and rpm first) - the declaration must
	// still reach every package manager
	for _, order := range [][]string{{"deb", "apk", "ipk", "archlinux", "rpm"}, {"rpm", "archlinux", "ipk", "apk", "deb"}} {
		cfg, err := parseYAML(text, nil)
		if err != nil {
			break
		}
		_ = cfg.Validate()
		for _, f := range order {
			data, _, err := packageFrom(&cfg, f)
			judge(f, data, err, "after-validate+"+strings.Join(order[:indexOf(order, f)], "+"))
		}
	}
	out.Key = strings.Join(keys, "|")
	return out
}

func indexOf(l []string, x string) int {
	for i, v := range l {
		if v == x {
			return i
		}
	}
	return -1
}

func findEntry(es []model.PEntry, p string) *model.PEntry {
	for i := range es {
		if strings.TrimRight(es[i].Dst, "/") == p {
			return &es[i]
		}
	}
	return nil
}

// diffClass names the entry kinds on which two path lists differ.
func diffClass(got, want []string, kindOf map[string]string) string {
	gs, ws := map[string]bool{}, map[string]bool{}
	for _, g := range got {
		gs[g] = true
	}
	for _, w := range want {
		ws[w] = true
	}
	cls := map[string]bool{}
	for g := range gs {
		if !ws[g] {
			k := kindOf[g]
			if k == "" {
				k = "undeclared"
			}
			cls["extra-"+k] = true
		}
	}
	for w := range ws {
		if !gs[w] {
			cls["missing-"+kindOf[w]] = true
		}
	}
	var out []string
	for k := range cls {
		out = append(out, k)
	}
	sort.Strings(out)
	if len(out) == 0 {
		return "order-or-duplicates"
	}
	return strings.Join(out, ",")
}
