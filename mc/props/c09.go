package props

import (
	"bytes"
	"fmt"
	"os"
	"path/filepath"
	"sort"
	"strings"

	"verif/mc/engine"
	"verif/mc/fixture"
	"verif/mc/pkgread"
)

// scriptSlot describes one configurable lifecycle-script slot of a format.
type scriptSlot struct {
	Key    string // config key path, e.g. scripts.preinstall or rpm.scripts.pretrans
	Target string // name of the slot inside the package
	Mode   int64  // expected member mode (tar based formats), 0 = not applicable
}

var scriptSlots = map[string][]scriptSlot{
	"deb": {
		{"scripts.preinstall", "preinst", 0o755}, {"scripts.postinstall", "postinst", 0o755},
		{"scripts.preremove", "prerm", 0o755}, {"scripts.postremove", "postrm", 0o755},
		{"deb.scripts.rules", "rules", 0o755}, {"deb.scripts.templates", "templates", 0o644}, {"deb.scripts.config", "config", 0o755},
	},
	"ipk": {
		{"scripts.preinstall", "preinst", 0o755}, {"scripts.postinstall", "postinst", 0o755},
		{"scripts.preremove", "prerm", 0o755}, {"scripts.postremove", "postrm", 0o755},
	},
	"rpm": {
		{"scripts.preinstall", "prein", 0}, {"scripts.postinstall", "postin", 0},
		{"scripts.preremove", "preun", 0}, {"scripts.postremove", "postun", 0},
		{"rpm.scripts.pretrans", "pretrans", 0}, {"rpm.scripts.posttrans", "posttrans", 0}, {"rpm.scripts.verify", "verifyscript", 0},
	},
	"apk": {
		{"scripts.preinstall", ".pre-install", 0o755}, {"scripts.postinstall", ".post-install", 0o755},
		{"scripts.preremove", ".pre-deinstall", 0o755}, {"scripts.postremove", ".post-deinstall", 0o755},
		{"apk.scripts.preupgrade", ".pre-upgrade", 0o755}, {"apk.scripts.postupgrade", ".post-upgrade", 0o755},
	},
	"archlinux": {
		{"scripts.preinstall", "pre_install", 0}, {"scripts.postinstall", "post_install", 0},
		{"scripts.preremove", "pre_remove", 0}, {"scripts.postremove", "post_remove", 0},
		{"archlinux.scripts.preupgrade", "pre_upgrade", 0}, {"archlinux.scripts.postupgrade", "post_upgrade", 0},
	},
}

var scriptClasses = []string{"normal", "nonl", "crlf", "high", "shared", "empty", "nul"}

func scriptBytes(class, key string) []byte {
	switch class {
	case "normal":
		return []byte("#!/bin/sh\necho running " + key + "\nexit 0\n")
	case "nonl":
		return []byte("#!/bin/sh\necho " + key + " # no newline at end")
	case "crlf":
		return []byte("#!/bin/sh\r\necho " + key + "\r\n")
	case "high":
		b := []byte("#!/bin/sh\n# " + key + " ")
		for c := 0x80; c <= 0xff; c++ {
			b = append(b, byte(c))
		}
		return append(b, '\n')
	case "shared":
		return []byte("#!/bin/sh\necho one script shared by every slot\n")
	case "empty":
		return []byte{}
	case "nul":
		return []byte("#!/bin/sh\necho " + key + "\x00after-nul\n")
	}
	panic(class)
}

// scriptPath: every slot key has ONE path for all byte classes; the harness
// rewrites the file before each build, so a build must read the script as it is
// at packaging time (a stale per-path cache inside the code under test shows).
func scriptPath(t *fixture.Tree, class, key string) string {
	if class == "shared" {
		return filepath.Join(t.Root, "scripts", "shared.sh")
	}
	return filepath.Join(t.Root, "scripts", strings.ReplaceAll(key, ".", "_")+".sh")
}

func writeScripts(t *fixture.Tree, format, class string) error {
	for _, s := range scriptSlots[format] {
		p := scriptPath(t, class, s.Key)
		if err := os.WriteFile(p, scriptBytes(class, s.Key), 0o755); err != nil {
			return err
		}
		os.Chtimes(p, fixture.T0, fixture.T0)
	}
	return nil
}

func setupScripts(env *engine.Env) error { return setupTree(env) }

// C09Case: one subset of script slots of one format with one class of script bytes.
// Prime, when set, is a byte class with which the same configuration is built
// first (same script paths, other contents) before the files are rewritten.
type C09Case struct {
	Format string `json:"format"`
	Subset uint   `json:"subset"`
	Class  string `json:"class"`
	Prime  string `json:"prime,omitempty"`
	Umask  int    `json:"umask,omitempty"` // top-level umask setting (0 = unset)
}

func setPath(d map[string]any, key string, v any) {
	parts := strings.Split(key, ".")
	m := d
	for _, p := range parts[:len(parts)-1] {
		n, ok := m[p].(map[string]any)
		if !ok {
			n = map[string]any{}
			m[p] = n
		}
		m = n
	}
	m[parts[len(parts)-1]] = v
}

func init() {
	engine.Register(&engine.Prop{
		ID:    "C09",
		Level: "model_checking",
		Rule: "every subset of the configurable script slots of every format (deb 2^7, rpm 2^7, apk 2^6, archlinux 2^6, ipk 2^4) x script byte classes (normal, no trailing newline, CRLF, bytes 0x80-0xff, one file shared by all slots; thorough adds empty and NUL-containing), each slot carrying distinct bytes naming itself; plus every non-empty subset again after a priming build of the same configuration whose script files (same paths) held other bytes; " +
			"built for real and the slot contents decoded from control members / rpm scriptlet tags / .INSTALL; non-trivial = non-empty subset; distinct = distinct (format, populated slot set, class)",
		Assumptions: []string{"rpm scriptlets containing NUL are excluded: rpm header strings are NUL-terminated by format", "for rpm an empty script file and an absent scriptlet tag are the same (a scriptlet is a header string)"},
		Setup:       setupScripts,
		Decode:      decodeInto[C09Case],
		Bounds: func(env *engine.Env) map[string]any {
			b := map[string]any{"classes_quick": scriptClasses[:5], "classes_thorough": scriptClasses}
			for f, s := range scriptSlots {
				b["slots_"+f] = len(s)
			}
			return b
		},
		Enumerate: func(env *engine.Env, yield func(any) bool) {
			classes := scriptClasses[:5]
			if env.Thorough() {
				classes = scriptClasses
			}
			for _, class := range classes {
				for _, f := range Formats {
					if class == "nul" && f == "rpm" {
						continue
					}
					n := len(scriptSlots[f])
					// subsets ordered by population count: simplest first
					var subs []uint
					for s := uint(0); s < 1<<n; s++ {
						subs = append(subs, s)
					}
					sort.SliceStable(subs, func(i, j int) bool { return popcount(subs[i]) < popcount(subs[j]) })
					for _, s := range subs {
						if !yield(C09Case{Format: f, Subset: s, Class: class}) {
							return
						}
					}
					if class == "normal" {
						// script members keep their modes whatever umask is configured for the contents
						full := uint(1)<<uint(n) - 1
						for _, um := range []int{0o002, 0o022, 0o027, 0o077, 0o777} {
							if !yield(C09Case{Format: f, Subset: full, Class: class, Umask: um}) {
								return
							}
						}
					}
					if class == "normal" || class == "nonl" {
						// the same slots, after a build of the same configuration with other script contents
						for _, s := range subs[1:] {
							if !yield(C09Case{Format: f, Subset: s, Class: class, Prime: "crlf"}) {
								return
							}
						}
					}
				}
			}
		},
		Check: checkC09,
	})
}

func popcount(x uint) int {
	n := 0
	for ; x != 0; x &= x - 1 {
		n++
	}
	return n
}

func checkC09(env *engine.Env, ci any) engine.Outcome {
	c := ci.(C09Case)
	t := tree(env)
	var out engine.Outcome
	slots := scriptSlots[c.Format]
	d := map[string]any(Setting{Name: "default"}.doc(nil, t.Root))
	delete(d, "contents")
	if c.Umask != 0 {
		d["umask"] = c.Umask
	}
	want := map[string][]byte{}
	var names []string
	for i, s := range slots {
		if c.Subset&(1<<uint(i)) == 0 {
			continue
		}
		setPath(d, s.Key, scriptPath(t, c.Class, s.Key))
		want[s.Target] = scriptBytes(c.Class, s.Key)
		names = append(names, s.Target)
	}
	out.Nontrivial = len(want) > 0
	out.Key = fmt.Sprintf("%s:%s:%s:%o:%s", c.Format, c.Class, c.Prime, c.Umask, strings.Join(names, ","))
	if c.Prime != "" {
		if err := writeScripts(t, c.Format, c.Prime); err != nil {
			out.HarnessError = err.Error()
			return out
		}
		buildYAML(fixture.Doc(d).YAML(), c.Format)
		out.Transitions++
	}
	if err := writeScripts(t, c.Format, c.Class); err != nil {
		out.HarnessError = err.Error()
		return out
	}
	viol := func(sig, format string, a ...any) {
		out.Violations = append(out.Violations, engine.Violation{Sig: sig,
			Detail: fmt.Sprintf("format=%s class=%s primed-with=%q umask=%#o configured slots=%v\n", c.Format, c.Class, c.Prime, c.Umask, names) + fmt.Sprintf(format, a...)})
	}
	data, err := buildYAML(fixture.Doc(d).YAML(), c.Format)
	if err != nil {
		viol("scripts:build-error:"+c.Format, "valid configuration, packaging failed: %v", err)
		return out
	}
	pkg, err := pkgread.Decode(c.Format, data, env.Tools)
	if err != nil {
		viol("scripts:undecodable:"+c.Format, "package cannot be decoded: %v", err)
		return out
	}
	for _, p := range pkg.Problems {
		if strings.HasPrefix(p, "arch-install-syntax") {
			viol("scripts:install-syntax:archlinux:"+c.Class, ".INSTALL does not split into its functions: %s", p)
		}
	}
	for _, s := range slots {
		got, has := pkg.Scripts[s.Target]
		w, configured := want[s.Target]
		if c.Format == "rpm" && configured && len(w) == 0 && !has {
			// an rpm scriptlet is a header string: an empty script and no script are the same thing to rpm
			continue
		}
		switch {
		case configured && !has:
			viol("scripts:slot-empty:"+c.Format+":"+s.Target, "slot %s is configured (%s) but absent from the package", s.Target, s.Key)
		case !configured && has:
			viol("scripts:slot-unconfigured:"+c.Format+":"+s.Target, "slot %s is populated (%q…) although %s is not configured", s.Target, trunc12(string(got)), s.Key)
		case configured && !bytes.Equal(got, w):
			src := "(other bytes)"
			for _, o := range slots {
				if bytes.Equal(got, scriptBytes(c.Class, o.Key)) && o.Key != s.Key {
					src = "the script configured for " + o.Key
				}
			}
			viol("scripts:slot-bytes:"+c.Format+":"+s.Target+":"+c.Class, "slot %s holds %d bytes %q…, the configured script %s has %d bytes %q… — slot holds %s",
				s.Target, len(got), trunc(string(got), 60), s.Key, len(w), trunc(string(w), 60), src)
		}
		if configured && has && s.Mode != 0 && pkg.ScriptMode[s.Target] != s.Mode {
			viol("scripts:slot-mode:"+c.Format+":"+s.Target, "slot %s has mode %#o, expected %#o", s.Target, pkg.ScriptMode[s.Target], s.Mode)
		}
	}
	// nothing populated outside the format's slot table
	known := map[string]bool{}
	for _, s := range slots {
		known[s.Target] = true
	}
	for k := range pkg.Scripts {
		if !known[k] {
			viol("scripts:unknown-slot:"+c.Format+":"+k, "package carries script slot %s which no configuration key maps to", k)
		}
	}
	if c.Format == "archlinux" {
		if (len(want) > 0) != (pkg.InstallRaw != nil) {
			viol("scripts:install-presence:archlinux", ".INSTALL present=%v with %d configured scripts", pkg.InstallRaw != nil, len(want))
		}
	}
	return out
}

func trunc(s string, n int) string {
	if len(s) > n {
		return s[:n]
	}
	return s
}
