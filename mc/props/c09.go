package props

import (
	"bytes"
	"fmt"
	"os"
	"path/filepath"
	"sort"
	"strings"

	"verif/mc/engine"
	"verif/mc/fixture"
	"verif/mc/model"
	"verif/mc/pkgread"
)

// scriptSlot describes one configurable lifecycle-script slot of a format.
type scriptSlot struct {
	Key    string // config key path, e.g. scripts.preinstall or rpm.scripts.pretrans
	Target string // name of the slot inside the package
	Mode   int64  // expected member mode (tar based formats), 0 = not applicable
}

var scriptSlots = map[string][]scriptSlot{
	"deb": {
		{"scripts.preinstall", "preinst", 0o755}, {"scripts.postinstall", "postinst", 0o755},
		{"scripts.preremove", "prerm", 0o755}, {"scripts.postremove", "postrm", 0o755},
		{"deb.scripts.rules", "rules", 0o755}, {"deb.scripts.templates", "templates", 0o644}, {"deb.scripts.config", "config", 0o755},
	},
	"ipk": {
		{"scripts.preinstall", "preinst", 0o755}, {"scripts.postinstall", "postinst", 0o755},
		{"scripts.preremove", "prerm", 0o755}, {"scripts.postremove", "postrm", 0o755},
	},
	"rpm": {
		{"scripts.preinstall", "prein", 0}, {"scripts.postinstall", "postin", 0},
		{"scripts.preremove", "preun", 0}, {"scripts.postremove", "postun", 0},
		{"rpm.scripts.pretrans", "pretrans", 0}, {"rpm.scripts.posttrans", "posttrans", 0}, {"rpm.scripts.verify", "verifyscript", 0},
	},
	"apk": {
		{"scripts.preinstall", ".pre-install", 0o755}, {"scripts.postinstall", ".post-install", 0o755},
		{"scripts.preremove", ".pre-deinstall", 0o755}, {"scripts.postremove", ".post-deinstall", 0o755},
		{"apk.scripts.preupgrade", ".pre-upgrade", 0o755}, {"apk.scripts.postupgrade", ".post-upgrade", 0o755},
	},
	"archlinux": {
		{"scripts.preinstall", "pre_install", 0}, {"scripts.postinstall", "post_install", 0},
		{"scripts.preremove", "pre_remove", 0}, {"scripts.postremove", "post_remove", 0},
		{"archlinux.scripts.preupgrade", "pre_upgrade", 0}, {"archlinux.scripts.postupgrade", "post_upgrade", 0},
	},
}

var scriptClasses = []string{"normal", "nonl", "crlf", "high", "shared", "empty", "percent", "bom", "longline", "crlf-longline", "nul", "braces"}

// scriptClassesQuick is the number of leading classes the quick tier runs over every slot subset.
const scriptClassesQuick = 10

// scriptSizes: script lengths around the tar block size and buffer sizes (thorough tier).
var scriptSizes = []int{1, 2, 511, 512, 513, 1023, 1024, 1025, 4095, 4096, 4097, 32768, 65535, 65536, 65537, 1 << 20}

func scriptBytes(class, key string) []byte {
	switch class {
	case "normal":
		return []byte("#!/bin/sh\necho running " + key + "\nexit 0\n")
	case "nonl":
		return []byte("#!/bin/sh\necho " + key + " # no newline at end")
	case "crlf":
		return []byte("#!/bin/sh\r\necho " + key + "\r\n")
	case "high":
		b := []byte("#!/bin/sh\n# " + key + " ")
		for c := 0x80; c <= 0xff; c++ {
			b = append(b, byte(c))
		}
		return append(b, '\n')
	case "shared":
		return []byte("#!/bin/sh\necho one script shared by every slot\n")
	case "empty":
		return []byte{}
	case "percent":
		// text that a formatting function would interpret: verbs, %%, a date format, backslash escapes, {{ template }} actions
		return []byte("#!/bin/sh\n# " + key + "\nprintf '%s %d %% %v\\n' a 1\ndate +%Y-%m-%d\necho '{{ .Name }} {{- end }}' \\t \\n $$ ${HOME} $(id -u)\n")
	case "bom":
		// a script saved with a byte order mark: the bytes are the script
		return []byte("\xef\xbb\xbf#!/bin/sh\necho " + key + " \xef\xbb\xbf\n")
	case "longline":
		// a line longer than any line buffer (an embedded payload), with lines after it
		return []byte("#!/bin/sh\necho " + key + "\nDATA='" + strings.Repeat("QUJD", 17500) + "'\necho after the long line of " + key + "\n")
	case "crlf-longline":
		return []byte("#!/bin/sh\r\necho " + key + "\r\nDATA='" + strings.Repeat("QUJD", 17500) + "'\r\necho after the long line of " + key + "\r\n")
	case "nul":
		return []byte("#!/bin/sh\necho " + key + "\x00after-nul\n")
	case "braces":
		// text that looks like the end of a shell function, blank lines, trailing blank lines, a here-document
		return []byte("#!/bin/sh\nf() {\n  echo " + key + "\n}\n\nf\n}\n\n\ncat <<EOT\n}\n\nEOT\n\n\n")
	case "decoy":
		return []byte("#!/bin/sh\necho DECOY for " + key + " - must only be seen where the base value survives\n")
	}
	if strings.HasPrefix(class, "size:") {
		n := 0
		fmt.Sscanf(class, "size:%d", &n)
		b := []byte("#" + key + "\n")
		if len(b) > n {
			b = b[:n]
		}
		for i := 0; len(b) < n; i++ {
			c := byte('a' + i%26)
			if i%64 == 63 {
				c = '\n'
			}
			b = append(b, c)
		}
		return b
	}
	panic(class)
}

// scriptPath: every slot key has ONE path for all byte classes; the harness
// rewrites the file before each build, so a build must read the script as it is
// at packaging time (a stale per-path cache inside the code under test shows).
func scriptPath(t *fixture.Tree, class, key string) string {
	if class == "shared" {
		return filepath.Join(t.Root, "scripts", "shared.sh")
	}
	if class == "decoy" {
		return filepath.Join(t.Root, "scripts", "decoy_"+strings.ReplaceAll(key, ".", "_")+".sh")
	}
	return filepath.Join(t.Root, "scripts", strings.ReplaceAll(key, ".", "_")+".sh")
}

func writeScripts(t *fixture.Tree, format, class string) error {
	for _, s := range scriptSlots[format] {
		p := scriptPath(t, class, s.Key)
		if err := os.WriteFile(p, scriptBytes(class, s.Key), 0o755); err != nil {
			return err
		}
		os.Chtimes(p, fixture.T0, fixture.T0)
	}
	return nil
}

func setupScripts(env *engine.Env) error { return setupTree(env) }

// C09Case: one subset of script slots of one format with one class of script bytes.
// Prime, when set, is a byte class with which the same configuration is built
// first (same script paths, other contents) before the files are rewritten.
type C09Case struct {
	Format string `json:"format"`
	Subset uint   `json:"subset"`
	Class  string `json:"class"`
	Prime  string `json:"prime,omitempty"`
	Umask  int    `json:"umask,omitempty"` // top-level umask setting (0 = unset)
	// Where the scripts are configured: "" = base settings; "override" = only in overrides.<format>;
	// "both" = every slot has a decoy in the base settings and the subset is configured in overrides.<format>
	// (slots outside the subset must then carry the decoy); "other" = base settings, with decoys in the
	// override blocks of all other formats (which must not show).
	Where string `json:"where,omitempty"`
	// Company: the package also carries contents, conffiles, a changelog and triggers (other control members).
	Company bool `json:"company,omitempty"`
	// Rel: script paths are given relative to the working directory.
	Rel bool `json:"rel,omitempty"`
	// Link: the configured script paths are symbolic links ("short": the link text is shorter than the script,
	// "long": longer) to the script files
	Link string `json:"link,omitempty"`
}

func setPath(d map[string]any, key string, v any) {
	parts := strings.Split(key, ".")
	m := d
	for _, p := range parts[:len(parts)-1] {
		n, ok := m[p].(map[string]any)
		if !ok {
			n = map[string]any{}
			m[p] = n
		}
		m = n
	}
	m[parts[len(parts)-1]] = v
}

func init() {
	engine.Register(&engine.Prop{
		ID:    "C09",
		Level: "model_checking",
		Rule: "every subset of the configurable script slots of every format (deb 2^7, rpm 2^7, apk 2^6, archlinux 2^6, ipk 2^4) x script byte classes (normal, no trailing newline, CRLF, bytes 0x80-0xff, one file shared by all slots, empty, text with % verbs / backslashes / {{ }} / $, a leading byte order mark, a 70 000-byte line with LF and with CRLF line ends, one 17 MiB script per slot; thorough adds NUL-containing and brace/blank-line/here-document text), each slot carrying distinct bytes naming itself; " +
			"history: the same configuration built first with other bytes in the same script files (quick: one priming class; thorough: every ordered pair of 6 classes x every non-empty subset); " +
			"placement: slots configured in the base settings, only in overrides.<format>, in overrides.<format> over base decoys (unset slots must keep the base script), or next to decoys in every other format's override block and own script block (quick: full slot set; thorough: every subset x 2 classes); " +
			"company: with contents, conffiles, changelog, triggers and extra fields in the control data; umask settings; script paths relative to the working directory; thorough: script lengths 1..1 MiB around block and buffer sizes for each slot alone, each pair and all slots; " +
			"built for real and the slot contents decoded from control members / rpm scriptlet tags / .INSTALL; non-trivial = non-empty subset; distinct = distinct (format, populated slot set, class, history, placement)",
		Assumptions: []string{"rpm scriptlets containing NUL are excluded: rpm header strings are NUL-terminated by format", "for rpm an empty script file and an absent scriptlet tag are the same (a scriptlet is a header string)"},
		Setup:       setupScripts,
		Decode:      decodeInto[C09Case],
		Bounds: func(env *engine.Env) map[string]any {
			b := map[string]any{"classes_quick": scriptClasses[:scriptClassesQuick], "classes_thorough": scriptClasses, "placements": []string{"base", "override", "both", "other"},
				"script_sizes_thorough": scriptSizes, "history_classes_thorough": 6, "umasks": []string{"002", "022", "027", "077", "777"}}
			for f, s := range scriptSlots {
				b["slots_"+f] = len(s)
			}
			return b
		},
		Enumerate: func(env *engine.Env, yield func(any) bool) {
			classes := scriptClasses[:scriptClassesQuick]
			if env.Thorough() {
				classes = scriptClasses
			}
			for _, class := range classes {
				for _, f := range Formats {
					if class == "nul" && f == "rpm" {
						continue
					}
					n := len(scriptSlots[f])
					// subsets ordered by population count: simplest first
					var subs []uint
					for s := uint(0); s < 1<<n; s++ {
						subs = append(subs, s)
					}
					sort.SliceStable(subs, func(i, j int) bool { return popcount(subs[i]) < popcount(subs[j]) })
					for _, s := range subs {
						if !yield(C09Case{Format: f, Subset: s, Class: class}) {
							return
						}
					}
					if class == "normal" {
						// script members keep their modes whatever umask is configured for the contents
						for _, um := range []int{0o002, 0o022, 0o027, 0o077, 0o777} {
							if !yield(C09Case{Format: f, Subset: full(n), Class: class, Umask: um}) {
								return
							}
						}
					}
					if (class == "normal" || class == "nonl") && !env.Thorough() {
						// the same slots, after a build of the same configuration with other script contents
						for _, s := range subs[1:] {
							if !yield(C09Case{Format: f, Subset: s, Class: class, Prime: "crlf"}) {
								return
							}
						}
					}
					if class == "normal" || class == "nonl" {
						// (also: a script file whose name ends in a blank, with a decoy at the name without it; script files
						// whose own permission bits are not 0755 - the slot's mode is the format's, not the file's)
						for _, ln := range []string{"short", "long", "dotdot", "blank-name", "mode-0600", "mode-0775", "mode-0711"} {
							if !yield(C09Case{Format: f, Subset: full(n), Class: class, Link: ln}) {
								return
							}
							if !yield(C09Case{Format: f, Subset: 1, Class: class, Link: ln}) {
								return
							}
						}
					}
					if class == "normal" && !env.Thorough() {
						// quick: every subset configured in the override block over base decoys (the other slots keep the base script)
						for _, s := range subs {
							if !yield(C09Case{Format: f, Subset: s, Class: class, Where: "both"}) {
								return
							}
						}
						// the same written with merge keys after the explicit keys of the override's script blocks
						for _, s := range subs {
							if !yield(C09Case{Format: f, Subset: s, Class: class, Where: "merge"}) {
								return
							}
						}
						// one script beyond 16 MiB, alone in each slot
						for i := 0; i < n; i++ {
							if !yield(C09Case{Format: f, Subset: 1 << uint(i), Class: "size:17825797"}) {
								return
							}
						}
						// quick: the full slot set configured through the override block / shadowing base decoys / next to other formats' decoys
						for _, w := range []string{"override", "both", "other"} {
							if !yield(C09Case{Format: f, Subset: full(n), Class: class, Where: w}) {
								return
							}
						}
						if !yield(C09Case{Format: f, Subset: full(n), Class: class, Company: true}) {
							return
						}
						// next to contents, conffiles, changelog and triggers: no slot, each slot alone, each slot missing
						for i := 0; i <= n; i++ {
							var sub uint
							if i < n {
								sub = 1 << uint(i)
							}
							if !yield(C09Case{Format: f, Subset: sub, Class: class, Company: true}) {
								return
							}
							if i < n {
								if !yield(C09Case{Format: f, Subset: full(n) &^ sub, Class: class, Company: true}) {
									return
								}
							}
						}
					}
				}
			}
			if !env.Thorough() {
				return
			}
			// thorough: the further dimensions, each over every slot subset of every format
			for _, f := range Formats {
				n := len(scriptSlots[f])
				var subs []uint
				for s := uint(1); s < 1<<n; s++ {
					subs = append(subs, s)
				}
				sort.SliceStable(subs, func(i, j int) bool { return popcount(subs[i]) < popcount(subs[j]) })
				// (a) every ordered pair (priming bytes, final bytes) of the rewrite-between-builds history
				hist := []string{"normal", "nonl", "crlf", "high", "empty", "braces"}
				for _, prime := range hist {
					for _, class := range hist {
						if prime == class {
							continue
						}
						for _, s := range subs {
							if !yield(C09Case{Format: f, Subset: s, Class: class, Prime: prime}) {
								return
							}
						}
					}
				}
				// (b) where the scripts are configured
				for _, w := range []string{"override", "both", "other"} {
					for _, class := range []string{"normal", "nonl"} {
						for _, s := range append([]uint{0}, subs...) {
							if !yield(C09Case{Format: f, Subset: s, Class: class, Where: w}) {
								return
							}
						}
					}
				}
				// (c) umask x every subset; company x every subset; relative script paths x every subset
				for _, s := range subs {
					for _, um := range []int{0o002, 0o027, 0o077, 0o777} {
						if !yield(C09Case{Format: f, Subset: s, Class: "normal", Umask: um}) {
							return
						}
					}
					for _, class := range []string{"normal", "nonl", "empty"} {
						if class == "empty" && popcount(s) > 2 {
							continue
						}
						if !yield(C09Case{Format: f, Subset: s, Class: class, Company: true}) {
							return
						}
					}
					if !yield(C09Case{Format: f, Subset: s, Class: "normal", Rel: true}) {
						return
					}
					if !yield(C09Case{Format: f, Subset: s, Class: "normal", Rel: true, Where: "override", Company: true}) {
						return
					}
				}
				// (d) script lengths around block and buffer sizes: each slot alone, every pair of slots, and all slots
				for _, sz := range scriptSizes {
					class := fmt.Sprintf("size:%d", sz)
					for _, s := range subs {
						if popcount(s) <= 2 || s == full(n) {
							if sz == 1<<20 && popcount(s) == 2 {
								continue
							}
							if !yield(C09Case{Format: f, Subset: s, Class: class}) {
								return
							}
						}
					}
				}
			}
		},
		Check: checkC09,
	})
}

func full(n int) uint { return uint(1)<<uint(n) - 1 }

func popcount(x uint) int {
	n := 0
	for ; x != 0; x &= x - 1 {
		n++
	}
	return n
}

func checkC09(env *engine.Env, ci any) engine.Outcome {
	c := ci.(C09Case)
	t := tree(env)
	var out engine.Outcome
	slots := scriptSlots[c.Format]
	d := map[string]any(Setting{Name: "default"}.doc(nil, t.Root))
	delete(d, "contents")
	if c.Company {
		d["contents"] = fixture.ContentsYAML(specs([]model.Entry{
			{Src: "etc/app.conf", Dst: "/etc/app.conf", Type: "config"},
			{Src: "bin/app", Dst: "/usr/bin/app"},
			{Src: "etc/app.conf", Dst: "/etc/nr.conf", Type: "config|noreplace"},
			{Dst: "/var/lib/app", Type: "dir"},
		}), t.Root)
		d["changelog"] = filepath.Join(t.Root, "changelog.yaml")
		setPath(d, "deb.triggers", map[string]any{"interest": []string{"trig-a"}, "activate_noawait": []string{"trig-b"}})
		setPath(d, "deb.fields", map[string]any{"Bugs": "https://example.com/bugs"})
		setPath(d, "ipk.fields", map[string]any{"Bugs": "https://example.com/bugs"})
		d["depends"] = []string{"libc"}
	}
	if c.Umask != 0 {
		d["umask"] = c.Umask
	}
	pathOf := func(class, key string) string {
		p := scriptPath(t, class, key)
		if (c.Link == "blank-name" || strings.HasPrefix(c.Link, "mode-")) && class != "decoy" {
			mode := os.FileMode(0o755)
			np := filepath.Join(filepath.Dir(p), "alt-"+c.Link+"-"+filepath.Base(p))
			if c.Link == "blank-name" {
				os.WriteFile(np, scriptBytes("decoy", key), 0o755) // what a path with its blank trimmed would find
				np += " "
			} else {
				var m uint32
				fmt.Sscanf(strings.TrimPrefix(c.Link, "mode-"), "%o", &m)
				mode = os.FileMode(m)
			}
			os.Remove(np)
			if err := os.WriteFile(np, scriptBytes(class, key), mode); err == nil {
				os.Chmod(np, mode)
				os.Chtimes(np, fixture.T0, fixture.T0)
				p = np
			}
		} else if c.Link != "" && class != "decoy" {
			// <dir>/ln-<key>.sh -> the script (relative link text), or via a long absolute spelling
			lp := filepath.Join(filepath.Dir(p), "ln-"+c.Link+"-"+filepath.Base(p))
			target := filepath.Base(p)
			if c.Link == "long" {
				target = filepath.Dir(p) + strings.Repeat("/.", 120) + "/" + filepath.Base(p)
			}
			os.Remove(lp)
			if c.Link == "dotdot" {
				// <root>/dd-hooks -> scripts/inner; the configured path <root>/dd-hooks/../<name> is <root>/scripts/<name>
				// for the operating system, and <root>/<name> (where a decoy lies) after lexical cleaning
				os.MkdirAll(filepath.Join(filepath.Dir(p), "inner"), 0o755)
				hooks := filepath.Join(t.Root, "dd-hooks")
				if _, err := os.Lstat(hooks); err != nil {
					os.Symlink(filepath.Join("scripts", "inner"), hooks)
				}
				os.WriteFile(filepath.Join(t.Root, filepath.Base(p)), scriptBytes("decoy", key), 0o755)
				p = hooks + "/../" + filepath.Base(p)
			} else if err := os.Symlink(target, lp); err == nil {
				p = lp
			}
		}
		if c.Rel && c.Link != "dotdot" {
			if r, err := filepath.Rel(t.Root, p); err == nil {
				return r
			}
		}
		return p
	}
	want := map[string][]byte{}
	var names []string
	for i, s := range slots {
		in := c.Subset&(1<<uint(i)) != 0
		if c.Where == "both" || c.Where == "merge" {
			setPath(d, s.Key, pathOf("decoy", s.Key))
			want[s.Target] = scriptBytes("decoy", s.Key)
		}
		if !in {
			continue
		}
		key := s.Key
		if c.Where == "override" || c.Where == "both" || c.Where == "merge" {
			key = "overrides." + c.Format + "." + s.Key
		}
		setPath(d, key, pathOf(c.Class, s.Key))
		want[s.Target] = scriptBytes(c.Class, s.Key)
		names = append(names, s.Target)
	}
	if c.Where == "other" {
		mine := map[string]bool{}
		for _, s := range slots {
			mine[s.Key] = true
		}
		for _, o := range Formats {
			if o == c.Format {
				continue
			}
			for _, s := range scriptSlots[o] {
				setPath(d, "overrides."+o+"."+s.Key, pathOf("decoy", s.Key))
				if !mine[s.Key] {
					setPath(d, s.Key, pathOf("decoy", s.Key)) // another format's own script block in the base settings
				}
			}
		}
	}
	out.Nontrivial = len(names) > 0
	out.Key = fmt.Sprintf("%s:%s:%s:%o:%s:%v:%v:%s:%s", c.Format, c.Class, c.Prime, c.Umask, c.Where, c.Company, c.Rel, c.Link, strings.Join(names, ","))
	if c.Rel {
		cwd, err := os.Getwd()
		if err == nil {
			err = os.Chdir(t.Root)
		}
		if err != nil {
			out.HarnessError = err.Error()
			return out
		}
		defer os.Chdir(cwd)
	}
	if c.Where != "" {
		for _, f := range Formats {
			if err := writeScripts(t, f, "decoy"); err != nil {
				out.HarnessError = err.Error()
				return out
			}
		}
	}
	if c.Prime != "" {
		if err := writeScripts(t, c.Format, c.Prime); err != nil {
			out.HarnessError = err.Error()
			return out
		}
		buildYAML(fixture.Doc(d).YAML(), c.Format)
		out.Transitions++
	}
	if err := writeScripts(t, c.Format, c.Class); err != nil {
		out.HarnessError = err.Error()
		return out
	}
	viol := func(sig, format string, a ...any) {
		out.Violations = append(out.Violations, engine.Violation{Sig: sig,
			Detail: fmt.Sprintf("format=%s class=%s primed-with=%q umask=%#o where=%q company=%v relative-paths=%v configured slots=%v\n", c.Format, c.Class, c.Prime, c.Umask, c.Where, c.Company, c.Rel, names) + fmt.Sprintf(format, a...)})
	}
	docText := fixture.Doc(d).YAML()
	if c.Where == "merge" {
		docText = mergeSpelling(docText, c.Format)
	}
	data, err := buildYAML(docText, c.Format)
	if err != nil {
		viol("scripts:build-error:"+c.Format, "valid configuration, packaging failed: %v", err)
		return out
	}
	pkg, err := pkgread.Decode(c.Format, data, env.Tools)
	if err != nil {
		viol("scripts:undecodable:"+c.Format, "package cannot be decoded: %v", err)
		return out
	}
	for _, p := range pkg.Problems {
		if strings.HasPrefix(p, "arch-install-syntax") {
			viol("scripts:install-syntax:archlinux:"+c.Class, ".INSTALL does not split into its functions: %s", p)
		}
	}
	for _, s := range slots {
		got, has := pkg.Scripts[s.Target]
		w, configured := want[s.Target]
		if c.Where == "both" && configured && bytes.Equal(w, scriptBytes("decoy", s.Key)) && has && !bytes.Equal(got, w) {
			viol("scripts:override-merge:"+c.Format+":"+s.Target, "slot %s is configured in the base settings only (the override block leaves it unset) but does not carry the base script: %q…", s.Target, trunc(string(got), 60))
			continue
		}
		if c.Format == "rpm" && configured && len(w) == 0 && !has {
			// an rpm scriptlet is a header string: an empty script and no script are the same thing to rpm
			continue
		}
		switch {
		case configured && !has:
			viol("scripts:slot-empty:"+c.Format+":"+s.Target, "slot %s is configured (%s) but absent from the package", s.Target, s.Key)
		case !configured && has:
			viol("scripts:slot-unconfigured:"+c.Format+":"+s.Target, "slot %s is populated (%q…) although %s is not configured", s.Target, trunc12(string(got)), s.Key)
		case configured && !bytes.Equal(got, w):
			src := "(other bytes)"
			for _, o := range slots {
				if bytes.Equal(got, scriptBytes(c.Class, o.Key)) && o.Key != s.Key {
					src = "the script configured for " + o.Key
				}
			}
			viol("scripts:slot-bytes:"+c.Format+":"+s.Target+":"+c.Class, "slot %s holds %d bytes %q…, the configured script %s has %d bytes %q… — slot holds %s",
				s.Target, len(got), trunc(string(got), 60), s.Key, len(w), trunc(string(w), 60), src)
		}
		if configured && has && s.Mode != 0 && pkg.ScriptMode[s.Target] != s.Mode {
			viol("scripts:slot-mode:"+c.Format+":"+s.Target, "slot %s has mode %#o, expected %#o", s.Target, pkg.ScriptMode[s.Target], s.Mode)
		}
	}
	// nothing populated outside the format's slot table
	known := map[string]bool{}
	for _, s := range slots {
		known[s.Target] = true
	}
	for k := range pkg.Scripts {
		if !known[k] {
			viol("scripts:unknown-slot:"+c.Format+":"+k, "package carries script slot %s which no configuration key maps to", k)
		}
	}
	if c.Format == "archlinux" {
		if (len(want) > 0) != (pkg.InstallRaw != nil) {
			viol("scripts:install-presence:archlinux", ".INSTALL present=%v with %d configured scripts", pkg.InstallRaw != nil, len(want))
		}
	}
	return out
}

func trunc(s string, n int) string {
	if len(s) > n {
		return s[:n]
	}
	return s
}

// mergeSpelling rewrites a rendered document so that the script blocks inside overrides.<format> end with a merge key
// referring to the corresponding base block ("scripts: &common ..." / "<<: *common" written AFTER the explicit keys):
// explicit keys win over merged ones wherever the merge key stands. The overrides block is moved to the end (an
// anchor precedes its aliases).
func mergeSpelling(text, format string) string {
	var blocks [][]string
	for _, l := range strings.SplitAfter(text, "\n") {
		if l == "" {
			continue
		}
		if l[0] != ' ' && l[0] != '-' || len(blocks) == 0 {
			blocks = append(blocks, nil)
		}
		blocks[len(blocks)-1] = append(blocks[len(blocks)-1], l)
	}
	var rest, over [][]string
	haveCommon, haveFmt := false, false
	for _, b := range blocks {
		switch {
		case strings.HasPrefix(b[0], "overrides:"):
			over = append(over, b)
			continue
		case strings.HasPrefix(b[0], "scripts:"):
			b[0] = "scripts: &commonscripts\n"
			haveCommon = true
		case strings.HasPrefix(b[0], format+":"):
			for i, l := range b {
				if l == "  scripts:\n" {
					b[i] = "  scripts: &fmtscripts\n"
					haveFmt = true
				}
			}
		}
		rest = append(rest, b)
	}
	insertAfterChildren := func(b []string, head string, indent int, line string) []string {
		for i, l := range b {
			if l != head {
				continue
			}
			j := i + 1
			for j < len(b) && len(b[j]) > indent && strings.HasPrefix(b[j], strings.Repeat(" ", indent)) {
				j++
			}
			out := append(append(append([]string{}, b[:j]...), line), b[j:]...)
			return out
		}
		return b
	}
	var sb strings.Builder
	for _, b := range rest {
		sb.WriteString(strings.Join(b, ""))
	}
	for _, b := range over {
		if haveFmt {
			b = insertAfterChildren(b, "      scripts:\n", 8, "        <<: *fmtscripts\n")
		}
		if haveCommon {
			b = insertAfterChildren(b, "    scripts:\n", 6, "      <<: *commonscripts\n")
		}
		sb.WriteString(strings.Join(b, ""))
	}
	return sb.String()
}
