package props

import (
	"bytes"
	"crypto"
	"crypto/md5"
	"crypto/rand"
	"crypto/rsa"
	"crypto/sha1"
	"crypto/x509"
	"encoding/hex"
	"encoding/pem"
	"errors"
	"fmt"
	"io"
	"os"
	"os/exec"
	"path/filepath"
	"runtime"
	"strconv"
	"strings"
	"time"

	"verif/mc/engine"
	"verif/mc/model"
	"verif/mc/pkgread"

	"github.com/ProtonMail/go-crypto/openpgp"
	"github.com/ProtonMail/go-crypto/openpgp/armor"
	"github.com/ProtonMail/go-crypto/openpgp/clearsign"
	"github.com/ProtonMail/go-crypto/openpgp/packet"
	"github.com/goreleaser/nfpm/v2"
)

// C10Case is one signing configuration.
type C10Case struct {
	Format  string `json:"format"`
	Method  string `json:"method"` // debsign | dpkg-sig | rpm | apk
	Key     string `json:"key"`    // key kind (see c10Keys)
	Payload int    `json:"payload"`
	BinSig  bool   `json:"binary_callback_signature,omitempty"` // debsign: the callback returns a binary (not armored) signature
	// CompCandidate: Comp is a compression name beyond the documented ones (judged only if the tree builds with it)
	CompCandidate bool `json:"compression_candidate,omitempty"`
	// InOverride: the signature settings are written in overrides.<format>.<block>.signature only
	InOverride bool   `json:"signature_in_override,omitempty"`
	Comp       string `json:"compression,omitempty"`
	Via        string `json:"via"` // file | signfn
	SigType    string `json:"sig_type,omitempty"`
	FailJ      int    `json:"fail_j"` // signfn: which call fails (-1 = none)
	// Rotate: the key file path first holds another key with which the same
	// configuration is built once; then the file is replaced by the key under
	// test and the package is built again (in the same process).
	Rotate bool `json:"rotate,omitempty"`
	// SDE: SOURCE_DATE_EPOCH set in the environment while signing
	SDE string `json:"source_date_epoch,omitempty"`
	// KeyName (apk): class of the key name the signature entry is named after ("" = origin)
	KeyName string `json:"key_name,omitempty"`
	// ProcEnv: the passphrase is in the process environment (not in a caller's mapping), the configuration is read and
	// packaged twice in a row: the second round must sign as the first did
	ProcEnv bool `json:"passphrase_in_process_env,omitempty"`
}

// c10KeyNames: apk key names. A name the tar header of the signature entry cannot carry must make signing fail,
// not move the signature out of the first header block.
var c10KeyNames = map[string]string{
	"suffixed":        "origin.rsa.pub",
	"mail":            "builder@example.com",
	"from-maintainer": "",
	// derived from a maintainer address that has upper-case letters: kept as written
	"from-maintainer-mixed-case": "",
	"len82":                      strings.Repeat("k", 82),
	"len83":                      strings.Repeat("k", 83),
	"len90":                      strings.Repeat("k", 90),
	"len99":                      strings.Repeat("k", 99),
	"len160":                     strings.Repeat("k", 160),
	"non-ascii":                  "schl\u00fcssel@example.com",
	"slash":                      "dir/key",
	"space":                      "my key",
	// names whose last characters are letters that also occur in ".rsa.pub"
	"ends-r":   "packager",
	"ends-us":  "ops@example.us",
	"ends-b":   "bob",
	"is-pub":   "pub",
	"ends-rsa": "builder.rsa",
	"dots":     "a.b.",
}
var c10KeyNameOrder = []string{"suffixed", "mail", "from-maintainer", "from-maintainer-mixed-case", "len82", "len83", "len90", "len99", "len160", "non-ascii", "slash", "space", "ends-r", "ends-us", "ends-b", "is-pub", "ends-rsa", "dots"}

type c10Key struct {
	file, pub string
	pass      string // right passphrase
	givePass  string // passphrase given
	passVar   string // environment variable carrying it
	keyID     string
	cfgKeyID  string // the key id as the configuration writes it (default: keyID)
	wantFail  bool
	apk       bool
}

var c10Keys = map[string]c10Key{
	"armored":          {file: "privkey_unprotected.asc", pub: "pubkey"},
	"binary":           {file: "privkey_unprotected.gpg", pub: "pubkey"},
	"protected":        {file: "privkey.asc", pub: "pubkey", givePass: "hunter2", passVar: "NFPM_PASSPHRASE"},
	"protected-binary": {file: "privkey.gpg", pub: "pubkey", givePass: "hunter2", passVar: "FORMAT"},
	"subkey-only":      {file: "privkey_unprotected_subkey_only.asc", pub: "pubkey"},
	// unprotected keys while a passphrase is set anyway (e.g. the general variable, meant for another format's key)
	"subkey-only-with-passphrase": {file: "privkey_unprotected_subkey_only.asc", pub: "pubkey", givePass: "irrelevant", passVar: "NFPM_PASSPHRASE"},
	"armored-with-passphrase":     {file: "privkey_unprotected.asc", pub: "pubkey", givePass: "irrelevant", passVar: "FORMAT"},
	"binary-with-passphrase":      {file: "privkey_unprotected.gpg", pub: "pubkey", givePass: "irrelevant", passVar: "NFPM_PASSPHRASE"},
	"keyid-primary":               {file: "privkey_unprotected.asc", pub: "pubkey", keyID: "bc8acdd415bd80b3"},
	"keyid-subkey":                {file: "privkey_unprotected.asc", pub: "pubkey", keyID: "9890904dfb2ec88a"},
	"wrong-passphrase":            {file: "privkey.asc", pub: "pubkey", givePass: "hunter3", passVar: "NFPM_PASSPHRASE", wantFail: true},
	"no-passphrase":               {file: "privkey.asc", pub: "pubkey", wantFail: true},
	"multiple-keys":               {file: "multiple_privkeys.asc", pub: "pubkey", wantFail: true},
	"keyid-primary-upper":         {file: "privkey_unprotected.asc", pub: "pubkey", keyID: "bc8acdd415bd80b3", cfgKeyID: "BC8ACDD415BD80B3"},
	"keyid-subkey-mixed":          {file: "privkey_unprotected.asc", pub: "pubkey", keyID: "9890904dfb2ec88a", cfgKeyID: "9890904DfB2eC88A"},
	"keyid-invalid":               {file: "privkey_unprotected.asc", pub: "pubkey", keyID: "xyz", wantFail: true},
	// a valid id behind garbage, a valid id with something appended, more than 64 bits of hex
	"keyid-garbage-prefix":  {file: "privkey_unprotected.asc", pub: "pubkey", keyID: "not-a-key-id-bc8acdd415bd80b3", wantFail: true},
	"keyid-garbage-suffix":  {file: "privkey_unprotected.asc", pub: "pubkey", keyID: "bc8acdd415bd80b3-x", wantFail: true},
	"keyid-too-long":        {file: "privkey_unprotected.asc", pub: "pubkey", keyID: "ffffbc8acdd415bd80b3", wantFail: true},
	"key-missing":           {file: "no-such-key.asc", pub: "pubkey", wantFail: true},
	"second":                {file: "second_priv.asc", pub: "second_pub"},
	"armored-leading-blank": {file: "GEN:leading-blank", pub: "pubkey"},
	"armored-leading-text":  {file: "GEN:leading-text", pub: "pubkey"},
	"armored-crlf":          {file: "GEN:crlf", pub: "pubkey"},
	"armored-trailing-text": {file: "GEN:trailing-text", pub: "pubkey"},
	"keyid-decimal":         {file: "decimal_priv.asc", pub: "decimal_pub", keyID: "4399095419976992"},
	"decimal-no-keyid":      {file: "decimal_priv.asc", pub: "decimal_pub"},
	// the key file reached through a symbolic link (a mounted secret)
	"expired-subkey": {file: "GENSUB:expired", pub: "pubkey"},
	// a protected key with two signing subkeys (a rotation in progress); the key id names the older / the newer one
	// a key whose primary key only certifies; a subkey signs (the usual layout of a key kept offline)
	"certify-only-primary":      {file: "GENCERT:", pub: "pubkey"},
	"two-signing-subkeys-older": {file: "GEN2SUB:older", pub: "pubkey", givePass: "hunter2", passVar: "NFPM_PASSPHRASE"},
	"two-signing-subkeys-newer": {file: "GEN2SUB:newer", pub: "pubkey", givePass: "hunter2", passVar: "FORMAT"},
	"armored-symlink":           {file: "LINK:privkey_unprotected.asc", pub: "pubkey"},
	"protected-symlink":         {file: "LINK:privkey.asc", pub: "pubkey", givePass: "hunter2", passVar: "FORMAT"},
	"pkcs1-symlink":             {file: "LINK:rsa_unprotected.priv", pub: "rsa_unprotected.pub", apk: true},
	"pkcs1":                     {file: "rsa_unprotected.priv", pub: "rsa_unprotected.pub", apk: true},
	// the private key followed by its public key in one file (as `openssl genrsa; openssl rsa -pubout >>` leaves it)
	// an unprotected RSA key while a passphrase is set anyway (the general variable, meant for another format's key)
	"pkcs1-with-passphrase":        {file: "rsa_unprotected.priv", pub: "rsa_unprotected.pub", givePass: "hunter2", passVar: "NFPM_PASSPHRASE", apk: true},
	"pkcs1-with-format-passphrase": {file: "rsa_unprotected.priv", pub: "rsa_unprotected.pub", givePass: "irrelevant", passVar: "FORMAT", apk: true},
	"pkcs1-then-public":            {file: "CONCAT:rsa_unprotected.priv+rsa_unprotected.pub", pub: "rsa_unprotected.pub", apk: true},
	"pkcs8":                        {file: "rsa_pkcs8.priv", pub: "rsa_pkcs8.pub", apk: true},
	"pkcs8-4096":                   {file: "rsa4096.priv", pub: "rsa4096.pub", apk: true},
	"encrypted-pem":                {file: "rsa.priv", pub: "rsa.pub", givePass: "hunter2", passVar: "FORMAT", apk: true},
	"encrypted-pem-general":        {file: "rsa.priv", pub: "rsa.pub", givePass: "hunter2", passVar: "NFPM_PASSPHRASE", apk: true},
	"encrypted-pem-wrong":          {file: "rsa.priv", pub: "rsa.pub", givePass: "nope", passVar: "FORMAT", apk: true, wantFail: true},
	// an encrypted PEM key whose passphrase begins and ends with a blank (generated at run time from the unprotected key)
	"encrypted-pem-padded-pass": {file: "GENPEM: hunter2 ", pub: "rsa_unprotected.pub", givePass: " hunter2 ", passVar: "FORMAT", apk: true},
	// a passphrase that looks like it held references (it is a value, not a template)
	"encrypted-pem-dollar-pass": {file: "GENPEM:pa$sword-1$x${y}", pub: "rsa_unprotected.pub", givePass: "pa$sword-1$x${y}", passVar: "FORMAT", apk: true},
	"pem-garbage":               {file: "wrong_key_format.priv", pub: "rsa.pub", apk: true, wantFail: true},
}

var c10PGPKeys = []string{"certify-only-primary", "two-signing-subkeys-older", "two-signing-subkeys-newer", "expired-subkey", "armored-symlink", "protected-symlink", "subkey-only-with-passphrase", "armored-with-passphrase", "binary-with-passphrase", "armored-leading-blank", "armored-leading-text", "armored-crlf", "armored-trailing-text", "keyid-decimal", "decimal-no-keyid", "armored", "binary", "protected", "protected-binary", "subkey-only", "keyid-primary", "keyid-subkey", "keyid-primary-upper", "keyid-subkey-mixed", "wrong-passphrase", "no-passphrase", "multiple-keys", "keyid-invalid", "keyid-garbage-prefix", "keyid-garbage-suffix", "keyid-too-long", "key-missing"}
var c10APKKeys = []string{"pkcs1-with-passphrase", "pkcs1-with-format-passphrase", "pkcs1-then-public", "pkcs1-symlink", "encrypted-pem-dollar-pass", "encrypted-pem-padded-pass", "pkcs1", "pkcs8", "pkcs8-4096", "encrypted-pem", "encrypted-pem-general", "encrypted-pem-wrong", "pem-garbage"}

// c10Payloads is the number of payload shapes (0 = empty).
const c10Payloads = 7

func c10Payload(i int) []model.Entry {
	ts := c01Templates()
	switch i {
	case 6: // a payload member beyond any hashing window
		return []model.Entry{{Src: "huge/noise.bin", Dst: "/opt/noise.bin"}, ts[0]}
	case 4: // files on buffer boundaries, among them one of exactly 1 MiB
		return []model.Entry{{Src: "sizes/s1048576.bin", Dst: "/opt/one-mib.bin"}, {Src: "sizes/s65536.bin", Dst: "/opt/s65536.bin"}, {Src: "sizes/s32769.bin", Dst: "/opt/s32769.bin"}}
	case 5: // many small entries of every kind
		return append(append([]model.Entry{}, ts[:12]...), model.Entry{Src: "sizes", Dst: "/opt/sizes", Type: "tree"})
	case 1:
		return []model.Entry{ts[0]}
	case 2:
		return []model.Entry{ts[0], ts[6], ts[22]}
	case 3:
		return []model.Entry{ts[3], ts[5], ts[4]}
	}
	return nil
}

func init() {
	engine.Register(&engine.Prop{
		ID:    "C10",
		Level: "model_checking",
		Rule: "methods {deb debsign x type in origin/maint/archive/(invalid), deb dpkg-sig, rpm, apk} x key kinds {armored, binary, protected+passphrase (general and format-specific variable), subkey-only, explicit key id (primary, subkey), wrong/missing passphrase, several keys, invalid key id, missing key; apk: PKCS#1, PKCS#8, 4096-bit, encrypted PEM, garbage} x 4 payloads x deb compressions x {key file, signing callback}, and a callback failing at each of its calls; " +
			"the signature is extracted from the package by the harness and verified with go-crypto / crypto/rsa and with gpgv / openssl over exactly the bytes the format's verifier uses; a capturing callback must have received those bytes; failures must yield no success and an error identifiable as nfpm.ErrSigningFailure that still carries the signer's error; " +
			"non-trivial = signing was attempted; distinct = distinct (method, key, payload, compression, route, outcome)",
		Assumptions: []string{
			"ErrSigningFailure.Err counts as 'wraps' (the type has no Unwrap method: errors.Is on the outer error cannot reach the cause)",
			"gpgv and openssl are second opinions when installed; a disagreement between go-crypto and gpgv on a signature is a harness error",
		},
		Setup:  setupTree,
		Decode: decodeInto[C10Case],
		Bounds: func(env *engine.Env) map[string]any {
			return map[string]any{"pgp_key_kinds": c10PGPKeys, "apk_key_kinds": c10APKKeys, "payloads": c10Payloads, "deb_compressions": []string{"", "xz", "zstd", "none"}}
		},
		Enumerate: func(env *engine.Env, yield func(any) bool) {
			for _, k := range c10PGPKeys {
				for pl := 0; pl < c10Payloads; pl++ {
					for _, comp := range []string{"", "xz", "zstd", "none"} {
						if (pl > 1 || k != "armored") && comp != "" && comp != "xz" {
							continue
						}
						for _, m := range []string{"debsign", "dpkg-sig"} {
							if !yield(C10Case{Format: "deb", Method: m, Key: k, Payload: pl, Comp: comp, Via: "file", FailJ: -1}) {
								return
							}
						}
					}
					if !yield(C10Case{Format: "rpm", Method: "rpm", Key: k, Payload: pl, Via: "file", FailJ: -1}) {
						return
					}
				}
			}
			for _, st := range []string{"origin", "maint", "archive", "bogus", "Origin", ""} {
				if !yield(C10Case{Format: "deb", Method: "debsign", Key: "armored", Payload: 1, Via: "file", SigType: st, FailJ: -1}) {
					return
				}
				if !yield(C10Case{Format: "deb", Method: "debsign", Key: "armored", Payload: 1, Via: "signfn", SigType: st, FailJ: -1}) {
					return
				}
			}
			// dpkg-sig takes any role name as type (builder is its default)
			// (a role of twelve characters makes a member name that exactly fills the 16 bytes of an ar header)
			for _, st := range []string{"builder", "origin", "maint", "archive", "custom", "buildmachine", "qa"} {
				if !yield(C10Case{Format: "deb", Method: "dpkg-sig", Key: "armored", Payload: 1, Via: "file", SigType: st, FailJ: -1}) {
					return
				}
			}
			for _, k := range c10APKKeys {
				for pl := 0; pl < c10Payloads; pl++ {
					if !yield(C10Case{Format: "apk", Method: "apk", Key: k, Payload: pl, Via: "file", FailJ: -1}) {
						return
					}
				}
			}
			// apk key names: the signature entry is named after them and must stay the first header block
			for _, kn := range c10KeyNameOrder {
				for _, via := range []string{"file", "signfn"} {
					k := "pkcs1"
					if via == "signfn" {
						k = "armored"
					}
					if !yield(C10Case{Format: "apk", Method: "apk", Key: k, Payload: 1, Via: via, FailJ: -1, KeyName: kn}) {
						return
					}
				}
			}
			// SOURCE_DATE_EPOCH in the environment (before the keys were created / recent)
			for _, sde := range []string{"315532800", "1700000000"} {
				for _, m := range []struct{ f, m, k string }{{"deb", "debsign", "armored"}, {"deb", "dpkg-sig", "armored"}, {"rpm", "rpm", "armored"}, {"deb", "debsign", "second"}, {"rpm", "rpm", "decimal-no-keyid"}, {"apk", "apk", "pkcs1"}} {
					if !yield(C10Case{Format: m.f, Method: m.m, Key: m.k, Payload: 1, Via: "file", FailJ: -1, SDE: sde}) {
						return
					}
				}
			}
			// the passphrase in the process environment, the document read and packaged twice
			for _, m := range []struct{ f, m, k string }{{"deb", "debsign", "protected"}, {"deb", "dpkg-sig", "protected-binary"}, {"rpm", "rpm", "protected"}, {"rpm", "rpm", "protected-binary"}, {"apk", "apk", "encrypted-pem"}, {"apk", "apk", "encrypted-pem-general"}} {
				if !yield(C10Case{Format: m.f, Method: m.m, Key: m.k, Payload: 1, Via: "file", FailJ: -1, ProcEnv: true}) {
					return
				}
			}
			// the key file is replaced between two builds in one process
			for _, m := range []struct{ f, m, k string }{{"deb", "debsign", "second"}, {"deb", "dpkg-sig", "second"}, {"rpm", "rpm", "second"}, {"deb", "debsign", "armored"}, {"rpm", "rpm", "armored"}, {"apk", "apk", "pkcs8-4096"}, {"apk", "apk", "pkcs1"}} {
				for pl := 0; pl < 2; pl++ {
					if !yield(C10Case{Format: m.f, Method: m.m, Key: m.k, Payload: pl, Via: "file", FailJ: -1, Rotate: true}) {
						return
					}
				}
			}
			if env.Thorough() {
				// the full products the quick tier thins out
				for _, k := range c10PGPKeys {
					for pl := 0; pl < c10Payloads; pl++ {
						for _, comp := range []string{"", "xz", "zstd", "none"} {
							for _, m := range []string{"debsign", "dpkg-sig"} {
								for _, sde := range []string{"", "315532800", "1700000000"} {
									if !yield(C10Case{Format: "deb", Method: m, Key: k, Payload: pl, Comp: comp, Via: "file", FailJ: -1, SDE: sde}) {
										return
									}
								}
							}
						}
						for _, sde := range []string{"", "315532800", "1700000000"} {
							if !yield(C10Case{Format: "rpm", Method: "rpm", Key: k, Payload: pl, Via: "file", FailJ: -1, SDE: sde}) {
								return
							}
						}
					}
				}
				for _, k := range c10APKKeys {
					for pl := 0; pl < c10Payloads; pl++ {
						for _, kn := range append([]string{""}, c10KeyNameOrder...) {
							for _, sde := range []string{"", "1700000000"} {
								if !yield(C10Case{Format: "apk", Method: "apk", Key: k, Payload: pl, Via: "file", FailJ: -1, KeyName: kn, SDE: sde}) {
									return
								}
							}
						}
					}
				}
				for _, st := range []string{"origin", "maint", "archive", "bogus", "Origin", "", "origin ", "ORIGIN", "maint\n"} {
					for _, k := range []string{"armored", "protected", "keyid-subkey", "second"} {
						for _, comp := range []string{"", "xz", "zstd", "none"} {
							for pl := 0; pl < c10Payloads; pl++ {
								if !yield(C10Case{Format: "deb", Method: "debsign", Key: k, Payload: pl, Comp: comp, Via: "file", SigType: st, FailJ: -1}) {
									return
								}
							}
						}
					}
				}
				// every ordered pair of keys at one key-file path (first build with the one, second with the other)
				for _, m := range []struct{ f, m string }{{"deb", "debsign"}, {"deb", "dpkg-sig"}, {"rpm", "rpm"}} {
					for _, k := range []string{"second", "armored"} {
						for pl := 0; pl < c10Payloads; pl++ {
							for _, comp := range []string{"", "xz"} {
								if m.f != "deb" && comp != "" {
									continue
								}
								if !yield(C10Case{Format: m.f, Method: m.m, Key: k, Payload: pl, Comp: comp, Via: "file", FailJ: -1, Rotate: true}) {
									return
								}
							}
						}
					}
				}
				for _, k := range []string{"pkcs8-4096", "pkcs1"} {
					for pl := 0; pl < c10Payloads; pl++ {
						if !yield(C10Case{Format: "apk", Method: "apk", Key: k, Payload: pl, Via: "file", FailJ: -1, Rotate: true}) {
							return
						}
					}
				}
			}
			// compression names beyond the documented ones, should the tree take them (aliases, levels): what is signed
			// and listed is what is shipped
			for _, comp := range []string{"zst", "gz", "zstd:3", "gzip:9", "xz:6", "ZSTD", "Gzip"} {
				for _, m := range []string{"debsign", "dpkg-sig"} {
					if !yield(C10Case{Format: "deb", Method: m, Key: "armored", Payload: 1, Comp: comp, CompCandidate: true, Via: "file", FailJ: -1}) {
						return
					}
				}
			}
			// the signature settings stated only in the override block of the format (keys with and without passphrase)
			for _, k := range []string{"armored", "protected", "protected-binary", "keyid-subkey", "wrong-passphrase"} {
				for _, m := range []string{"debsign", "dpkg-sig"} {
					if !yield(C10Case{Format: "deb", Method: m, Key: k, Payload: 1, Via: "file", FailJ: -1, InOverride: true}) {
						return
					}
				}
				if !yield(C10Case{Format: "rpm", Method: "rpm", Key: k, Payload: 1, Via: "file", FailJ: -1, InOverride: true}) {
					return
				}
			}
			for _, k := range []string{"pkcs1", "encrypted-pem", "encrypted-pem-general", "encrypted-pem-wrong"} {
				if !yield(C10Case{Format: "apk", Method: "apk", Key: k, Payload: 1, Via: "file", FailJ: -1, InOverride: true}) {
					return
				}
			}
			// raw signatures whose first / last byte is a line end, a blank or a zero: stored byte for byte
			for _, via := range []string{"signfn", "file"} {
				if !yield(C10Case{Format: "apk", Method: "apk", Key: "sig-byte-classes", Payload: 1, Via: via, FailJ: -1}) {
					return
				}
			}
			// signing callbacks: succeed, and fail at call j
			for pl := 0; pl < c10Payloads; pl++ {
				for _, m := range []struct {
					f, m  string
					calls int
				}{{"deb", "debsign", 1}, {"deb", "dpkg-sig", 1}, {"rpm", "rpm", 2}, {"apk", "apk", 1}} {
					comps := []string{""}
					if m.f == "deb" {
						comps = []string{"", "xz", "zstd", "none"}
					}
					for _, comp := range comps {
						for j := -1; j < m.calls; j++ {
							if !yield(C10Case{Format: m.f, Method: m.m, Key: "armored", Payload: pl, Comp: comp, Via: "signfn", FailJ: j}) {
								return
							}
							// a key file configured next to the callback: the callback signs, and its failure is the failure
							kf := "armored"
							if m.f == "apk" {
								kf = "pkcs1"
							}
							if comp == "" && (pl == 1 || pl == 4 || env.Thorough()) {
								if !yield(C10Case{Format: m.f, Method: m.m, Key: kf, Payload: pl, Comp: comp, Via: "signfn+keyfile", FailJ: j}) {
									return
								}
							}
						}
						if m.m == "debsign" {
							if !yield(C10Case{Format: m.f, Method: m.m, Key: "armored", Payload: pl, Comp: comp, Via: "signfn", FailJ: -1, BinSig: true}) {
								return
							}
						}
					}
				}
			}
		},
		Check: checkC10,
	})
}

// viaFn: the case signs through the callback (with or without a key file configured next to it).
func viaFn(c C10Case) bool { return strings.HasPrefix(c.Via, "signfn") }

var c10PubName = "pubkey"

// c10PubPath: the public keyring the verifiers use - a file of the keys directory, or (absolute name) one the harness
// generated for this case.
func c10PubPath(env *engine.Env, ext string) string {
	if filepath.IsAbs(c10PubName) {
		return c10PubName + ext
	}
	return keyPath(env, c10PubName+ext)
}

func pubKeyring(env *engine.Env) (openpgp.EntityList, error) {
	f, err := os.Open(c10PubPath(env, ".asc"))
	if err != nil {
		return nil, err
	}
	defer f.Close()
	return openpgp.ReadArmoredKeyRing(f)
}

func privEntity(env *engine.Env) (*openpgp.Entity, error) {
	f, err := os.Open(keyPath(env, "privkey_unprotected.asc"))
	if err != nil {
		return nil, err
	}
	defer f.Close()
	l, err := openpgp.ReadArmoredKeyRing(f)
	if err != nil || len(l) == 0 {
		return nil, fmt.Errorf("read private key: %v", err)
	}
	return l[0], nil
}

func rsaPub(path string) (*rsa.PublicKey, error) {
	b, err := os.ReadFile(path)
	if err != nil {
		return nil, err
	}
	blk, _ := pem.Decode(b)
	if blk == nil {
		return nil, errors.New("no PEM block")
	}
	k, err := x509.ParsePKIXPublicKey(blk.Bytes)
	if err != nil {
		return nil, err
	}
	p, ok := k.(*rsa.PublicKey)
	if !ok {
		return nil, errors.New("not an RSA key")
	}
	return p, nil
}

func rsaPriv(path string) (*rsa.PrivateKey, error) {
	b, err := os.ReadFile(path)
	if err != nil {
		return nil, err
	}
	blk, _ := pem.Decode(b)
	if blk == nil {
		return nil, errors.New("no PEM block")
	}
	if k, err := x509.ParsePKCS1PrivateKey(blk.Bytes); err == nil {
		return k, nil
	}
	k, err := x509.ParsePKCS8PrivateKey(blk.Bytes)
	if err != nil {
		return nil, err
	}
	return k.(*rsa.PrivateKey), nil
}

// verifyDetached verifies an OpenPGP detached signature (armored or binary) and
// asks gpgv for a second opinion.
func verifyDetached(env *engine.Env, data, sig []byte) (signerKeyID string, err error, harness string) {
	kr, kerr := pubKeyring(env)
	if kerr != nil {
		return "", nil, kerr.Error()
	}
	var ent *openpgp.Entity
	if bytes.HasPrefix(bytes.TrimSpace(sig), []byte("-----BEGIN PGP SIGNATURE")) {
		ent, err = openpgp.CheckArmoredDetachedSignature(kr, bytes.NewReader(data), bytes.NewReader(sig), nil)
	} else {
		ent, err = openpgp.CheckDetachedSignature(kr, bytes.NewReader(data), bytes.NewReader(sig), nil)
	}
	_ = ent
	if gpgv := env.Tool("gpgv"); gpgv != "" {
		dp, rm1 := tmpFile(env, "c10.data", data)
		sp, rm2 := tmpFile(env, "c10.sig", sig)
		gerr := gpgvGood(gpgv, "--keyring", c10PubPath(env, ".gpg"), sp, dp)
		rm1()
		rm2()
		if (gerr == nil) != (err == nil) {
			return "", err, fmt.Sprintf("go-crypto (%v) and gpgv (%v) disagree on a signature", err, gerr)
		}
	}
	return "", err, ""
}

// gpgvGood runs gpgv and goes by its verdict line. GnuPG 2.2 exits non-zero after a
// "Good signature" when an armor block has neither '=' padding nor a checksum line
// (it reads on into the END line) - go-crypto writes such armor for a third of all
// signature lengths; that is an armor-parsing quirk of gpg, not a bad signature.
func gpgvGood(gpgv string, args ...string) error {
	cmd := exec.Command(gpgv, args...)
	cmd.Env = append(os.Environ(), "LC_ALL=C", "GNUPGHOME="+gnupgHome())
	out, err := cmd.CombinedOutput()
	if strings.Contains(string(out), "Good signature") && !strings.Contains(string(out), "BAD signature") {
		return nil
	}
	if err == nil {
		err = errors.New("no good signature")
	}
	return fmt.Errorf("%v: %s", err, strings.TrimSpace(string(out)))
}

func sigIssuer(sig []byte) string {
	r := io.Reader(bytes.NewReader(sig))
	if bytes.HasPrefix(bytes.TrimSpace(sig), []byte("-----BEGIN")) {
		// armor
		blk, err := armorDecode(sig)
		if err != nil {
			return ""
		}
		r = blk
	}
	p, err := packet.Read(r)
	if err != nil {
		return ""
	}
	if s, ok := p.(*packet.Signature); ok && s.IssuerKeyId != nil {
		return fmt.Sprintf("%016x", *s.IssuerKeyId)
	}
	return ""
}

// c10SigByteClasses: what the first / last byte of a raw RSA signature may be that a text-minded handling would eat.
var c10SigByteClasses = []struct {
	name string
	hit  func(sig []byte) bool
}{
	{"ends-lf", func(s []byte) bool { return s[len(s)-1] == '\n' }},
	{"ends-cr", func(s []byte) bool { return s[len(s)-1] == '\r' }},
	{"ends-space", func(s []byte) bool { return s[len(s)-1] == ' ' }},
	{"ends-nul", func(s []byte) bool { return s[len(s)-1] == 0 }},
	{"starts-nul", func(s []byte) bool { return s[0] == 0 }},
	{"starts-space", func(s []byte) bool { return s[0] == ' ' || s[0] == '\n' || s[0] == '\t' }},
}

// checkC10SigBytes: apk signatures are raw bytes. Descriptions "... #i" are enumerated in order (PKCS#1 v1.5 signing is
// deterministic, so the signature each one must carry is known to the harness) until the expected signature has been
// in every class of c10SigByteClasses; every package built on the way must carry exactly its expected signature.
func checkC10SigBytes(env *engine.Env, c C10Case) engine.Outcome {
	var out engine.Outcome
	t := tree(env)
	priv, err := rsaPriv(keyPath(env, "rsa_unprotected.priv"))
	if err != nil {
		out.HarnessError = err.Error()
		return out
	}
	d := Setting{Name: "default"}.doc(c10Payload(c.Payload), t.Root)
	d["maintainer"] = "Jane Roe <jane@example.com>"
	sigm := map[string]any{"key_name": "origin"}
	if c.Via == "file" {
		sigm["key_file"] = keyPath(env, "rsa_unprotected.priv")
	}
	d["apk"] = map[string]any{"signature": sigm}
	seen := map[string]bool{}
	p, _ := nfpm.Get("apk")
	const limit = 6000
	for i := 0; i < limit && len(seen) < len(c10SigByteClasses); i++ {
		d["description"] = fmt.Sprintf("signature byte classes #%d", i)
		cfg, err := parseYAML(d.YAML(), func(string) string { return "" })
		if err != nil {
			out.HarnessError = "parse: " + err.Error()
			return out
		}
		info, err := cfg.Get("apk")
		if err != nil {
			out.HarnessError = err.Error()
			return out
		}
		info = nfpm.WithDefaults(info)
		var returned []byte
		if c.Via == "signfn" {
			info.APK.Signature.SignFn = func(r io.Reader) ([]byte, error) {
				b, _ := io.ReadAll(r)
				s, e := rsa.SignPKCS1v15(rand.Reader, priv, crypto.SHA1, b)
				returned = s
				return s, e
			}
		}
		var buf bytes.Buffer
		if err := p.Package(info, &buf); err != nil {
			out.Violations = append(out.Violations, engine.Violation{Sig: "sig:signing-fails:apk:byte-classes", Detail: fmt.Sprintf("via=%s description #%d: %v", c.Via, i, err)})
			return out
		}
		out.Transitions++
		pkg, err := pkgread.Decode("apk", buf.Bytes(), env.Tools)
		if err != nil || pkg.ControlBlob == nil {
			out.Violations = append(out.Violations, engine.Violation{Sig: "sig:undecodable:apk", Detail: fmt.Sprintf("via=%s description #%d: %v", c.Via, i, err)})
			return out
		}
		dg := sha1.Sum(pkg.ControlBlob)
		want, err := rsa.SignPKCS1v15(rand.Reader, priv, crypto.SHA1, dg[:])
		if err != nil {
			out.HarnessError = err.Error()
			return out
		}
		var cls []string
		for _, k := range c10SigByteClasses {
			if k.hit(want) {
				cls = append(cls, k.name)
				seen[k.name] = true
			}
		}
		if returned != nil && !bytes.Equal(returned, want) {
			out.Violations = append(out.Violations, engine.Violation{Sig: "sig:callback-bytes:apk", Detail: fmt.Sprintf("via=%s description #%d: the callback did not sign the SHA-1 of the control segment as shipped", c.Via, i)})
			return out
		}
		if !bytes.Equal(pkg.SigBlob, want) {
			out.Violations = append(out.Violations, engine.Violation{Sig: "sig:bytes-altered:apk:" + strings.Join(append(cls, "any")[:1], ""),
				Detail: fmt.Sprintf("via=%s payload=%d description %q: the signature member holds %d bytes (%x...%x), the RSA signature over the control segment as shipped is %d bytes (%x...%x) [%s]",
					c.Via, c.Payload, d["description"], len(pkg.SigBlob), head(pkg.SigBlob, 2), tail(pkg.SigBlob, 2), len(want), want[:2], want[len(want)-2:], strings.Join(cls, ","))})
			return out
		}
	}
	out.Nontrivial = len(seen) == len(c10SigByteClasses)
	out.Key = fmt.Sprintf("sig-bytes|%s|%d|%d", c.Via, c.Payload, len(seen))
	if !out.Nontrivial {
		out.HarnessError = fmt.Sprintf("signature byte classes: only %d of %d classes met within %d descriptions", len(seen), len(c10SigByteClasses), limit)
	}
	return out
}

func head(b []byte, n int) []byte {
	if len(b) < n {
		return b
	}
	return b[:n]
}

func tail(b []byte, n int) []byte {
	if len(b) < n {
		return b
	}
	return b[len(b)-n:]
}

func checkC10(env *engine.Env, ci any) engine.Outcome {
	c := ci.(C10Case)
	if c.Key == "sig-byte-classes" {
		return checkC10SigBytes(env, c)
	}
	t := tree(env)
	var out engine.Outcome
	f := c.Format
	key := c10Keys[c.Key]
	viol := func(sig, format string, a ...any) {
		out.Violations = append(out.Violations, engine.Violation{Sig: sig,
			Detail: fmt.Sprintf("format=%s method=%s key=%s payload=%d compression=%q via=%s type=%q fail_j=%d key-file-replaced-before-build=%v SOURCE_DATE_EPOCH=%q\n", f, c.Method, c.Key, c.Payload, c.Comp, c.Via, c.SigType, c.FailJ, c.Rotate, c.SDE) + fmt.Sprintf(format, a...)})
	}
	set := Setting{Name: "default"}
	if f == "deb" {
		set.DebCompress = c.Comp
	}
	d := set.doc(c10Payload(c.Payload), t.Root)
	d["maintainer"] = "Jane Roe <jane@example.com>"
	blockName := map[string]string{"deb": "deb", "rpm": "rpm", "apk": "apk"}[f]
	blk, _ := d[blockName].(map[string]any)
	if blk == nil {
		blk = map[string]any{}
	}
	sigm := map[string]any{}
	c10PubName = "pubkey"
	if key.pub == "second_pub" || key.pub == "decimal_pub" {
		c10PubName = key.pub
	}
	if c.SDE != "" {
		// the signature must not depend on SOURCE_DATE_EPOCH in a way that breaks it (e.g. a date before the key existed)
		os.Setenv("SOURCE_DATE_EPOCH", c.SDE)
		defer os.Unsetenv("SOURCE_DATE_EPOCH")
	}
	rotPath := filepath.Join(env.Scratch, "rotating-key")
	if c.Via == "file" && c.Rotate {
		sigm["key_file"] = rotPath
	} else if c.Via == "file" || c.Via == "signfn+keyfile" {
		sigm["key_file"] = keyPath(env, key.file)
		if strings.HasPrefix(key.file, "GENPEM:") {
			pass := strings.TrimPrefix(key.file, "GENPEM:")
			raw, err := os.ReadFile(keyPath(env, "rsa_unprotected.priv"))
			if err != nil {
				out.HarnessError = err.Error()
				return out
			}
			blk, _ := pem.Decode(raw)
			if blk == nil {
				out.HarnessError = "rsa_unprotected.priv is not PEM"
				return out
			}
			enc, err := x509.EncryptPEMBlock(rand.Reader, blk.Type, blk.Bytes, []byte(pass), x509.PEMCipherAES256) //nolint:staticcheck
			if err != nil {
				out.HarnessError = err.Error()
				return out
			}
			gp := filepath.Join(env.Scratch, "gen-key-padded-pass.priv")
			if err := os.WriteFile(gp, pem.EncodeToMemory(enc), 0o600); err != nil {
				out.HarnessError = err.Error()
				return out
			}
			sigm["key_file"] = gp
		}
		if strings.HasPrefix(key.file, "CONCAT:") {
			var all []byte
			for _, part := range strings.Split(strings.TrimPrefix(key.file, "CONCAT:"), "+") {
				b, err := os.ReadFile(keyPath(env, part))
				if err != nil {
					out.HarnessError = err.Error()
					return out
				}
				all = append(all, b...)
			}
			cp := filepath.Join(env.Scratch, "concatenated-key.pem")
			if err := os.WriteFile(cp, all, 0o600); err != nil {
				out.HarnessError = err.Error()
				return out
			}
			sigm["key_file"] = cp
		}
		if strings.HasPrefix(key.file, "LINK:") {
			lp := filepath.Join(env.Scratch, "link-to-"+strings.TrimPrefix(key.file, "LINK:"))
			os.Remove(lp)
			if err := os.Symlink(keyPath(env, strings.TrimPrefix(key.file, "LINK:")), lp); err != nil {
				out.HarnessError = err.Error()
				return out
			}
			sigm["key_file"] = lp
		}
		if strings.HasPrefix(key.file, "GENCERT:") {
			t0 := time.Date(2020, 2, 3, 4, 5, 6, 0, time.UTC)
			pc := &packet.Config{Time: func() time.Time { return t0 }, Algorithm: packet.PubKeyAlgoRSA, RSABits: 2048, DefaultHash: crypto.SHA256}
			ent, err := openpgp.NewEntity("Verif Offline Primary", "", "offline@example.com", pc)
			if err != nil {
				out.HarnessError = "cannot generate a key: " + err.Error()
				return out
			}
			for name, id := range ent.Identities {
				id.SelfSignature.FlagsValid, id.SelfSignature.FlagCertify, id.SelfSignature.FlagSign = true, true, false
				if err := id.SelfSignature.SignUserId(name, ent.PrimaryKey, ent.PrivateKey, pc); err != nil {
					out.HarnessError = "cannot re-sign the identity: " + err.Error()
					return out
				}
			}
			if err := ent.AddSigningSubkey(pc); err != nil {
				out.HarnessError = "cannot add a signing subkey: " + err.Error()
				return out
			}
			base := filepath.Join(env.Scratch, "gen-certify-only-primary")
			var pb, pa, kb bytes.Buffer
			if err := ent.Serialize(&pb); err != nil {
				out.HarnessError = "cannot write the generated public key: " + err.Error()
				return out
			}
			if aw, err := armor.Encode(&pa, openpgp.PublicKeyType, nil); err == nil {
				aw.Write(pb.Bytes())
				aw.Close()
			}
			os.WriteFile(base+"-pub.gpg", pb.Bytes(), 0o644)
			os.WriteFile(base+"-pub.asc", pa.Bytes(), 0o644)
			aw, err := armor.Encode(&kb, openpgp.PrivateKeyType, nil)
			if err == nil {
				err = ent.SerializePrivateWithoutSigning(aw, nil)
				aw.Close()
			}
			if err != nil {
				out.HarnessError = "cannot write the generated key: " + err.Error()
				return out
			}
			if err := os.WriteFile(base+".asc", kb.Bytes(), 0o600); err != nil {
				out.HarnessError = err.Error()
				return out
			}
			sigm["key_file"] = base + ".asc"
			c10PubName = base + "-pub"
		}
		if strings.HasPrefix(key.file, "GEN2SUB:") {
			ent, err := privEntity(env)
			if err != nil {
				out.HarnessError = err.Error()
				return out
			}
			t1 := time.Date(2021, 1, 2, 3, 4, 5, 0, time.UTC)
			t2 := time.Date(2022, 6, 7, 8, 9, 10, 0, time.UTC)
			n0 := len(ent.Subkeys)
			for _, tt := range []time.Time{t1, t2} {
				tt := tt
				if err := ent.AddSigningSubkey(&packet.Config{Time: func() time.Time { return tt }, Algorithm: packet.PubKeyAlgoRSA, RSABits: 2048, DefaultHash: crypto.SHA256}); err != nil {
					out.HarnessError = "cannot add a signing subkey: " + err.Error()
					return out
				}
			}
			older, newer := ent.Subkeys[n0], ent.Subkeys[n0+1]
			pick := older
			if strings.HasSuffix(key.file, ":newer") {
				pick = newer
			}
			key.keyID = fmt.Sprintf("%016x", pick.PublicKey.KeyId)
			// the public keyring for the verifiers, then the private keys locked with the passphrase
			base := filepath.Join(env.Scratch, "gen-two-signing-subkeys-"+strings.TrimPrefix(key.file, "GEN2SUB:"))
			var pb, pa, kb bytes.Buffer
			if err := ent.Serialize(&pb); err != nil {
				out.HarnessError = "cannot write the generated public key: " + err.Error()
				return out
			}
			if aw, err := armor.Encode(&pa, openpgp.PublicKeyType, nil); err == nil {
				aw.Write(pb.Bytes())
				aw.Close()
			}
			os.WriteFile(base+"-pub.gpg", pb.Bytes(), 0o644)
			os.WriteFile(base+"-pub.asc", pa.Bytes(), 0o644)
			pass := []byte(key.givePass)
			if err := ent.PrivateKey.Encrypt(pass); err != nil {
				out.HarnessError = "cannot lock the generated key: " + err.Error()
				return out
			}
			for i := range ent.Subkeys {
				if ent.Subkeys[i].PrivateKey != nil {
					if err := ent.Subkeys[i].PrivateKey.Encrypt(pass); err != nil {
						out.HarnessError = "cannot lock a generated subkey: " + err.Error()
						return out
					}
				}
			}
			aw, err := armor.Encode(&kb, openpgp.PrivateKeyType, nil)
			if err == nil {
				err = ent.SerializePrivateWithoutSigning(aw, nil)
				aw.Close()
			}
			if err != nil {
				out.HarnessError = "cannot write the generated key: " + err.Error()
				return out
			}
			if err := os.WriteFile(base+".asc", kb.Bytes(), 0o600); err != nil {
				out.HarnessError = err.Error()
				return out
			}
			sigm["key_file"] = base + ".asc"
			c10PubName = base + "-pub"
		}
		if strings.HasPrefix(key.file, "GENSUB:") {
			// the unprotected test key with one more subkey: an encryption subkey that expired years ago (rotated out).
			// The primary key, which signs, is as valid as before
			ent, err := privEntity(env)
			if err != nil {
				out.HarnessError = err.Error()
				return out
			}
			past := time.Date(2015, 1, 2, 3, 4, 5, 0, time.UTC)
			if err := ent.AddEncryptionSubkey(&packet.Config{Time: func() time.Time { return past }, KeyLifetimeSecs: 3600, Algorithm: packet.PubKeyAlgoEdDSA}); err != nil {
				out.HarnessError = "cannot add a subkey: " + err.Error()
				return out
			}
			var kb bytes.Buffer
			aw, err := armor.Encode(&kb, openpgp.PrivateKeyType, nil)
			if err == nil {
				err = ent.SerializePrivate(aw, nil)
				aw.Close()
			}
			if err != nil {
				out.HarnessError = "cannot write the generated key: " + err.Error()
				return out
			}
			gp := filepath.Join(env.Scratch, "gen-key-expired-subkey.asc")
			if err := os.WriteFile(gp, kb.Bytes(), 0o600); err != nil {
				out.HarnessError = err.Error()
				return out
			}
			sigm["key_file"] = gp
		}
		if strings.HasPrefix(key.file, "GEN:") {
			// the armored test key re-written the way key files reach a build in practice (a secret pasted from a YAML
			// block or heredoc: leading blank line, a comment line in front, CRLF line ends, text after the block)
			b, err := os.ReadFile(keyPath(env, "privkey_unprotected.asc"))
			if err != nil {
				out.HarnessError = err.Error()
				return out
			}
			switch strings.TrimPrefix(key.file, "GEN:") {
			case "leading-blank":
				b = append([]byte("\n\n"), b...)
			case "leading-text":
				b = append([]byte("# signing key for the release pipeline\n\n"), b...)
			case "crlf":
				b = bytes.ReplaceAll(b, []byte("\n"), []byte("\r\n"))
			case "trailing-text":
				b = append(b, []byte("\n# end of key\n")...)
			}
			gp := filepath.Join(env.Scratch, "gen-key-"+strings.TrimPrefix(key.file, "GEN:")+".asc")
			if err := os.WriteFile(gp, b, 0o600); err != nil {
				out.HarnessError = err.Error()
				return out
			}
			sigm["key_file"] = gp
		}
		if key.keyID != "" {
			sigm["key_id"] = key.keyID
			if key.cfgKeyID != "" {
				sigm["key_id"] = key.cfgKeyID
			}
		}
	}
	if c.Method == "dpkg-sig" {
		sigm["method"] = "dpkg-sig"
		sigm["signer"] = "Jane Roe <jane@example.com>"
	}
	if c.SigType != "" {
		sigm["type"] = c.SigType
	}
	wantSigName := ".SIGN.RSA.origin.rsa.pub"
	if f == "apk" {
		sigm["key_name"] = "origin"
		if c.KeyName != "" {
			kn, known := c10KeyNames[c.KeyName]
			if !known {
				out.HarnessError = "unknown key-name class " + c.KeyName
				return out
			}
			if kn == "" {
				delete(sigm, "key_name")
				kn = "jane@example.com" // the address of the configured maintainer
				if c.KeyName == "from-maintainer-mixed-case" {
					d["maintainer"] = "John Doe <John.Doe@Example.COM>"
					kn = "John.Doe@Example.COM"
				}
			} else {
				sigm["key_name"] = kn
			}
			wantSigName = ".SIGN.RSA." + strings.TrimSuffix(kn, ".rsa.pub") + ".rsa.pub"
		}
	}
	blk["signature"] = sigm
	d[blockName] = blk
	if c.InOverride {
		// the signature block is stated in the override block of the format only
		delete(blk, "signature")
		if len(blk) == 0 {
			delete(d, blockName)
		}
		d["overrides"] = map[string]any{f: map[string]any{blockName: map[string]any{"signature": sigm}}}
	}
	envm := map[string]string{}
	if key.givePass != "" {
		v := key.passVar
		if v == "FORMAT" {
			v = "NFPM_" + strings.ToUpper(f) + "_PASSPHRASE"
			envm["NFPM_PASSPHRASE"] = "a-wrong-general-passphrase" // the format-specific one must win
		}
		envm[v] = key.givePass
	}
	text := d.YAML()
	mapping := func(k string) string { return envm[k] }
	if c.ProcEnv {
		for k, v := range envm {
			os.Setenv(k, v)
			defer os.Unsetenv(k)
		}
		mapping = os.Getenv
	}
	cfg, err := parseYAML(text, mapping)
	if err != nil {
		out.HarnessError = "parse: " + err.Error()
		return out
	}
	info, err := cfg.Get(f)
	if err != nil {
		out.HarnessError = err.Error()
		return out
	}
	info = nfpm.WithDefaults(info)
	// signing callback route
	var captured [][]byte
	sentinel := errors.New("signer sentinel failure")
	if viaFn(c) {
		ent, err := privEntity(env)
		if err != nil {
			out.HarnessError = err.Error()
			return out
		}
		fn := func(r io.Reader) ([]byte, error) {
			b, _ := io.ReadAll(r)
			captured = append(captured, b)
			if len(captured)-1 == c.FailJ {
				return nil, sentinel
			}
			var sig bytes.Buffer
			switch c.Method {
			case "debsign":
				if c.BinSig {
					err = openpgp.DetachSign(&sig, ent, bytes.NewReader(b), &packet.Config{DefaultHash: crypto.SHA256})
				} else {
					err = openpgp.ArmoredDetachSign(&sig, ent, bytes.NewReader(b), &packet.Config{DefaultHash: crypto.SHA256})
				}
			case "dpkg-sig":
				w, e := clearsign.Encode(&sig, ent.PrivateKey, &packet.Config{DefaultHash: crypto.SHA256})
				if e != nil {
					return nil, e
				}
				w.Write(b)
				err = w.Close()
			case "rpm":
				err = openpgp.DetachSign(&sig, ent, bytes.NewReader(b), &packet.Config{DefaultHash: crypto.SHA256})
			case "apk":
				pk, e := rsaPriv(keyPath(env, "rsa_unprotected.priv"))
				if e != nil {
					return nil, e
				}
				s, e := rsa.SignPKCS1v15(rand.Reader, pk, crypto.SHA1, b)
				return s, e
			}
			return sig.Bytes(), err
		}
		info.Deb.Signature.SignFn = fn
		info.RPM.Signature.SignFn = fn
		info.APK.Signature.SignFn = fn
	}
	p, _ := nfpm.Get(f)
	if c.Rotate {
		// first the other key at the same path, one build with it, then the key under test
		other := map[string]string{"second": "privkey_unprotected.asc", "armored": "second_priv.asc", "pkcs8-4096": "rsa_unprotected.priv", "pkcs1": "rsa4096.priv"}[c.Key]
		ob, _ := os.ReadFile(keyPath(env, other))
		os.WriteFile(rotPath, ob, 0o600)
		if pc, err := parseYAML(text, func(k string) string { return envm[k] }); err == nil {
			if pi, err := pc.Get(f); err == nil {
				var b0 bytes.Buffer
				_ = p.Package(nfpm.WithDefaults(pi), &b0)
				out.Transitions++
			}
		}
		kb, _ := os.ReadFile(keyPath(env, key.file))
		os.WriteFile(rotPath, kb, 0o600)
		defer os.Remove(rotPath)
	}
	var buf bytes.Buffer
	perr := p.Package(info, &buf)
	out.Nontrivial = true
	if c.ProcEnv && perr == nil {
		// the same document read and packaged once more in this process, the environment untouched by the harness
		var second error
		if cfg2, err := parseYAML(text, os.Getenv); err != nil {
			second = err
		} else if i2, err := cfg2.Get(f); err != nil {
			second = err
		} else {
			var b2 bytes.Buffer
			second = p.Package(nfpm.WithDefaults(i2), &b2)
		}
		out.Transitions++
		if second != nil {
			viol("sig:second-round-fails:"+c.Method, "the first parse + package signed; the same document parsed and packaged again in the same process fails: %v", second)
		}
		for k, v := range envm {
			if got := os.Getenv(k); got != v {
				viol("sig:environment-changed:"+c.Method, "after packaging, %s in the process environment is %q (the harness set %q)", k, got, v)
			}
		}
	}
	if c.CompCandidate && perr != nil {
		// a compression name beyond the documented ones that this tree does not take: nothing to judge
		out.Nontrivial = false
		out.Key = fmt.Sprintf("%s:%s:candidate-compression:%s:refused", f, c.Method, c.Comp)
		return out
	}
	expectFail := key.wantFail && c.Via == "file"
	if c.Method == "debsign" && c.SigType != "" && c.SigType != "origin" && c.SigType != "maint" && c.SigType != "archive" {
		expectFail = true
	}
	if viaFn(c) && c.FailJ >= 0 {
		expectFail = true
	}
	out.Key = fmt.Sprintf("%s:%s:%s:%d:%s:%s:%s:%d:%v:%s:%s:err=%v", f, c.Method, c.Key, c.Payload, c.Comp, c.Via, c.SigType, c.FailJ, c.Rotate, c.SDE, c.KeyName+fmt.Sprint(c.BinSig, c.InOverride, c.ProcEnv), perr != nil)
	if expectFail {
		why := "signing cannot succeed"
		if perr == nil {
			viol("sig:failure-not-reported:"+c.Method+":"+failClass(c), "%s, but Package returned nil (%d bytes written)", why, buf.Len())
			return out
		}
		var sf *nfpm.ErrSigningFailure
		if !errors.As(perr, &sf) {
			viol("sig:failure-untyped:"+c.Method+":"+failClass(c), "%s; Package returned %q which is not identifiable as *nfpm.ErrSigningFailure", why, perr)
			return out
		}
		if viaFn(c) && c.FailJ >= 0 {
			if !errors.Is(perr, sentinel) && !errors.Is(sf.Err, sentinel) {
				viol("sig:failure-loses-cause:"+c.Method, "the signing failure %q does not carry the signer's own error", perr)
			}
		}
		return out
	}
	if perr != nil && c.KeyName != "" {
		// a key name the signature entry's header cannot carry: refusing is fine, as a signing failure
		switch c.KeyName {
		case "suffixed", "mail", "from-maintainer", "len82", "space", "ends-r", "ends-us", "ends-b", "is-pub", "ends-rsa", "dots":
			viol("sig:signing-fails:apk:key-name:"+c.KeyName, "key name %q fits the signature entry's header, Package failed: %v", c10KeyNames[c.KeyName], perr)
		default:
			var sf *nfpm.ErrSigningFailure
			if !errors.As(perr, &sf) {
				viol("sig:failure-untyped:apk:key-name:"+c.KeyName, "Package returned %q which is not identifiable as *nfpm.ErrSigningFailure", perr)
			}
		}
		return out
	}
	if perr != nil {
		viol("sig:signing-fails:"+c.Method+":"+strings.TrimSuffix(c.Key, "-with-passphrase"), "valid signing configuration (key kind %s), Package failed: %v", c.Key, perr)
		return out
	}
	pkg, derr := pkgread.Decode(f, buf.Bytes(), env.Tools)
	if derr != nil {
		viol("sig:undecodable:"+f, "%v", derr)
		return out
	}
	for _, pr := range pkg.Problems {
		viol("sig:malformed-package:"+f, "%s", pr)
	}
	harness := func(s string) engine.Outcome { out.HarnessError = s; return out }
	switch c.Method {
	case "debsign":
		wantName := "_gpgorigin"
		if c.SigType != "" {
			wantName = "_gpg" + c.SigType
		}
		if pkg.SigName != wantName {
			viol("sig:member-name:debsign", "signature member is %q, expected %q", pkg.SigName, wantName)
			return out
		}
		var data []byte
		for _, m := range pkg.Ar[:3] {
			data = append(data, m.Data...)
		}
		_, verr, h := verifyDetached(env, data, pkg.SigBlob)
		if h != "" {
			return harness(h)
		}
		if verr != nil {
			viol("sig:does-not-verify:debsign", "the signature in %s does not verify over debian-binary+control+data as stored: %v", pkg.SigName, verr)
		}
		if key.keyID != "" && c.Via == "file" {
			if got := sigIssuer(pkg.SigBlob); got != key.keyID {
				viol("sig:wrong-key-id:debsign", "signature issued by key %s, configured key_id %s", got, key.keyID)
			}
		}
		if viaFn(c) && (len(captured) != 1 || !bytes.Equal(captured[0], data)) {
			viol("sig:callback-bytes:debsign", "the signing callback received %d call(s), first %d bytes; the verifier's bytes are the %d bytes of the three members as stored", len(captured), firstLen(captured), len(data))
		}
	case "dpkg-sig":
		wantName := "_gpgbuilder"
		if c.SigType != "" {
			wantName = "_gpg" + c.SigType
		}
		if pkg.SigName != wantName {
			viol("sig:member-name:dpkg-sig", "signature member is %q, expected %q", pkg.SigName, wantName)
			return out
		}
		block, _ := clearsign.Decode(pkg.SigBlob)
		if block == nil {
			viol("sig:not-clearsigned:dpkg-sig", "%s is not a clear-signed message", pkg.SigName)
			return out
		}
		kr, _ := pubKeyring(env)
		_, verr := block.VerifySignature(kr, nil)
		if verr != nil {
			viol("sig:does-not-verify:dpkg-sig", "the clear-signed manifest does not verify: %v", verr)
		}
		// second opinion (only for signatures nfpm made itself; a callback's signature is the harness's own)
		if gpgv := env.Tool("gpgv"); gpgv != "" && c.Via == "file" {
			sp, rm := tmpFile(env, "c10.clearsig", pkg.SigBlob)
			gerr := gpgvGood(gpgv, "--keyring", c10PubPath(env, ".gpg"), sp)
			rm()
			if (gerr == nil) != (verr == nil) {
				return harness(fmt.Sprintf("go-crypto (%v) and gpgv (%v) disagree on the clear-signed manifest", verr, gerr))
			}
		}
		// manifest lines vs stored members
		members := map[string][]byte{}
		for _, m := range pkg.Ar[:3] {
			members[m.Name] = m.Data
		}
		seen := 0
		inFiles := false
		var listed []string
		for _, l := range strings.Split(string(block.Plaintext), "\n") {
			if strings.HasPrefix(l, "Files:") {
				inFiles = true
				continue
			}
			if !inFiles || strings.TrimSpace(l) == "" {
				continue
			}
			fs := strings.Fields(l)
			if len(fs) != 4 {
				viol("sig:manifest-syntax:dpkg-sig", "manifest line %q is not '<md5> <sha1> <size> <name>'", l)
				continue
			}
			seen++
			listed = append(listed, fs[3])
			data, ok := members[fs[3]]
			if !ok {
				viol("sig:manifest-member-name:dpkg-sig:"+compClass(c.Comp), "the manifest names member %q, the archive stores %v", fs[3], arNames(pkg))
				continue
			}
			m5, s1 := md5.Sum(data), sha1.Sum(data)
			if fs[0] != hex.EncodeToString(m5[:]) || fs[1] != hex.EncodeToString(s1[:]) {
				viol("sig:manifest-digest:dpkg-sig", "manifest digests for %s do not match the stored member", fs[3])
			}
			if fs[2] != strconv.Itoa(len(data)) {
				viol("sig:manifest-size:dpkg-sig", "manifest says %s is %s bytes, the stored member has %d", fs[3], fs[2], len(data))
			}
		}
		if seen != 3 {
			viol("sig:manifest-lines:dpkg-sig", "manifest lists %d files, expected the 3 members", seen)
		}
		{
			// the manifest lists the members in the order of the archive (as dpkg-sig writes and reads it)
			var stored []string
			for _, m := range pkg.Ar[:3] {
				stored = append(stored, m.Name)
			}
			if len(listed) == 3 && fmt.Sprint(listed) != fmt.Sprint(stored) {
				viol("sig:manifest-order:dpkg-sig", "the manifest lists the members as %v, the archive stores them as %v", listed, stored)
			}
		}
		if viaFn(c) {
			// the clear-sign framing drops trailing blanks of a line: compare modulo those
			norm := func(b []byte) string {
				var ls []string
				for _, l := range strings.Split(string(bytes.TrimSpace(b)), "\n") {
					ls = append(ls, strings.TrimRight(l, " \t\r"))
				}
				return strings.Join(ls, "\n")
			}
			if len(captured) == 1 && c.FailJ < 0 {
				// the same settings packaged once more on a single processor: the callback is handed the same manifest
				// (but for its date line)
				noDate := func(b []byte) string {
					var ls []string
					for _, l := range strings.Split(norm(b), "\n") {
						if !strings.HasPrefix(l, "Date:") {
							ls = append(ls, l)
						}
					}
					return strings.Join(ls, "\n")
				}
				if cfg2, err := parseYAML(text, mapping); err == nil {
					if i2, err := cfg2.Get(f); err == nil {
						i2 = nfpm.WithDefaults(i2)
						i2.Deb.Signature.SignFn = info.Deb.Signature.SignFn
						old := runtime.GOMAXPROCS(1)
						var b2 bytes.Buffer
						err := p.Package(i2, &b2)
						runtime.GOMAXPROCS(old)
						out.Transitions++
						if err == nil && len(captured) == 2 && noDate(captured[0]) != noDate(captured[1]) {
							viol("sig:manifest-unstable:dpkg-sig", "the manifest handed to the signer differs between two builds of the same settings (GOMAXPROCS %d and 1):\n%s\n---\n%s", old, noDate(captured[0]), noDate(captured[1]))
						}
						captured = captured[:1]
					}
				}
			}
			if len(captured) != 1 || norm(captured[0]) != norm(block.Plaintext) {
				viol("sig:callback-bytes:dpkg-sig", "the signing callback did not receive the manifest that is in the package (%d calls)", len(captured))
			}
		}
	case "rpm":
		r := pkg.RPM
		hs, ps := r.Sig.ByTag[268], r.Sig.ByTag[1002]
		if hs == nil || ps == nil {
			viol("sig:tags-missing:rpm", "signature header lacks RSAHEADER (%v) or PGP (%v)", hs != nil, ps != nil)
			return out
		}
		_, verr, h := verifyDetached(env, r.Hdr.Raw, hs.Bin)
		if h != "" {
			return harness(h)
		}
		if verr != nil {
			viol("sig:does-not-verify:rpm:header", "RSAHEADER does not verify over the header blob: %v", verr)
		}
		full := append(append([]byte{}, r.Hdr.Raw...), r.Payload...)
		_, verr, h = verifyDetached(env, full, ps.Bin)
		if h != "" {
			return harness(h)
		}
		if verr != nil {
			viol("sig:does-not-verify:rpm:header+payload", "PGP does not verify over header+payload: %v", verr)
		}
		if key.keyID != "" && c.Via == "file" {
			if got := sigIssuer(hs.Bin); got != key.keyID {
				viol("sig:wrong-key-id:rpm", "signature issued by key %s, configured key_id %s", got, key.keyID)
			}
		}
		if viaFn(c) && (len(captured) != 2 || !bytes.Equal(captured[0], r.Hdr.Raw) || !bytes.Equal(captured[1], full)) {
			viol("sig:callback-bytes:rpm", "the signing callback received %d call(s) (%v bytes); expected the header (%d) and header+payload (%d)", len(captured), lens(captured), len(r.Hdr.Raw), len(full))
		}
	case "apk":
		if pkg.SigName != wantSigName {
			viol("sig:member-name:apk", "signature entry is %q, expected %s first in the stream", pkg.SigName, wantSigName)
			return out
		}
		pubFile := key.pub
		if viaFn(c) {
			pubFile = "rsa_unprotected.pub"
		}
		pub, err := rsaPub(keyPath(env, pubFile))
		if err != nil {
			return harness(err.Error())
		}
		dg := sha1.Sum(pkg.ControlBlob)
		if err := rsa.VerifyPKCS1v15(pub, crypto.SHA1, dg[:], pkg.SigBlob); err != nil {
			viol("sig:does-not-verify:apk", "the RSA signature does not verify (PKCS#1 v1.5, SHA-1) over the control segment as shipped: %v", err)
		}
		if ossl := env.Tool("openssl"); ossl != "" {
			sp, rm1 := tmpFile(env, "c10.rsasig", pkg.SigBlob)
			cp, rm2 := tmpFile(env, "c10.control", pkg.ControlBlob)
			_, oerr := runTool(ossl, nil, "dgst", "-sha1", "-verify", keyPath(env, pubFile), "-signature", sp, cp)
			rm1()
			rm2()
			if oerr != nil {
				viol("sig:openssl-rejects:apk", "openssl dgst -sha1 -verify rejects the signature: %v", oerr)
			}
		}
		if viaFn(c) && (len(captured) != 1 || !bytes.Equal(captured[0], dg[:])) {
			viol("sig:callback-bytes:apk", "the signing callback received %d call(s) of %v bytes; expected the SHA-1 of the control segment", len(captured), lens(captured))
		}
	}
	return out
}

func failClass(c C10Case) string {
	if viaFn(c) && c.FailJ >= 0 {
		return "callback-fails"
	}
	if c.SigType != "" {
		return "invalid-type"
	}
	return c.Key
}

func compClass(c string) string {
	if c == "" {
		return "gzip"
	}
	return c
}

func arNames(p *pkgread.Pkg) []string {
	var n []string
	for _, m := range p.Ar {
		n = append(n, m.Name)
	}
	return n
}

func firstLen(b [][]byte) int {
	if len(b) == 0 {
		return 0
	}
	return len(b[0])
}
func firstOf(b [][]byte) []byte {
	if len(b) == 0 {
		return nil
	}
	return b[0]
}
func lens(b [][]byte) []int {
	var o []int
	for _, x := range b {
		o = append(o, len(x))
	}
	return o
}

var _ = filepath.Join
