package props

import (
	"bytes"
	"crypto/sha256"
	"encoding/hex"
	"fmt"
	"io"
	"os"
	"reflect"
	"sort"
	"strings"

	"verif/mc/engine"
	"verif/mc/fixture"
	"verif/mc/model"

	"github.com/goreleaser/nfpm/v2"
	"github.com/goreleaser/nfpm/v2/deprecation"
)

// C11Case is one configuration whose operation histories are explored
// breadth-first (Part "bfs"), or exhaustively without state matching (Part "orders", "seq").
type C11Case struct {
	Part   string `json:"part"`
	Config int    `json:"config"`
	Depth  int    `json:"depth"`
	// Alias: a configuration as a library user may build it in Go - the override block of deb is also THE block
	// (same pointer) of rpm and apk
	Alias bool `json:"alias_override_blocks,omitempty"`
}

// c11Ops is the operation alphabet: validate, file-name(f), package(f), name-then-package(f).
func c11Ops() []string {
	ops := []string{"V"}
	for _, f := range Formats {
		ops = append(ops, "N:"+f)
	}
	for _, f := range Formats {
		ops = append(ops, "P:"+f)
	}
	for _, f := range Formats {
		ops = append(ops, "NP:"+f)
	}
	return ops
}

// applyOp performs one operation on the live configuration and returns its observable result.
func applyOp(cfg *nfpm.Config, op string) string {
	kind, f, _ := strings.Cut(op, ":")
	if kind == "V" {
		if err := cfg.Validate(); err != nil {
			return "validate-error: " + err.Error()
		}
		return "valid"
	}
	info, err := cfg.Get(f)
	if err != nil {
		return "get-error: " + err.Error()
	}
	info = nfpm.WithDefaults(info)
	p, err := nfpm.Get(f)
	if err != nil {
		return "no-packager"
	}
	res := ""
	if kind == "N" || kind == "NP" {
		res = "name=" + p.ConventionalFileName(info)
	}
	if kind == "P" || kind == "NP" {
		var buf bytes.Buffer
		if err := p.Package(info, &buf); err != nil {
			return res + " package-error: " + err.Error()
		}
		s := sha256.Sum256(buf.Bytes())
		res += fmt.Sprintf(" package=%d:%s", buf.Len(), hex.EncodeToString(s[:10]))
	}
	return res
}

func settingsOf(cfg *nfpm.Config) map[string]string {
	out := map[string]string{}
	for _, f := range Formats {
		info, err := cfg.Get(f)
		if err != nil {
			out[f] = "error: " + err.Error()
			continue
		}
		out[f] = normInfo(info)
	}
	return out
}

func stateOf(cfg *nfpm.Config) (string, int) {
	d := newStateDumper()
	d.dump("config", reflect.ValueOf(cfg).Elem())
	n := dumpGlobals(d)
	for _, k := range []string{"SOURCE_DATE_EPOCH", "NFPM_PASSPHRASE", "TZ"} {
		d.b.WriteString("env " + k + "=" + os.Getenv(k) + "\n")
	}
	s := sha256.Sum256([]byte(d.String()))
	return hex.EncodeToString(s[:12]), n
}

func c11Configs(env *engine.Env) []fixture.Doc {
	docs := sharingConfigs(env)
	{
		t := tree(env)
		for _, e := range c01Templates() {
			docs = append(docs, Setting{Name: "default"}.doc([]model.Entry{e, {Src: "etc/app.conf", Dst: "/etc/zz.conf", HasInfo: true, Owner: "app"}}, t.Root))
		}
	}
	return docs
}

func init() {
	engine.Register(&engine.Prop{
		ID:    "C11",
		Level: "model_checking",
		Rule: "explicit-state breadth-first search over histories of the 16 operations {validate, file-name(f), package(f), name-then-package(f)} (f in the five formats) applied to ONE parsed configuration; a state is the canonical dump (pointer aliasing numbered, unexported fields included) of the configuration value graph, every package-level variable of the nfpm packages (woven build) and the relevant environment; " +
			"successor = replay of the history on a freshly parsed configuration + one operation; every transition is judged: result (package bytes / file name) equal to the fresh-parse baseline of that operation, and Config.Get(f) for all f unchanged by the operation; states are matched by hash, depth <=4 (thorough 7); " +
			"in addition all 120 orders of the five packagings and (thorough) every sequence of <=3 operations are executed without state matching as a cross-check; non-trivial = the configuration packages for at least one format; distinct = distinct (configuration, reached state)",
		Assumptions: []string{
			"operations are deterministic functions of the dumped state (package mtime fixed; no clock reads: see C07's clock seam), so equal dumps have equal futures",
			"foreign objects (sync.Mutex, templates, packager singletons) are dumped by identity only",
		},
		Setup:  setupTree,
		Decode: decodeInto[C11Case],
		Bounds: func(env *engine.Env) map[string]any {
			return map[string]any{"operations": c11Ops(), "depth": map[string]int{"quick": 4, "thorough": 7}}
		},
		Enumerate: func(env *engine.Env, yield func(any) bool) {
			if env.Data["tree"] == nil {
				return
			}
			n := len(c11Configs(env))
			depth := 4
			if env.Thorough() {
				depth = 7
			}
			for i := 0; i < n; i++ {
				if !yield(C11Case{Part: "bfs", Config: i, Depth: depth}) {
					return
				}
			}
			for i, d := range sharingConfigs(env) {
				if ov, ok := d["overrides"].(map[string]any); ok && ov["deb"] != nil {
					dd := 3
					if env.Thorough() {
						dd = 4
					}
					if !yield(C11Case{Part: "bfs", Config: i, Depth: dd, Alias: true}) {
						return
					}
				}
			}
			for i := 0; i < len(sharingConfigs(env)); i++ {
				if !yield(C11Case{Part: "orders", Config: i}) {
					return
				}
			}
			for i := 0; i < len(sharingConfigs(env)); i++ {
				d := 2
				if env.Thorough() {
					d = 3
				}
				if !yield(C11Case{Part: "seq", Config: i, Depth: d}) {
					return
				}
			}
		},
		Check: checkC11,
	})
}

func checkC11(env *engine.Env, ci any) engine.Outcome {
	c := ci.(C11Case)
	var out engine.Outcome
	deprecation.Noticer = io.Discard
	docs := c11Configs(env)
	text := docs[c.Config].YAML()
	ops := c11Ops()
	fresh := func() *nfpm.Config {
		cfg, err := parseYAML(text, nil)
		if err != nil {
			return nil
		}
		if c.Alias && cfg.Overrides["deb"] != nil {
			cfg.Overrides["rpm"] = cfg.Overrides["deb"]
			cfg.Overrides["apk"] = cfg.Overrides["deb"]
		}
		return &cfg
	}
	if fresh() == nil {
		out.HarnessError = "configuration does not parse"
		return out
	}
	// fresh-parse baselines
	baseline := map[string]string{}
	for _, op := range ops {
		baseline[op] = applyOp(fresh(), op)
		out.Transitions++
		if strings.Contains(baseline[op], "package=") {
			out.Nontrivial = true
		}
	}
	freshSettings := settingsOf(fresh())
	reported := map[string]bool{}
	viol := func(sig, format string, a ...any) {
		if reported[sig] {
			return
		}
		reported[sig] = true
		out.Violations = append(out.Violations, engine.Violation{Sig: sig,
			Detail: fmt.Sprintf("config #%d\n", c.Config) + fmt.Sprintf(format, a...) + "\nconfig:\n" + text})
	}
	// run executes history h (replayed on a fresh configuration) and judges the LAST operation
	run := func(h []string) (state string, ok bool) {
		cfg := fresh()
		for _, op := range h[:len(h)-1] {
			applyOp(cfg, op)
		}
		last := h[len(h)-1]
		before := settingsOf(cfg)
		res := applyOp(cfg, last)
		after := settingsOf(cfg)
		out.Transitions += len(h)
		hist := strings.Join(h[:len(h)-1], " ")
		// asking for the file name first has no effect on the package: name+package(f) must ship what package(f) ships
		if k, f, _ := strings.Cut(last, ":"); k == "NP" {
			if i := strings.Index(res, " package"); i >= 0 && strings.TrimSpace(res[i:]) != strings.TrimSpace(baseline["P:"+f]) && !strings.Contains(baseline["P:"+f], "error") {
				viol("history:name-alters-package:"+f, "after [%s], asking for the file name and then packaging %s on the same settings yields\n  %s\nwhile packaging alone on a freshly parsed configuration yields\n  %s", hist, f, res[i:], baseline["P:"+f])
			}
		}
		if res != baseline[last] {
			viol("history:result:"+opClass(last)+":after:"+histClass(h[:len(h)-1]), "after the operations [%s] on one parsed configuration, %s yields\n  %s\nwhile on a freshly parsed configuration it yields\n  %s", hist, last, res, baseline[last])
		}
		for _, f := range Formats {
			if before[f] != after[f] {
				viol("history:settings:"+opClass(last)+":changes:"+f, "operation %s (after [%s]) changes the effective settings the configuration yields for %s:\n%s", last, hist, f, diffLines(after[f], before[f]))
			}
		}
		for _, f := range Formats {
			if after[f] != freshSettings[f] {
				viol("history:settings-drift:"+f, "after [%s %s] the effective settings for %s differ from those of a freshly parsed configuration:\n%s", hist, last, f, diffLines(after[f], freshSettings[f]))
			}
		}
		st, _ := stateOf(cfg)
		return st, true
	}
	switch c.Part {
	case "bfs":
		s0, nglob := stateOf(fresh())
		seen := map[string][]string{s0: nil}
		frontier := [][]string{nil}
		maxDepth := 0
		for depth := 1; depth <= c.Depth && len(frontier) > 0; depth++ {
			var next [][]string
			for _, h := range frontier {
				for _, op := range ops {
					nh := append(append([]string{}, h...), op)
					st, _ := run(nh)
					if _, dup := seen[st]; !dup {
						seen[st] = nh
						next = append(next, nh)
						maxDepth = depth
					}
				}
				if len(seen) > 400 || env.Expired() {
					break
				}
			}
			frontier = next
			if len(out.Violations) > 0 {
				// the shortest violating histories have been found: the configuration is decided
				break
			}
		}
		out.States = len(seen) - 1
		if out.Counters == nil {
			out.Counters = map[string]int{}
		}
		out.Counters["bfs_states"] = len(seen)
		out.Counters["bfs_max_depth_with_new_state"] = maxDepth
		out.Counters["globals_in_state"] = nglob
		var hs []string
		for _, h := range seen {
			hs = append(hs, strings.Join(h, ">"))
		}
		sort.Strings(hs)
		out.Key = fmt.Sprintf("bfs:%d:%v:%d:%s", c.Config, c.Alias, len(seen), strings.Join(hs, "|"))
	case "orders":
		perm := []int{0, 1, 2, 3, 4}
		n := 0
		var rec func(k int)
		rec = func(k int) {
			if k == len(perm) {
				h := []string{}
				for _, i := range perm {
					h = append(h, "P:"+Formats[i])
					run(h)
				}
				n++
				return
			}
			for i := k; i < len(perm); i++ {
				if len(out.Violations) > 0 && n > 0 {
					return
				}
				perm[k], perm[i] = perm[i], perm[k]
				rec(k + 1)
				perm[k], perm[i] = perm[i], perm[k]
			}
		}
		rec(0)
		out.Key = fmt.Sprintf("orders:%d:%d", c.Config, n)
	case "seq":
		var rec func(h []string)
		rec = func(h []string) {
			if len(h) > 0 {
				run(h)
			}
			if len(h) == c.Depth {
				return
			}
			for _, op := range ops {
				if len(out.Violations) > 0 && len(h) == 0 {
					return // decided; the remaining first operations add nothing
				}
				rec(append(append([]string{}, h...), op))
			}
		}
		rec(nil)
		out.Key = fmt.Sprintf("seq:%d:%d", c.Config, c.Depth)
	}
	return out
}

func opClass(op string) string {
	k, f, _ := strings.Cut(op, ":")
	return map[string]string{"V": "validate", "N": "name", "P": "package", "NP": "name+package"}[k] + "(" + f + ")"
}

// histClass abstracts a history to the set of operation kinds/formats it contains
// (keeps known-finding signatures stable while still naming what has to precede).
func histClass(h []string) string {
	if len(h) == 0 {
		return "nothing"
	}
	set := map[string]bool{}
	for _, op := range h {
		set[opClass(op)] = true
	}
	var l []string
	for k := range set {
		l = append(l, k)
	}
	sort.Strings(l)
	return strings.Join(l, "+")
}
