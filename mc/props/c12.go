package props

import (
	"context"
	"encoding/json"
	"fmt"
	"os"
	"os/exec"
	"path/filepath"
	"runtime"
	"strings"
	"time"

	"verif/mc/engine"
	"verif/mc/fixture"
	"verif/mc/model"
)

// C12Case is one concurrency scenario: the formats packaged by the threads,
// from one shared parsed configuration (S1) or from independently parsed ones (S2).
type C12Case struct {
	Config  int      `json:"config"`
	Config2 int      `json:"config2,omitempty"` // S3: the second thread's configuration
	Mode    string   `json:"mode"`              // S1 | S2 | S3
	Formats []string `json:"formats"`
	// CPUs > 0: the scenario is explored in a process that sees exactly this many processors (the case re-executes
	// itself under taskset): limits that code derives from runtime.NumCPU() become reachable with two threads
	CPUs int `json:"cpus,omitempty"`
}

// configOf returns the configuration index thread i packages from.
func (c C12Case) configOf(i int) int {
	if c.Mode == "S3" && i > 0 {
		return c.Config2
	}
	return c.Config
}

// sharingConfigs is the configuration alphabet chosen for what it shares
// between packagings (used by C11 and C12).
func sharingConfigs(env *engine.Env) []fixture.Doc {
	t := tree(env)
	mk := func(list []model.Entry, mod func(d fixture.Doc)) fixture.Doc {
		d := Setting{Name: "default"}.doc(list, t.Root)
		if mod != nil {
			mod(d)
		}
		return d
	}
	partial := []model.Entry{
		{Src: "etc/app.conf", Dst: "/etc/app.conf", HasInfo: true, Owner: "app"},
		{Dst: "/var/lib/app", Type: "dir", HasInfo: true, Group: "grp"},
		{Src: "/usr/bin/app", Dst: "/usr/bin/applink", Type: "symlink", HasInfo: true, Owner: "app"},
		{Dst: "/var/log/app.log", Type: "ghost", HasInfo: true, Owner: "app"},
	}
	plain := []model.Entry{{Src: "etc/app.conf", Dst: "/etc/app.conf", Type: "config"}, {Src: "bin/app", Dst: "/usr/bin/app"}}
	tagged := []model.Entry{{Src: "bin/app", Dst: "/usr/bin/app"}}
	for _, f := range Formats {
		tagged = append(tagged, model.Entry{Src: "etc/app.conf", Dst: "/etc/per-" + f + ".conf", Packager: f, HasInfo: true, Owner: "app"})
	}
	docs := []fixture.Doc{
		mk(plain, nil),
		mk(partial, nil),
		mk(partial, func(d fixture.Doc) {
			d["overrides"] = map[string]any{"deb": map[string]any{"umask": 0o077}, "rpm": map[string]any{"umask": 0o027}}
		}),
		mk(plain, func(d fixture.Doc) {
			d["deb"] = map[string]any{"signature": map[string]any{"key_id": "aaaa1111"}}
			d["overrides"] = map[string]any{"deb": map[string]any{"deb": map[string]any{"signature": map[string]any{"key_id": "bbbb2222"}}}, "rpm": map[string]any{"depends": []any{"x"}}}
		}),
		mk(plain, func(d fixture.Doc) {
			d["deb"] = map[string]any{"fields": map[string]any{"Bugs": "https://b", "X-Custom": "c"}}
			d["ipk"] = map[string]any{"fields": map[string]any{"Source": "s", "Version": "9.9", "depends": "sneaky"}}
		}),
		mk(plain, func(d fixture.Doc) { d["changelog"] = t.P("changelog.yaml") }),
		mk(tagged, func(d fixture.Doc) {
			d["overrides"] = map[string]any{"apk": map[string]any{"depends": []any{"only-apk"}}, "deb": map[string]any{"recommends": []any{"only-deb"}}}
		}),
		mk(plain, func(d fixture.Doc) { d["arch"] = "arm6"; d["release"] = ""; delete(d, "release") }),
		mk(plain, func(d fixture.Doc) { delete(d, "maintainer") }),
		mk([]model.Entry{{Src: "tree", Dst: "/opt/tree", Type: "tree", HasInfo: true, Owner: "app"}, {Src: "etc/conf.d/*.conf", Dst: "/etc/conf.d", HasInfo: true, Group: "grp"}}, nil),
		mk(partial, func(d fixture.Doc) {
			writeScripts(t, "deb", "normal")
			d["scripts"] = map[string]any{"preinstall": scriptPath(t, "normal", "scripts.preinstall"), "postremove": scriptPath(t, "normal", "scripts.postremove")}
			d["depends"] = []any{"a", "b"}
			d["provides"] = []any{"p"}
		}),
	}
	// every content type, with partial file_info (shared pointers) on each
	var alltypes []model.Entry
	for i, typ := range c08Types {
		e := c08Entry(typ, "", 100+i, false)
		e.HasInfo, e.Owner = true, "app"
		alltypes = append(alltypes, e)
	}
	docs = append(docs, mk(alltypes, nil))
	// relations carrying blanks and version constraints, every relation kind
	docs = append(docs, mk(plain, func(d fixture.Doc) {
		d["depends"] = []any{"foo >= 1.2", "bar", "baz  <  3"}
		d["provides"] = []any{"virt = 1.0"}
		d["replaces"] = []any{"old < 2"}
		d["conflicts"] = []any{"enemy >= 5"}
		d["recommends"] = []any{"nice >= 1"}
		d["suggests"] = []any{"maybe = 2"}
		d["deb"] = map[string]any{"breaks": []any{"brk < 1"}, "predepends": []any{"pre >= 1"}}
		d["ipk"] = map[string]any{"predepends": []any{"pre >= 1"}, "tags": []any{"t 1", "t 2"}}
		d["rpm"] = map[string]any{"buildhost": "buildhost.example", "prefixes": []any{"/usr", "/opt"}}
	}))
	// relation lists with equal neighbours; ipk fields that duplicate regular control fields (the packager strips them)
	docs = append(docs, mk(plain, func(d fixture.Doc) {
		d["depends"] = []any{"libfoo", "libfoo", "libbar", "libbar"}
		d["provides"] = []any{"virt", "virt"}
		d["conflicts"] = []any{"enemy", "enemy", "other"}
		d["replaces"] = []any{"old", "old"}
		d["ipk"] = map[string]any{"fields": map[string]any{"Maintainer": "someone else", "Package": "x", "Architecture": "y", "Custom": "kept"}}
		d["deb"] = map[string]any{"fields": map[string]any{"Maintainer": "dup", "Custom": "kept"}}
	}))
	// relations written the Debian way (every format gets the text as configured); an override key in mixed case
	docs = append(docs, mk(plain, func(d fixture.Doc) {
		d["depends"] = []any{"libc6 (>= 2.30)", "zlib1g (<< 2)", "plain"}
		d["conflicts"] = []any{"old-pkg (<< 1.0)"}
		d["provides"] = []any{"virt (= 1.0)", "virt2 (>= 2.0)", "virt3 (<< 3)"}
		d["rpm"] = map[string]any{"buildhost": "buildhost.example", "prefixes": []any{"/opt/demo/", "/srv//demo", "/usr/./local"}}
		d["overrides"] = map[string]any{"Deb": map[string]any{"depends": []any{"mixed-case-key"}}, "rpm": map[string]any{"suggests": []any{"s"}}}
	}))
	// a configuration that only ONE format cannot package (an rpm-only entry lies beneath a file): the failure of that
	// format must not reach the others
	docs = append(docs, mk([]model.Entry{{Src: "etc/app.conf", Dst: "/opt/thing"}, {Src: "etc/empty", Dst: "/opt/thing/below", Packager: "rpm"}, {Src: "bin/app", Dst: "/usr/bin/app"}}, nil))
	// a platform other than linux (deb, rpm and ipk take one)
	docs = append(docs, mk(plain, func(d fixture.Doc) { d["platform"] = "freebsd"; d["arch"] = "arm64" }))
	// relation lists far longer than a line (a meta package), every kind
	docs = append(docs, mk(plain, func(d fixture.Doc) {
		long := func(prefix string) []any {
			var l []any
			for i := 0; i < 70; i++ {
				if i%4 == 0 {
					l = append(l, fmt.Sprintf("%s-library-%03d (>= 1.%d)", prefix, i, i))
				} else {
					l = append(l, fmt.Sprintf("%s-library-%03d", prefix, i))
				}
			}
			return l
		}
		for _, k := range []string{"depends", "provides", "replaces", "conflicts", "recommends", "suggests"} {
			d[k] = long(k)
		}
		d["deb"] = map[string]any{"breaks": long("breaks"), "predepends": long("predepends")}
		d["ipk"] = map[string]any{"predepends": long("predepends")}
	}))
	// lists that lose items while the document is read (references that expand to nothing), next to versioned items and
	// names stated under several relations; trigger names stated under an awaiting and a no-await directive
	docs = append(docs, mk(plain, func(d fixture.Doc) {
		d["provides"] = []any{"virt (= 1.0)", "${NFPM_VERIF_UNSET}", "virt2 (>= 2)", "$NFPM_VERIF_UNSET", "pkg"}
		d["conflicts"] = []any{"virt", "${NFPM_VERIF_UNSET}", "virt2 (<< 1)", "other"}
		d["replaces"] = []any{"virt (<< 1.0)", "pkg"}
		d["depends"] = []any{"${NFPM_VERIF_UNSET}", "a (>= 1)", "b", "data-${NFPM_FORMAT}", "${NFPM_PACKAGER}-helper"}
		// debconf members (a packager may want to add what they need)
		writeScripts(t, "deb", "normal")
		d["recommends"] = []any{"$NFPM_VERIF_UNSET", "r1", "${NFPM_VERIF_UNSET}", "r2"}
		// references whose value holds dollar signs (data, not expanded a second time by anything that runs later)
		d["description"] = "A package that ${NFPM_VERIF_DOLLAR}."
		d["vendor"] = "${NFPM_VERIF_DOLLAR}"
		d["deb"] = map[string]any{"triggers": map[string]any{
			"interest": []any{"trig-a", "trig-shared", "trig-b"}, "interest_noawait": []any{"trig-shared"},
			"activate": []any{"trig-c", "trig-shared2", "trig-d"}, "activate_noawait": []any{"trig-shared2", "trig-c"},
			"interest_await": []any{"trig-shared", "trig-e"}, "activate_await": []any{"trig-d", "trig-f"}},
			"scripts": map[string]any{"templates": scriptPath(t, "normal", "deb.scripts.templates"), "config": scriptPath(t, "normal", "deb.scripts.config")}}
	}))
	// override blocks that state lists without items (`depends: []`) next to base lists with items, a block without
	// any setting (`rpm:` followed by nothing), a block with settings
	docs = append(docs, mk(plain, func(d fixture.Doc) {
		d["depends"] = []any{"libc6", "bash"}
		d["provides"] = []any{"virt"}
		d["conflicts"] = []any{"enemy (<< 2)", "other"}
		d["recommends"] = []any{"nice"}
		d["overrides"] = map[string]any{"rpm": map[string]any{"depends": []any{}, "provides": []any{}}, "deb": map[string]any{"recommends": []any{}, "conflicts": []any{}, "depends": []any{"only-deb"}}, "apk": nil, "ipk": map[string]any{}}
	}))
	// a changelog together with a content entry at the path of the changelog deb generates: deb refuses it, the
	// other formats ship the entry
	docs = append(docs, mk(append([]model.Entry{{Src: "doc/README", Dst: "/usr/share/doc/pkg/changelog.Debian.gz"}}, plain...), func(d fixture.Doc) { d["changelog"] = t.P("changelog.yaml") }))
	// relations with alternatives (a | b), ipk alternatives whose paths are not in clean form, rpm prefixes likewise
	docs = append(docs, mk(plain, func(d fixture.Doc) {
		// (names in mixed case, a versioned recommendation without any suggestion next to it)
		d["depends"] = []any{"mta | sendmail", "libfoo (>= 1.0) | libfoo-compat", "plain", "ImageMagick (>= 6.9)", "LibBar"}
		d["recommends"] = []any{"editor | vi", "nice (>= 1.0)", "Fine >= 2"}
		d["provides"] = []any{"virt-a | virt-b", "Virt-C"}
		d["conflicts"] = []any{"OldPkg (<< 2)"}
		d["replaces"] = []any{"OldPkg"}
		// (a package name with an underscore, a dot and a plus sign: nothing that runs rewrites the settings' name)
		d["name"] = "lib_my-tool.x+1"
		d["ipk"] = map[string]any{"alternatives": []any{map[string]any{"priority": 100, "target": "usr/bin/vi", "link_name": "/usr/bin//x"}, map[string]any{"priority": 50, "target": "/usr/./bin/app", "link_name": "bin/editor/"}}}
		d["rpm"] = map[string]any{"buildhost": "buildhost.example", "prefixes": []any{"usr//local", "/opt/./x/"}}
	}))
	// an override block that replaces the contents, its list holding entries addressed to single packagers
	docs = append(docs, mk(plain, func(d fixture.Doc) {
		oc := fixture.ContentsYAML(specs([]model.Entry{{Src: "bin/app", Dst: "/usr/bin/app"}, {Src: "etc/app.conf", Dst: "/etc/only-rpm.conf", Packager: "rpm", Type: "config"}, {Src: "etc/app.conf", Dst: "/etc/only-deb.conf", Packager: "deb", Type: "config"}, {Src: "etc/app.conf", Dst: "/etc/only-apk.conf", Packager: "apk"}, {Dst: "/var/lib/from-override", Type: "dir", HasInfo: true, Owner: "app"}}), t.Root)
		d["overrides"] = map[string]any{"deb": map[string]any{"contents": oc, "depends": []any{"from-the-block"}}}
	}))
	// an override block whose contents name a source that does not exist: that format cannot be packaged, the others
	// - whose contents are the general ones - can, whatever was validated or attempted before
	docs = append(docs, mk(plain, func(d fixture.Doc) {
		oc := fixture.ContentsYAML(specs([]model.Entry{{Src: "bin/app", Dst: "/usr/bin/app"}, {Src: "etc/app.conf", Dst: "/etc/from-override.conf", Type: "config"}}), t.Root)
		oc = append(oc, map[string]any{"src": t.P("no/such/source.conf"), "dst": "/etc/missing.conf"})
		d["overrides"] = map[string]any{"deb": map[string]any{"contents": oc}, "apk": map[string]any{"contents": oc}}
	}))
	// rpm-only entries and one file, all at the top of the tree (no parent directories are implied: the plan of a
	// format that drops the rpm-only kinds is shorter than the configured list)
	docs = append(docs, mk([]model.Entry{{Src: "doc/LICENSE", Dst: "/LICENSE", Type: "license"}, {Src: "doc/README", Dst: "/README", Type: "readme"}, {Src: "doc/manual.txt", Dst: "/manual.txt", Type: "doc"},
		{Dst: "/state.db", Type: "ghost"}, {Src: "doc/LICENSE", Dst: "/COPYING", Type: "licence"}, {Dst: "/cache.db", Type: "ghost"}, {Src: "bin/app", Dst: "/tool"}}, nil))
	// a version taken as written that starts with a v
	docs = append(docs, mk(plain, func(d fixture.Doc) { d["version"] = "v1.2"; d["version_schema"] = "none"; d["release"] = "3" }))
	// everything together
	all := mk(append(append([]model.Entry{}, partial...), tagged[1:]...), func(d fixture.Doc) {
		d["overrides"] = map[string]any{"deb": map[string]any{"umask": 0o077, "depends": []any{"only-deb"}}, "rpm": map[string]any{"rpm": map[string]any{"signature": map[string]any{"key_id": "cccc3333"}}}}
		d["deb"] = map[string]any{"fields": map[string]any{"Bugs": "b"}}
		d["ipk"] = map[string]any{"fields": map[string]any{"Version": "1"}}
		d["changelog"] = t.P("changelog.yaml")
		d["arch"] = "arm7"
	})
	return append(docs, all)
}

// c12Docs: the sharing configurations, followed by one with a payload of more than 32 MiB (c12Large is its index) -
// beyond every threshold at which a packager might change how it buffers; it is run for same-format pairs and one
// mixed pair only, under every schedule without preemptions.
func c12Docs(env *engine.Env) []fixture.Doc {
	t := tree(env)
	large := Setting{Name: "default"}.doc([]model.Entry{{Src: "huge", Dst: "/opt/huge", Type: "tree"}, {Src: "huge/noise.bin", Dst: "/opt/copy/noise.bin"}, {Src: "huge/zeros.bin", Dst: "/opt/copy/zeros.bin"}, {Src: "etc/app.conf", Dst: "/etc/app.conf", Type: "config"}}, t.Root)
	return append(sharingConfigs(env), large)
}

func c12Large(env *engine.Env) int { return len(sharingConfigs(env)) }

func init() {
	engine.Register(&engine.Prop{
		ID:    "C12",
		Level: "model_checking",
		Rule: "scenarios = sharing-oriented configurations x {S1: one parsed configuration, each thread obtains its own settings and packages a format (all 15 pairs incl. the same format twice; thorough: all 10 triples); S2: independently parsed configurations, any two formats incl. the same one twice (15 pairs)}; " +
			"for each scenario every schedule with at most 2 (thorough 3) preemptions is executed on the woven copy of the code under a cooperative scheduler whose switch points are the accesses to contended shared memory and the synchronisation operations; " +
			"per execution: happens-before race detection over every woven memory access, outputs byte-compared with the sequential baseline, no panic, no deadlock; the default schedule is replayed twice (determinism guard); " +
			"plus a free-running pass of the same bodies on the unwoven code under Go's race detector; non-trivial = the threads performed shared accesses; distinct = distinct (scenario, set of outputs, races)",
		Assumptions: []string{
			"sequential consistency between woven accesses; goroutines inside pgzip/zstd are not under the scheduler (they share nothing with nfpm code and are joined before Package returns)",
			"writes performed by third-party code through pointers into shared memory are seen only by the free-running race-detector pass",
		},
		Setup:      setupTree,
		Decode:     decodeInto[C12Case],
		MaxWorkers: 16,
		Bounds: func(env *engine.Env) map[string]any {
			return map[string]any{"preemption_bound": map[string]int{"quick": 2, "thorough": 3}, "formats": Formats}
		},
		Enumerate: func(env *engine.Env, yield func(any) bool) {
			if env.Data["tree"] == nil {
				return
			}
			n := len(sharingConfigs(env))
			for ci := 0; ci < n; ci++ {
				for i, a := range Formats {
					// incl. the same format twice: each thread obtains its own settings from the one parsed configuration
					for _, b := range Formats[i:] {
						if !yield(C12Case{Config: ci, Mode: "S1", Formats: []string{a, b}}) {
							return
						}
					}
				}
			}
			for ci := 0; ci < n; ci++ {
				for i, a := range Formats {
					for _, b := range Formats[i:] {
						if !yield(C12Case{Config: ci, Mode: "S2", Formats: []string{a, b}}) {
							return
						}
					}
				}
			}
			// S3: two DIFFERENT configurations packaged at the same time, same and different formats
			for _, pr := range [][2]int{{0, 9}, {1, 11}, {5, 9}, {9, 0}, {4, 6}} {
				for i, a := range Formats {
					for _, b := range Formats[i:] {
						if a != b && pr[0] != 0 {
							continue
						}
						if !yield(C12Case{Config: pr[0], Config2: pr[1], Mode: "S3", Formats: []string{a, b}}) {
							return
						}
					}
				}
			}
			{
				for ci := 0; ci < n; ci++ {
					if !env.Thorough() && ci != 1 && ci != 11 && ci != n-1 {
						continue // quick: three configurations (partial file_info, every content type, everything)
					}
					for i := range Formats {
						for j := i + 1; j < len(Formats); j++ {
							for k := j + 1; k < len(Formats); k++ {
								if !yield(C12Case{Config: ci, Mode: "S1", Formats: []string{Formats[i], Formats[j], Formats[k]}}) {
									return
								}
							}
						}
					}
				}
			}
			// the large configuration: two builds of the same format (same package name) at once, and one mixed pair
			for _, mode := range []string{"S1", "S2"} {
				for _, pr := range [][]string{{"apk", "apk"}, {"deb", "deb"}, {"rpm", "rpm"}, {"archlinux", "archlinux"}, {"ipk", "ipk"}, {"deb", "apk"}} {
					if !yield(C12Case{Config: c12Large(env), Mode: mode, Formats: pr}) {
						return
					}
				}
			}
			// S1v: as S1, each thread validating the shared configuration before it packages
			for ci, d := range sharingConfigs(env) {
				if _, hasOv := d["overrides"]; !env.Thorough() && ci != 1 && !hasOv {
					continue // quick: the configurations with override blocks (what Validate walks), and one without
				}
				for _, pr := range [][]string{{"deb", "rpm"}, {"rpm", "apk"}, {"archlinux", "ipk"}, {"deb", "deb"}} {
					if !yield(C12Case{Config: ci, Mode: "S1v", Formats: pr}) {
						return
					}
				}
			}
			// S4: two runs of the command-line tool's packaging function into one directory, from one configuration file
			for _, ci := range []int{0, 1, 5} {
				for i, a := range Formats {
					for _, b := range Formats[i+1:] {
						// (the same format twice would be two runs told to write the same file)
						if !yield(C12Case{Config: ci, Mode: "S4", Formats: []string{a, b}}) {
							return
						}
					}
				}
			}
			// the same-format pairs and one mixed pair of the changelog configuration in a process with two processors
			for _, mode := range []string{"S1", "S2"} {
				for _, pr := range [][]string{{"deb", "deb"}, {"rpm", "rpm"}, {"apk", "apk"}, {"archlinux", "archlinux"}, {"ipk", "ipk"}, {"deb", "rpm"}} {
					if !yield(C12Case{Config: 5, Mode: mode, Formats: pr, CPUs: 2}) {
						return
					}
				}
			}
			if !yield(C12Case{Mode: "racepass"}) {
				return
			}
		},
		Check: checkC12,
	})
}

// racePassResult is written by `mc racepass` (a -race build of the harness on the unwoven tree).
type racePassResult struct {
	Scenarios int      `json:"scenarios"`
	Runs      int      `json:"runs"`
	Races     int      `json:"races"`
	Diffs     []string `json:"diffs"`
	Reports   []string `json:"reports"`
	Error     string   `json:"error,omitempty"`
}

func checkC12(env *engine.Env, ci any) engine.Outcome {
	c := ci.(C12Case)
	var out engine.Outcome
	if c.Mode == "racepass" {
		// the free-running race-detector pass is run by ./check before this process
		p := os.Getenv("VERIF_RACEPASS")
		if p == "" {
			p = filepath.Join(env.Verif, "bin", "racepass-C12.json")
		}
		b, err := os.ReadFile(p)
		if err != nil {
			out.HarnessError = "free-running race-detector pass did not run: " + err.Error()
			return out
		}
		var r racePassResult
		if err := json.Unmarshal(b, &r); err != nil || r.Error != "" {
			out.HarnessError = "free-running race-detector pass failed: " + r.Error
			return out
		}
		out.Nontrivial = r.Runs > 0
		out.Transitions = r.Runs
		out.Counters = map[string]int{"racepass_scenarios": r.Scenarios, "racepass_runs": r.Runs, "racepass_race_reports": r.Races}
		out.Key = fmt.Sprintf("racepass:%d:%d", r.Scenarios, r.Races)
		for i, rep := range r.Reports {
			if i >= 3 {
				break
			}
			out.Violations = append(out.Violations, engine.Violation{Sig: "concurrency:race-detector:" + raceSite(rep), Detail: "Go's race detector on the free-running unwoven harness reports:\n" + rep})
		}
		for _, d := range r.Diffs {
			out.Violations = append(out.Violations, engine.Violation{Sig: "concurrency:free-running-output-differs", Detail: d})
		}
		return out
	}
	if !wovenAvailable {
		out.HarnessError = "C12 schedule exploration needs the woven build: " + wovenNote()
		return out
	}
	if c.CPUs > 0 && runtime.NumCPU() != c.CPUs {
		return reexecWithCPUs(env, c)
	}
	return checkC12Woven(env, c)
}

// raceSite extracts the first nfpm source location of a race report.
func raceSite(rep string) string {
	for _, l := range strings.Split(rep, "\n") {
		l = strings.TrimSpace(l)
		if i := strings.Index(l, "/repo/"); i >= 0 && strings.Contains(l, ".go:") {
			s := l[i+6:]
			if j := strings.IndexByte(s, ' '); j >= 0 {
				s = s[:j]
			}
			return s
		}
	}
	return "unknown"
}

// reexecWithCPUs runs one case in a child process bound to c.CPUs processors (`mc replay` of a case file) and turns
// what it prints back into an outcome. A child that cannot be started, crashes or exceeds the (generous) time limit
// is a harness error, never a violation.
func reexecWithCPUs(env *engine.Env, c C12Case) engine.Outcome {
	var out engine.Outcome
	ts, err := exec.LookPath("taskset")
	if err != nil {
		out.HarnessError = "taskset not found: scenarios bound to few processors cannot be run"
		return out
	}
	if runtime.NumCPU() < c.CPUs {
		out.HarnessError = fmt.Sprintf("this process sees %d processors, the case wants %d", runtime.NumCPU(), c.CPUs)
		return out
	}
	cj, _ := json.Marshal(c)
	rf, _ := json.Marshal(map[string]any{"property": "C12", "tier": env.Tier, "signature": "", "detail": "", "case": json.RawMessage(cj)})
	f, err := os.CreateTemp(env.Scratch, "c12-cpus-*.json")
	if err != nil {
		out.HarnessError = err.Error()
		return out
	}
	f.Write(rf)
	f.Close()
	defer os.Remove(f.Name())
	self, err := os.Executable()
	if err != nil {
		out.HarnessError = err.Error()
		return out
	}
	ctx, cancel := context.WithTimeout(context.Background(), 20*time.Minute)
	defer cancel()
	cmd := exec.CommandContext(ctx, ts, "-c", fmt.Sprintf("0-%d", c.CPUs-1), self, "replay", f.Name())
	cmd.Env = append(os.Environ(), "VERIF_SCRATCH="+env.Scratch)
	b, err := cmd.CombinedOutput()
	text := string(b)
	out.Key = fmt.Sprintf("cpus=%d:%s:%v:%d", c.CPUs, c.Mode, c.Formats, c.Config)
	blocks := strings.Split(text, "VIOLATION property=C12 replay=")
	if i := strings.Index(text, "HARNESS-ERROR"); i >= 0 {
		out.HarnessError = "child: " + strings.TrimSpace(text[i:])
		return out
	}
	if len(blocks) == 1 {
		if err != nil || !strings.Contains(text, "holds on this case") {
			out.HarnessError = fmt.Sprintf("child process bound to %d processors did not finish the case: %v: %s", c.CPUs, err, trunc(text, 600))
			return out
		}
		out.Nontrivial = true
		out.Transitions = 1
		return out
	}
	out.Nontrivial = true
	for _, blk := range blocks[1:] {
		sig, detail := "concurrency:child", blk
		if i := strings.Index(blk, "signature="); i >= 0 {
			rest := blk[i+len("signature="):]
			if j := strings.IndexByte(rest, '\n'); j >= 0 {
				sig, detail = rest[:j], rest[j+1:]
			}
		}
		out.Violations = append(out.Violations, engine.Violation{Sig: strings.TrimSpace(sig) + ":cpus=" + fmt.Sprint(c.CPUs), Detail: fmt.Sprintf("in a process bound to %d processors:\n%s", c.CPUs, detail)})
	}
	return out
}
