//go:build !verif

package props

import "verif/mc/engine"

func checkC12Woven(env *engine.Env, c C12Case) engine.Outcome {
	return engine.Outcome{HarnessError: "not built with the woven copy"}
}
