//go:build verif

package props

import (
	"bytes"
	"crypto/sha256"
	"encoding/hex"
	"fmt"
	"io"
	"os"
	"path/filepath"
	"runtime"
	"sort"
	"strings"

	"verif/mc/engine"

	"github.com/goreleaser/nfpm/v2"
	"github.com/goreleaser/nfpm/v2/deprecation"
	"github.com/goreleaser/nfpm/v2/vrt"
	"github.com/goreleaser/nfpm/v2/vrtcmd"
)

func buildHash(cfg *nfpm.Config, f string) string {
	b, _, err := packageFrom(cfg, f)
	if err != nil {
		return "ERR " + err.Error()
	}
	s := sha256.Sum256(b)
	return hex.EncodeToString(s[:8])
}

func canonEvents(es []vrt.Event) string {
	var b strings.Builder
	for _, e := range es {
		fmt.Fprintf(&b, "%d:%d:%d:%d:%v;", e.T, e.Region, e.Off, e.Size, e.Write)
	}
	return b.String()
}

func checkC12Woven(env *engine.Env, c C12Case) engine.Outcome {
	var out engine.Outcome
	deprecation.Noticer = io.Discard
	// one P: goroutines handed the baton share the per-P caches of sync.Pool, as
	// goroutines multiplexed on one processor do
	runtime.GOMAXPROCS(1)
	docs := c12Docs(env)
	text := docs[c.Config].YAML()
	textOf := func(i int) string { return docs[c.configOf(i)].YAML() }
	viol := func(sig, format string, a ...any) {
		out.Violations = append(out.Violations, engine.Violation{Sig: sig,
			Detail: fmt.Sprintf("config #%d (second thread: #%d) mode=%s formats=%v\n", c.Config, c.configOf(1), c.Mode, c.Formats) + fmt.Sprintf(format, a...) + "\nconfig:\n" + text})
	}
	if c.Mode == "S4" {
		checkC12CLI(env, c, text, &out, viol)
		return out
	}
	// sequential baseline, each from a fresh parse
	base := make([]string, len(c.Formats))
	for i, f := range c.Formats {
		cfg, err := parseYAML(textOf(i), nil)
		if err != nil {
			out.HarnessError = "parse: " + err.Error()
			return out
		}
		base[i] = buildHash(&cfg, f)
	}
	bound := 2
	if env.Thorough() {
		bound = 3
	}
	if c.Config == c12Large(env) {
		bound = 0 // each execution packages 2 x 42 MiB
		if env.Thorough() {
			bound = 1
		}
	}
	vrt.ResetContended()
	outcomes := map[string]bool{}
	races := map[string]vrt.Race{}
	var maxShared, maxAll, schedPoints int
	var lastEvents string
	runOnce := func(prefix []int) []vrt.Point {
		n := len(c.Formats)
		cfgs := make([]*nfpm.Config, n)
		if c.Mode == "S1" || c.Mode == "S1v" {
			cfg, _ := parseYAML(text, nil)
			for i := range cfgs {
				cfgs[i] = &cfg
			}
		} else {
			for i := range cfgs {
				cfg, _ := parseYAML(textOf(i), nil)
				cfgs[i] = &cfg
			}
		}
		vrt.ShareReset()
		if c.Mode == "S1" || c.Mode == "S1v" {
			vrt.Share("config", cfgs[0])
		}
		vrt.ShareGlobals()
		res := make([]string, n)
		bodies := make([]func(), n)
		for i := range bodies {
			i := i
			bodies[i] = func() {
				if c.Mode == "S1v" {
					// packagers looked up the way a user may spell them (no such packager: an error, no side effect)
					_, _ = nfpm.Get(strings.ToUpper(c.Formats[i]))
					_, _ = nfpm.Get(" " + c.Formats[i])
					_ = cfgs[i].Validate()
				}
				res[i] = buildHash(cfgs[i], c.Formats[i])
			}
		}
		var r vrt.Result
		gcOff(func() { r = vrt.Run(prefix, bodies...) })
		out.Transitions++
		lastEvents = canonEvents(r.Events)
		if r.SharedReads+r.SharedWrites > maxShared {
			maxShared = r.SharedReads + r.SharedWrites
		}
		if r.AllAccesses > maxAll {
			maxAll = r.AllAccesses
		}
		for _, p := range r.Points {
			if p.Kind == "sched" {
				schedPoints++
			}
		}
		for _, rc := range r.Races {
			races[rc.Where+"|"+rc.First+"|"+rc.Second] = rc
		}
		if r.Deadlock {
			viol("concurrency:deadlock", "schedule %v ends with threads blocked forever", prefix)
		}
		for _, p := range r.Panics {
			viol("concurrency:panic", "schedule %v: a thread panicked: %v", prefix, p)
		}
		for i, f := range c.Formats {
			if res[i] != base[i] {
				viol("concurrency:output-differs:"+c.Mode+":"+f, "schedule %v: the %s package of thread %d built concurrently (%s) differs from the one built sequentially (%s)", prefix, f, i, res[i], base[i])
			}
		}
		outcomes[strings.Join(res, "/")] = true
		return r.Points
	}
	// learn the contended set on the default schedule until it is stable
	for i := 0; i < 6; i++ {
		runOnce(nil)
		if !vrt.NewContended() {
			break
		}
	}
	// determinism guard: the default schedule twice
	runOnce(nil)
	e1 := lastEvents
	runOnce(nil)
	if e1 != lastEvents {
		out.HarnessError = "the same schedule produced two different access sequences (uncaptured nondeterminism)"
		return out
	}
	// a scenario that already shows a race is decided: only a short exploration follows
	// (to see whether outputs diverge as well); otherwise the full bound is explored
	maxExecs := 400
	if env.Thorough() {
		maxExecs = 60000
	}
	if len(races) > 0 {
		maxExecs = 40
	}
	var st exploreStats
	for restart := 0; restart < 5; restart++ {
		again := false
		st = explore(bound, maxExecs, func(prefix []int) []vrt.Point {
			pts := runOnce(prefix)
			if vrt.NewContended() {
				again = true
			}
			return pts
		})
		if !again {
			break
		}
	}
	if st.Capped && len(races) == 0 {
		out.Counters = map[string]int{"scenarios_capped": 1}
	}
	var rk []string
	for k := range races {
		rk = append(rk, k)
	}
	sort.Strings(rk)
	for _, k := range rk {
		rc := races[k]
		cls := "registered"
		if !rc.Registered {
			cls = "unregistered"
		}
		viol("concurrency:race:"+c.Mode+":"+cls+":"+raceWhere(rc), "unsynchronised conflicting accesses to %s: %s / %s", rc.Where, rc.First, rc.Second)
	}
	if out.Counters == nil {
		out.Counters = map[string]int{}
	}
	out.Counters["schedules"] += st.Execs
	out.Counters["sched_points"] += schedPoints
	out.Counters["contended_words"] += vrt.NContended()
	out.Counters["max_shared_accesses_per_exec"] = maxShared
	out.States = len(outcomes)
	out.Nontrivial = maxShared > 0
	var ok []string
	for o := range outcomes {
		ok = append(ok, o)
	}
	sort.Strings(ok)
	out.Key = fmt.Sprintf("%d:%d:%s:%v:%s:races=%d", c.Config, c.Config2, c.Mode, c.Formats, strings.Join(ok, ","), len(races))
	return out
}

// raceWhere names the two code sites of a race (stable across runs).
func raceWhere(r vrt.Race) string {
	site := func(s string) string {
		if i := strings.LastIndex(s, " at "); i >= 0 {
			return s[i+4:]
		}
		return s
	}
	a, b := site(r.First), site(r.Second)
	if a > b {
		a, b = b, a
	}
	return a + "~" + b
}

var _ = bytes.Equal

// checkC12CLI: two runs of the command-line tool's packaging function at once - same configuration file, same target
// directory, two formats (or the same one twice): every schedule within the bound, switch points at the file-system
// writes and the contended memory; each run leaves exactly the file a run on its own leaves.
func checkC12CLI(env *engine.Env, c C12Case, text string, out *engine.Outcome, viol func(sig, format string, a ...any)) {
	if !vrtcmd.Available {
		out.HarnessError = "internal/cmd.doPackage was not found in its known form: the command-line scenario cannot be driven"
		return
	}
	work, err := os.MkdirTemp(env.Scratch, "c12cli-")
	if err != nil {
		out.HarnessError = err.Error()
		return
	}
	defer os.RemoveAll(work)
	cfgPath := filepath.Join(work, "nfpm.yaml")
	os.WriteFile(cfgPath, []byte(text), 0o644)
	// the command prints progress lines: keep them off the harness's own output
	devnull, _ := os.OpenFile(os.DevNull, os.O_WRONLY, 0)
	oldStdout := os.Stdout
	if devnull != nil {
		os.Stdout = devnull
		defer func() { os.Stdout = oldStdout; devnull.Close() }()
	}
	dirHash := func(dir string) string {
		entries, _ := os.ReadDir(dir)
		var l []string
		for _, e := range entries {
			b, _ := os.ReadFile(filepath.Join(dir, e.Name()))
			s := sha256.Sum256(b)
			l = append(l, e.Name()+"="+hex.EncodeToString(s[:8]))
		}
		sort.Strings(l)
		return strings.Join(l, ",")
	}
	// each run alone, into its own directory
	var alone []string
	for i, f := range c.Formats {
		d := filepath.Join(work, fmt.Sprintf("alone-%d", i))
		os.Mkdir(d, 0o755)
		if err := vrtcmd.DoPackage(cfgPath, d, f); err != nil {
			alone = append(alone, "ERR "+err.Error())
		} else {
			alone = append(alone, dirHash(d))
		}
	}
	want := map[string]bool{}
	for _, a := range alone {
		for _, kv := range strings.Split(a, ",") {
			want[kv] = true
		}
	}
	bound := 2
	if env.Thorough() {
		bound = 3
	}
	vrt.ResetContended()
	races := map[string]vrt.Race{}
	outcomes := map[string]bool{}
	n := 0
	runOnce := func(prefix []int) []vrt.Point {
		n++
		dir := filepath.Join(work, fmt.Sprintf("both-%d", n))
		os.Mkdir(dir, 0o755)
		defer os.RemoveAll(dir)
		errs := make([]error, len(c.Formats))
		bodies := make([]func(), len(c.Formats))
		for i := range bodies {
			i := i
			bodies[i] = func() { errs[i] = vrtcmd.DoPackage(cfgPath, dir, c.Formats[i]) }
		}
		vrt.ShareReset()
		vrt.ShareGlobals()
		var r vrt.Result
		cwdBefore, _ := os.Getwd()
		gcOff(func() { r = vrt.Run(prefix, bodies...) })
		out.Transitions++
		if cwdAfter, _ := os.Getwd(); cwdAfter != cwdBefore {
			viol("concurrency:working-directory-changed:S4", "schedule %v: the process's working directory is %q after the two runs, it was %q before (a process-wide setting other builds resolve their relative paths against)", prefix, cwdAfter, cwdBefore)
			os.Chdir(cwdBefore)
		}
		for _, rc := range r.Races {
			races[rc.Where+"|"+rc.First+"|"+rc.Second] = rc
		}
		if r.Deadlock {
			viol("concurrency:deadlock", "schedule %v ends with threads blocked forever", prefix)
		}
		for _, p := range r.Panics {
			viol("concurrency:panic", "schedule %v: a run panicked: %v", prefix, p)
		}
		for i, e := range errs {
			if (e != nil) != strings.HasPrefix(alone[i], "ERR ") {
				viol("concurrency:cli:result-differs:"+c.Formats[i], "schedule %v: run %d (-p %s) returned %v next to the other run, %q on its own", prefix, i, c.Formats[i], e, alone[i])
			}
		}
		got := dirHash(dir)
		outcomes[got] = true
		gm := map[string]bool{}
		for _, kv := range strings.Split(got, ",") {
			gm[kv] = true
		}
		for kv := range want {
			if kv != "" && !strings.HasPrefix(kv, "ERR ") && !gm[kv] {
				viol("concurrency:cli:output-differs", "schedule %v: two runs into one directory leave %q; on their own the runs leave %v", prefix, got, alone)
				break
			}
		}
		for kv := range gm {
			if kv != "" && !want[kv] {
				viol("concurrency:cli:output-differs", "schedule %v: two runs into one directory leave %q; on their own the runs leave %v", prefix, got, alone)
				break
			}
		}
		return r.Points
	}
	for i := 0; i < 4; i++ {
		runOnce(nil)
		if !vrt.NewContended() {
			break
		}
	}
	maxExecs := 200
	if env.Thorough() {
		maxExecs = 5000
	}
	st := explore(bound, maxExecs, runOnce)
	if st.Capped {
		out.Counters = map[string]int{"scenarios_capped": 1}
	}
	var rk []string
	for k := range races {
		rk = append(rk, k)
	}
	sort.Strings(rk)
	for _, k := range rk {
		rc := races[k]
		viol("concurrency:race:S4:"+raceWhere(rc), "unsynchronised conflicting accesses to %s: %s / %s", rc.Where, rc.First, rc.Second)
	}
	if out.Counters == nil {
		out.Counters = map[string]int{}
	}
	out.Counters["schedules"] += st.Execs
	out.States = len(outcomes)
	out.Nontrivial = true
	out.Key = fmt.Sprintf("%d:S4:%v:%d:races=%d", c.Config, c.Formats, len(outcomes), len(races))
}
