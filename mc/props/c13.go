package props

import (
	"bytes"
	"fmt"
	"os"
	"os/exec"
	"path/filepath"
	"reflect"
	"sort"
	"strings"
	"time"

	"verif/mc/engine"
	"verif/mc/fixture"
	"verif/mc/model"
	"verif/mc/pkgread"

	"github.com/goreleaser/nfpm/v2"
)

// C13Case: one overridable leaf (or pair) set in the base and in the override
// block of format Key; Get is asked for Key first and then for every format.
type C13Case struct {
	Part   string     `json:"part"`
	Key    string     `json:"override_key"`
	Leaves [][]string `json:"leaves,omitempty"`
	Kinds  []string   `json:"kinds,omitempty"`
	Empty  bool       `json:"override_empty,omitempty"` // the override block sets the leaf to its empty value
	First  string     `json:"first_get,omitempty"`      // format asked for first (history of length 2)
	Second string     `json:"second_get,omitempty"`     // format asked for second (history of length 3)
	Key2   string     `json:"override_key2,omitempty"`  // a second override block setting the same leaves to other values
	All    bool       `json:"all_blocks,omitempty"`     // every other format has an override block with other values
	// BaseUnset: the base settings leave the leaves unset, only the override block sets them
	BaseUnset bool `json:"base_unset,omitempty"`
	// Bystanders: the base settings set EVERY overridable leaf; the override block sets only the leaves of the case
	Bystanders bool `json:"bystanders,omitempty"`
	// Null: the override block of Key is written without any setting ("deb:" followed by nothing - YAML null)
	Null bool `json:"null_block,omitempty"`
	// PerPackager (validate): the contents address one destination to each format (another source each), and a file
	// for one format where another format has a directory of files
	PerPackager bool `json:"per_packager_contents,omitempty"`
}

func overridableShape() []cfgLeaf {
	var leaves []cfgLeaf
	var levels []cfgLevel
	walkConfigType(reflect.TypeOf(nfpm.Overridables{}), nil, &leaves, &levels, 0)
	var out []cfgLeaf
	seenContents := false
	for _, l := range leaves {
		if l.Kind == "other" {
			continue
		}
		if l.Path[0] == "contents" {
			// the content list is one overridable value (lists are replaced wholesale)
			if !seenContents {
				seenContents = true
				out = append(out, cfgLeaf{Path: []string{"contents"}, Kind: "contents"})
			}
			continue
		}
		if i := indexOf(l.Path, "[]"); i >= 0 {
			// any other list of blocks likewise
			lp := cfgLeaf{Path: l.Path[:i], Kind: "blocklist"}
			if len(out) == 0 || out[len(out)-1].String() != lp.String() {
				out = append(out, lp)
			}
			continue
		}
		out = append(out, l)
	}
	return out
}

var c13T1 = time.Date(2003, 3, 3, 3, 3, 3, 0, time.UTC)
var c13T2 = time.Date(2004, 4, 4, 4, 4, 4, 0, time.UTC)
var c13T3 = time.Date(2005, 5, 5, 5, 5, 5, 0, time.UTC)

// c13Value gives the base / override / merged values for a leaf kind.
func c13Value(l cfgLeaf, which string) any {
	name := strings.ReplaceAll(pathKey(l.Path), ".", "_")
	last := l.Path[len(l.Path)-1]
	switch l.Kind {
	case "string", "strptr":
		if last == "key_id" {
			return map[string]string{"base": "aaaa1111", "over": "bbbb2222", "over2": "cccc3333", "empty": ""}[which]
		}
		return map[string]string{"base": "base-" + name, "over": "over-" + name, "over2": "second-" + name, "empty": ""}[which]
	case "strlist":
		return map[string][]any{"base": {"b1-" + name, "b2-" + name}, "over": {"o1-" + name}, "over2": {"p1-" + name, "p2-" + name, "p3-" + name}, "empty": {}}[which]
	case "strmap":
		return map[string]map[string]any{"base": {"A": "base-a", "C": "base-c", "bugs": "base-bugs", "x-lower": "base-x"}, "over": {"A": "over-a", "B": "over-b", "bugs": "over-bugs"}, "over2": {"A": "second-a", "D": "second-d", "x-lower": "second-x"}, "empty": {}}[which]
	case "bool":
		return map[string]bool{"base": false, "over": true, "over2": true, "empty": false}[which]
	case "int":
		return map[string]int{"base": 0o022, "over": 0o077, "over2": 0o027, "empty": 0}[which]
	case "time":
		return map[string]time.Time{"base": c13T1, "over": c13T2, "over2": c13T3, "empty": {}}[which]
	case "blocklist":
		alt := func(n string, prio int) map[string]any {
			return map[string]any{"priority": prio, "target": "/usr/bin/" + n, "link_name": "/usr/bin/link-" + n}
		}
		return map[string][]any{"base": {alt("base1", 1), alt("base2", 2)}, "over": {alt("over", 9)}, "over2": {alt("second1", 5), alt("second2", 6), alt("second3", 7)}, "empty": {}}[which]
	case "contents":
		entry := func(n string) []any {
			return []any{map[string]any{"src": "src-" + n, "dst": "/dst-" + n, "file_info": map[string]any{"owner": n, "mode": 0o640}}, map[string]any{"dst": "/dir-" + n, "type": "dir"},
				map[string]any{"src": "src-rpm-" + n, "dst": "/rpm-" + n, "packager": "rpm"}, map[string]any{"src": "src-deb-" + n, "dst": "/deb-" + n, "packager": "deb"},
				map[string]any{"src": "src-apk-" + n, "dst": "/apk-" + n, "packager": "apk", "type": "config"}}
		}
		return map[string][]any{"base": entry("base"), "over": entry("over")[:1], "over2": append(entry("second"), entry("third")...), "empty": {}}[which]
	}
	return nil
}

// mergedValue is what the effective setting must be when the override applies.
// which names the override block's value ("over", "over2", "empty"); baseUnset says the base settings leave the leaf unset
// (nil result = the leaf stays unset).
func mergedValue(l cfgLeaf, which string, baseUnset bool) any {
	if which == "empty" {
		if baseUnset {
			return nil
		}
		return c13Value(l, "base")
	}
	if l.Kind == "strmap" && !baseUnset {
		m := map[string]any{}
		for k, v := range c13Value(l, "base").(map[string]any) {
			m[k] = v
		}
		for k, v := range c13Value(l, which).(map[string]any) {
			m[k] = v
		}
		return m
	}
	return c13Value(l, which)
}

func init() {
	engine.Register(&engine.Prop{
		ID:    "C13",
		Level: "model_checking",
		Rule: "leaf: every leaf field of Overridables (enumerated by reflection from the tree under test, incl. nested rpm/deb/apk/archlinux/ipk blocks, contents[] fields) x every registered format as override key x {non-empty, empty override value}; Get(key) is asked first, then Get(f) for all five formats; " +
			"each result must deep-equal the effective settings of a freshly parsed configuration in which exactly that field was replaced (differential oracle, no hand-written expectations); the same with the base settings leaving the leaf unset, and with an override block (other values) for every other format at once; " +
			"thorough: ALL pairs of leaves, two override blocks for the same leaf for every ordered pair of formats (other block's format asked first), base-unset variants, every history of two earlier Gets (25 per leaf and key); " +
			"order: every leaf x every other format asked first; validate: override keys in {registered, unregistered, wrong case} through Validate; contents: per-packager entries in base and override lists, all five packages built and inspected; non-trivial = override block present; distinct = distinct (leaf, key, asked format, outcome)",
		Assumptions: []string{"merge semantics per the statement: non-empty override values replace, lists wholesale, nested blocks and maps key by key, empty values ignored"},
		Setup:       setupTree,
		Decode:      decodeInto[C13Case],
		Bounds: func(env *engine.Env) map[string]any {
			return map[string]any{"overridable_leaves": len(overridableShape()), "formats": Formats}
		},
		Enumerate: func(env *engine.Env, yield func(any) bool) {
			leaves := overridableShape()
			for _, empty := range []bool{false, true} {
				for _, l := range leaves {
					for _, k := range Formats {
						if !yield(C13Case{Part: "leaf", Key: k, Leaves: [][]string{l.Path}, Kinds: []string{l.Kind}, Empty: empty, First: k}) {
							return
						}
					}
				}
			}
			// another format asked first
			for _, l := range leaves {
				for _, k := range Formats {
					for _, first := range Formats {
						if first == k {
							continue
						}
						if !yield(C13Case{Part: "order", Key: k, Leaves: [][]string{l.Path}, Kinds: []string{l.Kind}, First: first}) {
							return
						}
					}
				}
			}
			for _, k := range []string{"deb", "rpm", "apk", "ipk", "archlinux", "dpkg", "alpine", "pacman", "aaa", "zzz", "DEB", "Rpm", "rpm ", "debian", "arch", "linux", "pk", "eb", "pm", "a", "deb,rpm", ",", "termux.deb", ".deb", "a.b.rpm", "deb.", "x/apk", "rpm:el9"} {
				if !yield(C13Case{Part: "validate", Key: k}) {
					return
				}
				// the same with an override block that sets nothing ({} and a bare key)
				if !yield(C13Case{Part: "validate", Key: k, Empty: true}) {
					return
				}
				if !yield(C13Case{Part: "validate", Key: k, Null: true}) {
					return
				}
			}
			for _, k := range Formats {
				if !yield(C13Case{Part: "validate", Key: k, PerPackager: true}) {
					return
				}
			}
			// several override blocks at once: one unregistered name next to registered ones, wherever it sorts
			for _, bad := range []string{"aaa", "dpkg", "nosuchformat", "zzz", "DEB", "rpm "} {
				for _, good := range Formats {
					if !yield(C13Case{Part: "validate", Key: bad, Key2: good}) {
						return
					}
				}
				if !yield(C13Case{Part: "validate", Key: bad, All: true}) {
					return
				}
			}
			// through the command line: the override block of the format that is packaged is applied however the packager
			// was chosen (-p, or inferred from the target's extension)
			for _, k := range Formats {
				for _, how := range []string{"-p", "extension", "conventional-extension", "-p-uppercase", "extension-uppercase"} {
					if !yield(C13Case{Part: "cli", Key: k, First: how}) {
						return
					}
				}
			}
			// anchors and aliases: a list item that is an alias of an earlier entry, a list that is an alias of another list
			for _, k := range Formats {
				if !yield(C13Case{Part: "alias", Key: k}) {
					return
				}
			}
			// a document of more than a megabyte (thorough: five) whose override blocks come last
			for _, k := range Formats {
				if !yield(C13Case{Part: "large", Key: k}) {
					return
				}
				if env.Thorough() {
					if !yield(C13Case{Part: "large", Key: k, All: true}) {
						return
					}
				}
			}
			for _, k := range Formats {
				if !yield(C13Case{Part: "umask", Key: k}) {
					return
				}
				// override umasks that lack bits of the base umask (the override's value is the format's umask, not a union)
				for _, pair := range []string{"027:022", "002:020", "077:007"} {
					if !yield(C13Case{Part: "umask", Key: k, Key2: pair}) {
						return
					}
				}
			}
			for _, k := range Formats {
				if !yield(C13Case{Part: "contents", Key: k}) {
					return
				}
				// the override block sets something else: every format gets the base list's entries for it
				if !yield(C13Case{Part: "contents", Key: k, Empty: true}) {
					return
				}
				for _, k2 := range Formats {
					if k2 != k {
						if !yield(C13Case{Part: "contents", Key: k, Key2: k2}) {
							return
						}
					}
				}
			}
			// the base settings leave the leaf unset; two override blocks for the same leaf; a block for every format
			for _, l := range leaves {
				for _, k := range Formats {
					// every other overridable setting is set in the base settings and must come through untouched
					if !yield(C13Case{Part: "leaf", Key: k, Leaves: [][]string{l.Path}, Kinds: []string{l.Kind}, First: k, Bystanders: true}) {
						return
					}
					if !yield(C13Case{Part: "leaf", Key: k, Leaves: [][]string{l.Path}, Kinds: []string{l.Kind}, First: k, Null: true}) {
						return
					}
					if !yield(C13Case{Part: "blocks", Key: k, Leaves: [][]string{l.Path}, Kinds: []string{l.Kind}, First: k, All: true, Null: true}) {
						return
					}
					if !yield(C13Case{Part: "leaf", Key: k, Leaves: [][]string{l.Path}, Kinds: []string{l.Kind}, First: k, BaseUnset: true}) {
						return
					}
					if !yield(C13Case{Part: "blocks", Key: k, Leaves: [][]string{l.Path}, Kinds: []string{l.Kind}, First: k, All: true}) {
						return
					}
					if env.Thorough() {
						for _, k2 := range Formats {
							if k2 == k {
								continue
							}
							for _, bu := range []bool{false, true} {
								// the other block's format asked first, then the own format
								if !yield(C13Case{Part: "blocks", Key: k, Key2: k2, Leaves: [][]string{l.Path}, Kinds: []string{l.Kind}, First: k2, Second: k, BaseUnset: bu}) {
									return
								}
							}
						}
						if !yield(C13Case{Part: "blocks", Key: k, Leaves: [][]string{l.Path}, Kinds: []string{l.Kind}, First: k, All: true, BaseUnset: true}) {
							return
						}
						if !yield(C13Case{Part: "leaf", Key: k, Leaves: [][]string{l.Path}, Kinds: []string{l.Kind}, First: k, BaseUnset: true, Empty: true}) {
							return
						}
						// every history of two earlier Gets
						for _, first := range Formats {
							for _, second := range Formats {
								if !yield(C13Case{Part: "order", Key: k, Leaves: [][]string{l.Path}, Kinds: []string{l.Kind}, First: first, Second: second}) {
									return
								}
							}
						}
					}
				}
			}
			if env.Thorough() {
				for i, a := range leaves {
					for _, b := range leaves[i+1:] {
						for _, k := range Formats {
							if !yield(C13Case{Part: "pair", Key: k, Leaves: [][]string{a.Path, b.Path}, Kinds: []string{a.Kind, b.Kind}, First: k}) {
								return
							}
							if a.Path[0] == b.Path[0] {
								if !yield(C13Case{Part: "pair", Key: k, Leaves: [][]string{a.Path, b.Path}, Kinds: []string{a.Kind, b.Kind}, First: k, BaseUnset: true}) {
									return
								}
							}
						}
					}
				}
			}
		},
		Check: checkC13,
	})
}

// safeGet is Config.Get with a panic turned into an error.
func safeGet(cfg *nfpm.Config, f string) (info *nfpm.Info, err error) {
	defer func() {
		if r := recover(); r != nil {
			err = fmt.Errorf("PANIC in Config.Get(%s): %v", f, r)
		}
	}()
	return cfg.Get(f)
}

// normInfoFor renders the effective settings for format f. Entries addressed to other packagers are left out on
// both sides: Get drops them only when the format has an override block, the packagers drop them in any case.
func normInfoFor(info *nfpm.Info, f string) string {
	cp := *info
	cp.Contents = nil
	for _, e := range info.Contents {
		if e != nil && (e.Packager == "" || e.Packager == f) {
			cp.Contents = append(cp.Contents, e)
		}
	}
	return normInfo(&cp)
}

// normInfo renders effective settings for comparison (funcs dropped, pointers followed).
func normInfo(info *nfpm.Info) string {
	var b strings.Builder
	dumpValue(&b, reflect.ValueOf(info).Elem(), 0)
	return b.String()
}

func dumpValue(b *strings.Builder, v reflect.Value, depth int) {
	ind := strings.Repeat(" ", depth)
	switch v.Kind() {
	case reflect.Ptr, reflect.Interface:
		if v.IsNil() {
			b.WriteString("nil")
			return
		}
		b.WriteString("&")
		dumpValue(b, v.Elem(), depth)
	case reflect.Struct:
		if t, ok := v.Interface().(time.Time); ok {
			b.WriteString(t.UTC().Format(time.RFC3339Nano))
			return
		}
		b.WriteString("{\n")
		for i := 0; i < v.NumField(); i++ {
			f := v.Type().Field(i)
			if f.PkgPath != "" && !f.Anonymous {
				continue
			}
			if v.Field(i).Kind() == reflect.Func {
				continue
			}
			b.WriteString(ind + " " + f.Name + ": ")
			dumpValue(b, v.Field(i), depth+1)
			b.WriteString("\n")
		}
		b.WriteString(ind + "}")
	case reflect.Slice:
		// nil and empty are the same setting
		b.WriteString("[")
		for i := 0; i < v.Len(); i++ {
			if i > 0 {
				b.WriteString(", ")
			}
			dumpValue(b, v.Index(i), depth+1)
		}
		b.WriteString("]")
	case reflect.Map:
		var ks []string
		for _, k := range v.MapKeys() {
			ks = append(ks, k.String())
		}
		sort.Strings(ks)
		b.WriteString("map[")
		for _, k := range ks {
			b.WriteString(k + "=")
			dumpValue(b, v.MapIndex(reflect.ValueOf(k)), depth+1)
			b.WriteString(" ")
		}
		b.WriteString("]")
	default:
		fmt.Fprintf(b, "%v", v.Interface())
	}
}

// diffLines names the lines on which two dumps differ.
func diffLines(a, b string) string {
	la, lb := strings.Split(a, "\n"), strings.Split(b, "\n")
	var out []string
	for i := 0; i < len(la) || i < len(lb); i++ {
		x, y := "", ""
		if i < len(la) {
			x = la[i]
		}
		if i < len(lb) {
			y = lb[i]
		}
		if x != y {
			out = append(out, fmt.Sprintf("  got:  %s\n  want: %s", strings.TrimSpace(x), strings.TrimSpace(y)))
			if len(out) >= 6 {
				break
			}
		}
	}
	return strings.Join(out, "\n")
}

func checkC13(env *engine.Env, ci any) engine.Outcome {
	c := ci.(C13Case)
	t := tree(env)
	var out engine.Outcome
	out.Nontrivial = true
	viol := func(sig, format string, a ...any) {
		out.Violations = append(out.Violations, engine.Violation{Sig: sig, Detail: fmt.Sprintf(format, a...)})
	}
	base := map[string]any{"name": "pkg", "arch": "amd64", "version": "1.2.3", "maintainer": "M <m@example.com>", "mtime": PkgMTime}
	switch c.Part {
	case "leaf", "pair", "order", "blocks":
		var leaves []cfgLeaf
		for i, p := range c.Leaves {
			leaves = append(leaves, cfgLeaf{Path: p, Kind: c.Kinds[i]})
		}
		doc := deepCopyMap(base)
		blocks := map[string]string{c.Key: "over"} // format -> which value its override block sets
		if c.Empty {
			blocks[c.Key] = "empty"
		}
		if c.Key2 != "" {
			blocks[c.Key2] = "over2"
		}
		if c.All {
			for _, f := range Formats {
				if f != c.Key {
					blocks[f] = "over2"
				}
			}
		}
		if c.Bystanders {
			for _, l := range overridableShape() {
				if l.Kind == "contents" {
					continue // the content list needs sources that exist; it has its own part
				}
				if l.Kind == "bool" {
					// a switch the base settings turn on and no override block mentions stays on
					setDeep(doc, l.Path, true)
					continue
				}
				setDeep(doc, l.Path, c13Value(l, "base"))
			}
		}
		if !c.BaseUnset {
			for _, l := range leaves {
				setDeep(doc, l.Path, c13Value(l, "base"))
			}
		}
		overrides := map[string]any{}
		for f, which := range blocks {
			over := map[string]any{}
			for _, l := range leaves {
				setDeep(over, l.Path, c13Value(l, which))
			}
			overrides[f] = over
		}
		if c.Null {
			overrides[c.Key] = nil
			blocks[c.Key] = "empty"
		}
		withOver := deepCopyMap(doc)
		withOver["overrides"] = overrides
		text := fixture.Doc(withOver).YAML()
		cfg, err := parseYAML(text, nil)
		if err != nil {
			viol("merge:parse-error:"+pathKey(c.Leaves[0]), "generated document rejected: %v\n%s", err, text)
			return out
		}
		// reference: the same settings written out by hand, no override block
		expect := func(f string) (string, error) {
			d := deepCopyMap(doc)
			if which, ok := blocks[f]; ok {
				for _, l := range leaves {
					if v := mergedValue(l, which, c.BaseUnset); v != nil {
						setDeep(d, l.Path, v)
					}
				}
			}
			rc, err := parseYAML(fixture.Doc(d).YAML(), nil)
			if err != nil {
				return "", err
			}
			info, err := rc.Get(f)
			if err != nil {
				return "", err
			}
			return normInfoFor(info, f), nil
		}
		order := []string{c.First}
		if c.Second != "" {
			order = append(order, c.Second)
		}
		order = append(order, Formats...)
		var keyParts []string
		for i, f := range order {
			out.Transitions++
			info, err := safeGet(&cfg, f)
			if err != nil {
				viol("merge:get-error:"+f, "Get(%s) failed: %v\nconfig:\n%s", f, err, text)
				continue
			}
			want, err := expect(f)
			if err != nil {
				out.HarnessError = "reference document: " + err.Error()
				return out
			}
			got := normInfoFor(info, f)
			if got != want {
				role := "other-format"
				if f == c.Key {
					role = "own-format"
				}
				stage := "first-get"
				if _, ok := blocks[f]; ok && f != c.Key {
					role = "second-block-format"
				}
				if c.BaseUnset {
					role += ":base-unset"
				}
				if i > 0 {
					stage = "after-get-" + c.First
					if c.First == c.Key {
						stage = "after-get-of-override-format"
					} else {
						stage = "after-get-of-other-format"
					}
				}
				viol("merge:"+role+":"+stage+":"+pathKey(c.Leaves[0]), "override blocks %v set %v (base unset=%v); Get(%s) asked as #%d after %v differs from the settings written out by hand:\n%s\nconfig:\n%s",
					blocks, c.Leaves, c.BaseUnset, f, i+1, order[:i], diffLines(got, want), text)
			}
			keyParts = append(keyParts, f+"="+fmt.Sprint(hashString(got)))
		}
		out.Key = fmt.Sprintf("%s:%s:%v:%v:%v:%v:%v:%v:%s:%s:%s", c.Key, c.Key2, c.All, c.BaseUnset, c.Null, c.Bystanders, c.Leaves, c.Empty, c.First, c.Second, strings.Join(keyParts, ","))
	case "alias":
		t := tree(env)
		text := "name: pkg\narch: amd64\nversion: 1.2.3\nmaintainer: M <m@example.com>\n" +
			"depends: &deps\n- liba\n- libb (>= 2)\n" +
			"recommends: *deps\n" +
			"contents:\n- &conf\n  src: " + t.P("etc/app.conf") + "\n  dst: /etc/app.conf\n  type: config\n- &bin {src: " + t.P("bin/app") + ", dst: /usr/bin/app}\n" +
			"overrides:\n"
		for _, f := range Formats {
			text += "  " + f + ":\n    contents:\n    - *conf\n    - *bin\n    - src: " + t.P("etc/app.conf") + "\n      dst: /etc/only-" + f + ".conf\n    suggests: *deps\n"
		}
		cfg, err := parseYAML(text, nil)
		out.Transitions++
		out.Nontrivial = true
		out.Key = fmt.Sprintf("alias:%s:%v", c.Key, err != nil)
		if err != nil {
			viol("merge:alias-document-rejected", "a valid document that uses anchors and aliases is not parsed: %v\n%s", err, text)
			return out
		}
		info, gerr := safeGet(&cfg, c.Key)
		if gerr != nil {
			viol("merge:get-error:"+c.Key, "Get(%s) failed: %v", c.Key, gerr)
			return out
		}
		var dsts []string
		for _, e := range info.Contents {
			if e != nil {
				dsts = append(dsts, e.Destination+"|"+e.Type)
			}
		}
		wantD := fmt.Sprintf("[/etc/app.conf|config /usr/bin/app| /etc/only-%s.conf|]", c.Key)
		if fmt.Sprint(dsts) != wantD {
			viol("merge:alias:contents:"+c.Key, "override contents written as aliases of the base entries plus one entry: Get(%s) gives %v, want %s\n%s", c.Key, dsts, wantD, text)
		}
		if len(cfg.Contents) != 2 {
			viol("merge:alias:base-contents", "the base contents (two anchored entries) are read as %d entries", len(cfg.Contents))
		}
		wantL := "[liba libb (>= 2)]"
		if fmt.Sprint(info.Depends) != wantL || fmt.Sprint(info.Recommends) != wantL || fmt.Sprint(info.Suggests) != wantL {
			viol("merge:alias:lists:"+c.Key, "depends (anchored), recommends and overrides.%s.suggests (aliases of it): Get gives %v %v %v, want %s each", c.Key, info.Depends, info.Recommends, info.Suggests, wantL)
		}
	case "large":
		var b strings.Builder
		b.WriteString("name: pkg\narch: amd64\nversion: 1.2.3\nmaintainer: M <m@example.com>\ndepends:\n- base-dep\numask: 0o002\ncontents:\n")
		size := 1200 << 10
		if c.All {
			size = 5 << 20
		}
		n := 0
		for b.Len() < size {
			fmt.Fprintf(&b, "- dst: /srv/d/%07d\n  type: dir\n", n)
			n++
		}
		b.WriteString("overrides:\n")
		for _, f := range Formats {
			fmt.Fprintf(&b, "  %s:\n    depends:\n    - only-%s\n    umask: 0o027\n", f, f)
		}
		cfg, err := parseYAML(b.String(), nil)
		out.Transitions++
		out.Nontrivial = true
		out.Key = fmt.Sprintf("large:%s:%d:%v", c.Key, size, err != nil)
		if err != nil {
			viol("merge:large-document-rejected", "a valid document of %d bytes (override blocks last) is not parsed: %v", b.Len(), err)
			return out
		}
		info, gerr := safeGet(&cfg, c.Key)
		if gerr != nil {
			viol("merge:get-error:"+c.Key, "Get(%s) failed: %v", c.Key, gerr)
			return out
		}
		if len(info.Depends) != 1 || info.Depends[0] != "only-"+c.Key || info.Umask != 0o027 {
			viol("merge:large-document:override-lost:"+c.Key, "document of %d bytes with %d contents entries and the override blocks last: Get(%s) gives depends %v umask %o, want [only-%s] 27", b.Len(), n, c.Key, info.Depends, info.Umask, c.Key)
		}
		dirs := 0
		for _, e := range info.Contents {
			if e.Type == "dir" {
				dirs++
			}
		}
		if dirs != n {
			viol("merge:large-document:contents-lost:"+c.Key, "of %d contents entries Get(%s) gives %d", n, c.Key, dirs)
		}
	case "validate":
		doc := deepCopyMap(base)
		doc["overrides"] = map[string]any{c.Key: map[string]any{"depends": []any{"x"}}}
		if c.Empty {
			doc["overrides"] = map[string]any{c.Key: map[string]any{}}
		}
		if c.Null {
			doc["overrides"] = map[string]any{c.Key: nil}
		}
		if c.Key2 != "" {
			doc["overrides"].(map[string]any)[c.Key2] = map[string]any{"depends": []any{"y"}}
		}
		if c.All {
			for _, f := range Formats {
				doc["overrides"].(map[string]any)[f] = map[string]any{"depends": []any{"y-" + f}}
			}
		}
		if c.PerPackager {
			// every entry is for one format only: no two of them ever meet in a package
			tr := tree(env)
			var cs []any
			srcs := []string{"etc/app.conf", "etc/empty", "bin/app", "doc/README", "share/ww.txt"}
			for i, f := range Formats {
				cs = append(cs, map[string]any{"src": tr.P(srcs[i]), "dst": "/etc/app/settings.conf", "packager": f})
				if i%2 == 0 {
					cs = append(cs, map[string]any{"src": tr.P(srcs[i]), "dst": "/opt/app/plugin", "packager": f})
				} else {
					cs = append(cs, map[string]any{"src": tr.P(srcs[i]), "dst": "/opt/app/plugin/main.so", "packager": f})
				}
			}
			doc["contents"] = cs
		}
		text := fixture.Doc(doc).YAML()
		registered := false
		for _, f := range Formats {
			if f == c.Key {
				registered = true
			}
		}
		cfg, err := parseYAML(text, nil)
		if err != nil {
			out.Key = "validate:" + c.Key + ":parse-error"
			if registered || strings.HasPrefix(err.Error(), "PANIC") {
				viol("merge:parse-error:override-block:"+c.Key, "a document with an override block for %q (null block: %v, empty block: %v) is not parsed: %v\n%s", c.Key, c.Null, c.Empty, err, text)
			}
			return out
		}
		verr := cfg.Validate()
		if registered {
			if _, gerr := safeGet(&cfg, c.Key); gerr != nil {
				viol("merge:get-error:"+c.Key, "Get(%s) failed: %v\n%s", c.Key, gerr, text)
			}
		}
		out.Key = fmt.Sprintf("validate:%s:%s:%v:%v:%v:%v:%v", c.Key, c.Key2, c.All, c.Empty, c.Null, c.PerPackager, verr != nil)
		if registered && verr != nil {
			viol("merge:validate-rejects-registered:"+c.Key, "Validate rejects an override block for the registered format %q: %v", c.Key, verr)
		}
		if !registered && verr == nil {
			viol("merge:validate-accepts-unregistered", "Validate accepts an override block for %q, which has no registered packager", c.Key)
		}
	case "cli":
		bin, err := nfpmBinary(env)
		if err != nil {
			out.HarnessError = err.Error()
			return out
		}
		work, err := os.MkdirTemp(env.Scratch, "c13cli-")
		if err != nil {
			out.HarnessError = err.Error()
			return out
		}
		defer os.RemoveAll(work)
		doc := deepCopyMap(base)
		doc["depends"] = []any{"base-dep"}
		ov := map[string]any{}
		for _, f := range Formats {
			ov[f] = map[string]any{"depends": []any{"only-" + f}}
			if f != c.Key {
				// the other formats' blocks name scripts that exist on their build hosts only
				ov[f].(map[string]any)["scripts"] = map[string]any{"preinstall": filepath.Join(work, "only-on-the-"+f+"-build-host.sh"), "postremove": filepath.Join(work, "no", "such", "dir", "post.sh")}
			}
		}
		doc["overrides"] = ov
		// entries addressed to the OTHER packagers, their sources absent on this host: none of this format's business
		var foreign []any
		for _, f := range Formats {
			if f != c.Key {
				foreign = append(foreign, map[string]any{"src": filepath.Join(work, "only-on-the-"+f+"-build-host.conf"), "dst": "/etc/for-" + f + ".conf", "packager": f})
			}
		}
		doc["contents"] = foreign
		text := fixture.Doc(doc).YAML()
		os.WriteFile(filepath.Join(work, "nfpm.yaml"), []byte(text), 0o644)
		f := c.Key
		ext := extOf[f]
		args := []string{"package", "-f", "nfpm.yaml"}
		switch c.First {
		case "-p":
			args = append(args, "-p", f, "-t", "out"+ext)
		case "extension": // the spelling the packager name is inferred from
			args = append(args, "-t", "out."+f)
		case "conventional-extension":
			args = append(args, "-t", "out"+ext)
		case "-p-uppercase":
			args = append(args, "-p", strings.ToUpper(f), "-t", "out"+ext)
		case "extension-uppercase":
			args = append(args, "-t", "out."+strings.ToUpper(f))
		}
		target := args[len(args)-1]
		cmd := exec.Command(bin, args...)
		cmd.Dir = work
		o, rerr := cmd.CombinedOutput()
		out.Transitions++
		out.Key = fmt.Sprintf("cli:%s:%s:exit=%v", f, c.First, rerr != nil)
		if rerr != nil {
			// refusing (no packager can be inferred, unknown packager name) is fine; with the packager named by -p
			// nothing stands in the way: the entries addressed to other packagers are none of this run's business
			if c.First == "-p" {
				viol("merge:cli-fails:"+f, "nfpm %v failed: %v\n%s\nconfiguration:\n%s", args, rerr, o, text)
			}
			return out
		}
		b, err := os.ReadFile(filepath.Join(work, target))
		if err != nil {
			viol("merge:cli-no-output:"+c.First, "nfpm %v exited 0 but %s does not exist", args, target)
			return out
		}
		got := sniffFormat(b)
		pkg, derr := pkgread.Decode(got, b, env.Tools)
		if derr != nil {
			viol("merge:cli-undecodable:"+c.First, "nfpm %v wrote something that is not a %s package: %v", args, got, derr)
			return out
		}
		deps := strings.Join(pkgDepends(got, pkg), ",")
		if !strings.Contains(deps, "only-"+got) || strings.Contains(deps, "base-dep") {
			viol("merge:cli-override-not-applied:"+c.First, "nfpm %v wrote a %s package whose dependencies are %q; the override block for %s sets [only-%s]", args, got, deps, got, got)
		}
	case "umask":
		// an umask override applies to its own format only; all five packages are built in ONE process
		list := []model.Entry{{Src: "share/ww.txt", Dst: "/opt/ww.txt"}, {Src: "bin/app", Dst: "/usr/bin/app"}, {Src: "tree", Dst: "/opt/tree", Type: "tree"}}
		baseUm, overUm := int64(0o022), int64(0o077)
		if c.Key2 != "" {
			fmt.Sscanf(c.Key2, "%o:%o", &baseUm, &overUm)
		}
		d := Setting{Name: "default", Umask: os.FileMode(baseUm)}.doc(list, t.Root)
		d["overrides"] = map[string]any{c.Key: map[string]any{"umask": int(overUm)}}
		text := d.YAML()
		order := append([]string{c.Key}, Formats...)
		for _, f := range order {
			out.Transitions++
			data, err := buildYAML(text, f)
			if err != nil {
				viol("merge:umask-build-error:"+f, "packaging failed: %v", err)
				continue
			}
			pkg, err := pkgread.Decode(f, data, env.Tools)
			if err != nil {
				viol("merge:undecodable:"+f, "%v", err)
				continue
			}
			um := baseUm
			if f == c.Key {
				um = overUm
			}
			for _, e := range pkg.Entries {
				n := t.Get(map[string]string{"/opt/ww.txt": "share/ww.txt", "/usr/bin/app": "bin/app", "/opt/tree/x": "tree/x", "/opt/tree/sub/y": "tree/sub/y"}[e.Path])
				if n == nil || e.Kind != "file" {
					continue
				}
				want := int64(model.UnixMode(n.Mode)) &^ um
				if e.Mode != want {
					role := "other-format"
					if f == c.Key {
						role = "own-format"
					}
					viol("merge:umask:"+role, "umask override %#o for %s, base umask %#o: the %s package ships %s with mode %#o, expected %#o", overUm, c.Key, baseUm, f, e.Path, e.Mode, want)
				}
			}
		}
		out.Key = "umask:" + c.Key + ":" + c.Key2
	case "contents":
		// entries of every kind addressed to every packager (and to all), in the base list and in the override
		// list of Key; Empty: the override block of Key sets only a relation, Key2: a second block does too
		mk := func(prefix, src string) []model.Entry {
			var list []model.Entry
			for _, f := range append([]string{""}, Formats...) {
				n := f
				if n == "" {
					n = "all"
				}
				list = append(list, model.Entry{Src: src, Dst: prefix + n, Packager: f})
				list = append(list, model.Entry{Dst: prefix + "ghost-" + n, Packager: f, Type: "ghost"})
				list = append(list, model.Entry{Src: "doc/manual.txt", Dst: prefix + "doc-" + n, Packager: f, Type: "doc"})
				list = append(list, model.Entry{Src: src, Dst: prefix + "conf-" + n, Packager: f, Type: "config|noreplace"})
				list = append(list, model.Entry{Dst: prefix + "dir-" + n, Packager: f, Type: "dir"})
				list = append(list, model.Entry{Src: "/t", Dst: prefix + "link-" + n, Packager: f, Type: "symlink"})
			}
			return list
		}
		list, olist := mk("/opt/base-", "etc/app.conf"), mk("/opt/over-", "etc/empty")
		d := Setting{Name: "default"}.doc(list, t.Root)
		over := map[string]any{"contents": fixture.ContentsYAML(specs(olist), t.Root)}
		if c.Empty {
			over = map[string]any{"depends": []any{"only-" + c.Key}}
		}
		ov := map[string]any{c.Key: over}
		if c.Key2 != "" {
			ov[c.Key2] = map[string]any{"depends": []any{"only-" + c.Key2}}
		}
		d["overrides"] = ov
		text := d.YAML()
		var ks []string
		judge := func(f string, data []byte, err error, stage string) {
			out.Transitions++
			sfx := ""
			if stage != "" {
				sfx = ":" + stage
			}
			if err != nil {
				viol("merge:contents-build-error:"+f+sfx, "packaging failed (%s): %v", stage, err)
				return
			}
			pkg, err := pkgread.Decode(f, data, env.Tools)
			if err != nil {
				viol("merge:undecodable:"+f+sfx, "%v", err)
				return
			}
			prefix, which := "/opt/base-", "base"
			if f == c.Key && !c.Empty {
				prefix, which = "/opt/over-", "override"
			}
			want := map[string]bool{}
			for _, n := range []string{"all", f} {
				for _, k := range []string{"", "conf-", "dir-", "link-"} {
					want[prefix+k+n] = true
				}
				if f == "rpm" {
					want[prefix+"ghost-"+n], want[prefix+"doc-"+n] = true, true
				}
			}
			for _, e := range pkg.Entries {
				if e.Path == "/opt" || e.Path == "/" || e.Path == "" {
					continue
				}
				if !want[e.Path] {
					viol("merge:contents-foreign-entry:"+f+sfx, "override blocks %v (%s): the %s package ships %q; expected only the %s list's entries addressed to %s or to all", sortedAnyKeys(ov), stage, f, e.Path, which, f)
				}
				delete(want, e.Path)
				if stage == "" {
					ks = append(ks, f+":"+e.Path)
				}
			}
			for p := range want {
				viol("merge:contents-missing-entry:"+f+sfx, "override blocks %v (%s): the %s package lacks %q", sortedAnyKeys(ov), stage, f, p)
			}
		}
		for _, f := range Formats {
			data, err := buildYAML(text, f)
			judge(f, data, err, "")
		}
		// the same on ONE parsed configuration: the override format first, then every format (and again)
		if cfg, err := parseYAML(text, nil); err == nil {
			order := append(append([]string{c.Key}, Formats...), Formats...)
			for i, f := range order {
				data, _, err := packageFrom(&cfg, f)
				st := "one-config-first"
				if i > 0 {
					st = "one-config-later"
				}
				judge(f, data, err, st)
			}
		}
		// ONE effective-settings object handed to two packagers in turn (and prepared for "all" first): the second
		// package still holds only what is addressed to its own format
		if cfg, err := parseYAML(text, nil); err == nil {
			for _, pair := range [][2]string{{"deb", "rpm"}, {"rpm", "deb"}, {"apk", "ipk"}, {"archlinux", "apk"}, {"ipk", "archlinux"}} {
				if pair[0] == c.Key || pair[1] == c.Key {
					continue // keep the expectation simple: formats that get the base list
				}
				info, gerr := safeGet(&cfg, pair[0])
				if gerr != nil {
					continue
				}
				info = nfpm.WithDefaults(info)
				for i, f := range []string{pair[0], pair[1]} {
					p, _ := nfpm.Get(f)
					var buf bytes.Buffer
					func() {
						defer func() {
							if r := recover(); r != nil {
								err = fmt.Errorf("PANIC: %v", r)
							}
						}()
						err = p.Package(info, &buf)
					}()
					if i == 1 {
						if err != nil {
							// a second packager may refuse settings another one has prepared; it must not ship foreign entries
							continue
						}
						// (its own packager-specific entries are gone by then - the first packager narrowed the list -
						// which is the price of handing one object round; what must not happen is a foreign entry)
						if pkg, derr := pkgread.Decode(f, buf.Bytes(), env.Tools); derr == nil {
							out.Transitions++
							for _, e := range pkg.Entries {
								for _, g := range Formats {
									if g != f && strings.HasSuffix(e.Path, "-"+g) && strings.HasPrefix(e.Path, "/opt/") {
										viol("merge:contents-foreign-entry:"+f+":same-settings-after-"+pair[0], "one effective-settings object packaged as %s and then as %s: the %s package ships %q, which is addressed to %s", pair[0], f, f, e.Path, g)
									}
								}
							}
						}
					}
				}
			}
		}
		out.Key = fmt.Sprintf("contents:%s:%v:%s:%s", c.Key, c.Empty, c.Key2, strings.Join(ks, ","))
	}
	return out
}

// pkgDepends reads the dependency list of a decoded package.
func pkgDepends(f string, pkg *pkgread.Pkg) []string {
	var out []string
	key := map[string]string{"deb": "Depends", "ipk": "Depends", "apk": "depend", "archlinux": "depend"}[f]
	if f == "rpm" {
		if pkg.RPM != nil && pkg.RPM.Hdr != nil {
			return pkg.RPM.Hdr.Strs(1049)
		}
		return nil
	}
	for _, kv := range pkg.Fields {
		if kv.K == key {
			out = append(out, kv.V)
		}
	}
	return out
}

func sortedAnyKeys(m map[string]any) []string {
	var ks []string
	for k := range m {
		ks = append(ks, k)
	}
	sort.Strings(ks)
	return ks
}

func sortedBoolKeys(m map[string]bool) []string {
	var ks []string
	for k := range m {
		ks = append(ks, k)
	}
	sort.Strings(ks)
	return ks
}

func hashString(s string) uint32 {
	var h uint32 = 2166136261
	for i := 0; i < len(s); i++ {
		h ^= uint32(s[i])
		h *= 16777619
	}
	return h
}
