package props

import (
	"fmt"
	"strings"

	"verif/mc/engine"
	"verif/mc/model"
	"verif/mc/pkgread"

	"github.com/goreleaser/nfpm/v2"
)

// VerCfg is the version part of a configuration.
type VerCfg struct {
	Epoch, Version, Pre, Meta, Release, Schema string
}

// C14Case is either a split case (WithDefaults on one version string) or an
// ordering case (two configurations whose packaged versions must compare Want).
type C14Case struct {
	Part string `json:"part"`
	A    VerCfg `json:"a"`
	B    VerCfg `json:"b,omitempty"`
	Want int    `json:"want,omitempty"`
	Why  string `json:"why,omitempty"`
}

var c14Nums = []string{"0", "1", "2", "10"}
var c14Pres = []string{"", "alpha", "alpha.1", "rc1", "rc.1", "0.3.7", "x-y-z", "beta-2", "RC1", "SNAPSHOT", "Beta-2", "-rc.1", "5-gabcdef0", c14LongPre, "1", "0", "20"}

// c14LongPre: a branch name and a build number, longer than any fixed buffer a parser might use for a version
const c14LongPre = "feature-some-rather-long-branch-name-with-many-words.in.it.20240510.build.123456789"

var c14Metas = []string{"", "git", "001", "a.b-c", "Build5", "build-7", "git.0123456789abcdef0123456789abcdef01234567"}
var c14NearMiss = []string{"1.2.3--", "1.0.0-rc-", "2.0.0+exp-", "1.2.3-rc-+m-", "1.2.3.4", "1..2", "abc", "1.2.x", "01.2.3", "1.2.3-01", "V1.2.3", " 1.2.3", "1.2.3 ", "1.2.3-rc_1", "1.2.3-", "1.2.3+", "v", "1.2.3-rc1+", "1.2.3-+b", "1.2.3-a..b", "1.2.3+a..b", "-1.2.3", "1.-2.3", "1.2.3-ü", "v1.2.3-01.1", "vv1.2.3", "1.2.3-rc.01", "1.2.3+001.01", "1.2.3.4-rc1", "v5.10.0.2+git", "1.2.3.4-5", "1.2.3.4.5-beta+exp.1", "2024.01.15.1-2"}

func c14Bases() []string {
	var out []string
	for _, a := range c14Nums {
		out = append(out, a)
	}
	for _, a := range c14Nums {
		for _, b := range c14Nums {
			out = append(out, a+"."+b)
		}
	}
	for _, a := range c14Nums {
		for _, b := range c14Nums {
			for _, c := range c14Nums {
				out = append(out, a+"."+b+"."+c)
			}
		}
	}
	return out
}

func init() {
	engine.Register(&engine.Prop{
		ID:    "C14",
		Level: "model_checking",
		Rule: "split: every string of the grammar [v]N[.N[.N]][-pre][+meta] with N in {0,1,2,10}, 7 prerelease and 3 metadata shapes (5376 strings) plus 24 near-misses, x explicit prerelease/metadata in {unset,set} x schema in {default, semver, none}, run through nfpm.WithDefaults and compared with the reference grammar; " +
			"order: for deb, ipk and rpm the version strings decoded from really built packages are compared with ports of dpkg's and rpm's algorithms (dpkg --compare-versions as second opinion) for every (release, prerelease of it) pair over 64 bases x 7 prereleases x release in {unset,1} x metadata in {unset,git}, every pair of the 64 numeric bases, and every pair of epochs in {unset,1,2,10} over versions chosen so that the lower epoch carries the higher version; " +
			"verbatim: 12 versions that must not be split x 5 formats, the packaged version string must carry them unchanged; repeat: 256 version configurations x 5 formats packaged twice from one effective-settings object, both packages must state the same version; non-trivial = version parsed / both packages decoded; distinct = distinct (input, split result) or (pair, comparison)",
		Assumptions: []string{
			"reference semver grammar model/version.go (documented lenient grammar: optional lowercase v, 1-3 numeric parts without leading zeros, dot separated [0-9A-Za-z-] identifiers)",
			"DebCompare / RPMVerCmp are ports of deb-version(7) and rpm's rpmvercmp.c; ipk (opkg) uses the Debian algorithm",
		},
		Setup:  setupTree,
		Decode: decodeInto[C14Case],
		Bounds: func(env *engine.Env) map[string]any {
			return map[string]any{"numbers": c14Nums, "prereleases": c14Pres[1:], "metadata": c14Metas[1:], "near_misses": len(c14NearMiss), "order_formats": []string{"deb", "ipk", "rpm"}}
		},
		Enumerate: enumC14,
		Check:     checkC14,
	})
}

func enumC14(env *engine.Env, yield func(any) bool) {
	// split
	var versions []string
	for _, v := range []string{"", "v"} {
		for _, b := range c14Bases() {
			for _, p := range c14Pres {
				for _, m := range c14Metas {
					s := v + b
					if p != "" {
						s += "-" + p
					}
					if m != "" {
						s += "+" + m
					}
					versions = append(versions, s)
				}
			}
		}
	}
	versions = append(versions, c14NearMiss...)
	versions = append(versions, "")
	for _, schema := range []string{"", "semver", "none"} {
		for _, ep := range []string{"", "explicit-pre", "-lead", "-", "RC.1", "snapshot_3", "20240510.0830", "rc-", "a b"} {
			for _, em := range []string{"", "explicit.meta", "Build-7", "build_7", "007"} {
				if ep != "" && ep != "explicit-pre" && em == "explicit.meta" {
					continue
				}
				for _, v := range versions {
					if !yield(C14Case{Part: "split", A: VerCfg{Version: v, Pre: ep, Meta: em, Schema: schema}}) {
						return
					}
				}
			}
		}
	}
	// reversion: a placeholder version in the document, the real one set on the parsed configuration afterwards
	// (placeholders without prerelease or metadata of their own: those would be explicit settings afterwards)
	for _, ph := range []string{"dev", "latest", "1.2.3.4", "v0", "0.0.0"} {
		for _, v := range []string{"v1.2.3-rc1+git5", "1.2.3", "2.0.0-beta.1", "1.2.3+meta", "v10.20.30", "1.2", "not-semver"} {
			if !yield(C14Case{Part: "reversion", A: VerCfg{Version: v, Schema: ph}}) {
				return
			}
		}
	}
	// verbatim: versions that must not be split reach every package unchanged
	for _, v := range []string{"v1.2.3.4", "1.2.3.4", "2024.01.02", "1.2.x", "abc", "01.2.3", "V1.2.3", "1.2.3-rc_1", "1.02.3", "2024.01.15", "v1.2.03", "1.2.3-rc1+git ", " v1.2", "1.2.3 "} {
		for _, f := range Formats {
			if !yield(C14Case{Part: "verbatim", A: VerCfg{Version: v, Schema: ""}, Why: f}) {
				return
			}
		}
	}
	for _, v := range []string{"v1.2.3", "1.2.3-rc1+meta.5", "v2", "1.2", "1.2-rc1", "1.2.3-4"} {
		for _, f := range Formats {
			if !yield(C14Case{Part: "verbatim", A: VerCfg{Version: v, Schema: "none"}, Why: f}) {
				return
			}
		}
	}
	// explicit: configured prerelease / metadata reach the package exactly as written (a leading hyphen, upper case,
	// dots and inner hyphens included), for a plain and for an unsplit version
	for _, p := range c14Pres {
		for _, m := range c14Metas {
			if p == "" && m == "" {
				continue
			}
			for _, v := range []string{"1.2.3", "v1.2"} {
				for _, f := range Formats {
					if !yield(C14Case{Part: "verbatim", A: VerCfg{Version: v, Pre: p, Meta: m, Epoch: "1", Release: "2"}, Why: f}) {
						return
					}
				}
			}
		}
	}
	// the same under schema none: the version is taken as written, explicit prerelease and metadata are stated all the same
	for _, p := range []string{"", "rc1", "beta-2", "0.3.7"} {
		for _, m := range []string{"", "git", "Build5"} {
			if p == "" && m == "" {
				continue
			}
			for _, v := range []string{"1.2.3", "v1.2", "2024.01.15"} {
				for _, f := range Formats {
					if !yield(C14Case{Part: "verbatim", A: VerCfg{Version: v, Pre: p, Meta: m, Epoch: "1", Release: "2", Schema: "none"}, Why: f}) {
						return
					}
				}
			}
		}
	}
	// viaenv: the version (and its companions) come from environment references in the document: the package must
	// state exactly what it states when the same text is written literally
	for _, v := range []string{"v1.2.3-rc1+git.abc", "1.2.3", "1.2", "v2", "1.2.3-beta-1", "2024.01.05", "1.2.3+meta"} {
		for _, schema := range []string{"", "none"} {
			for _, f := range Formats {
				if !yield(C14Case{Part: "viaenv", A: VerCfg{Version: v, Schema: schema, Release: "2", Epoch: "1"}, Why: f}) {
					return
				}
			}
		}
	}
	// repeat: packaging the same effective settings (*Info) twice must state the same version both times
	for _, p := range c14Pres {
		for _, m := range c14Metas {
			for _, rel := range []string{"", "2"} {
				for _, ep := range []string{"", "3"} {
					if !yield(C14Case{Part: "repeat", A: VerCfg{Version: "1.2.3", Pre: p, Meta: m, Release: rel, Epoch: ep}}) {
						return
					}
				}
			}
		}
	}
	// order: prerelease before release
	var bases3 []string
	for _, a := range c14Nums {
		for _, b := range c14Nums {
			for _, c := range c14Nums {
				bases3 = append(bases3, a+"."+b+"."+c)
			}
		}
	}
	for _, b := range bases3 {
		for _, p := range c14Pres[1:] {
			for _, rel := range []string{"", "1"} {
				for _, meta := range []string{"", "git"} {
					a := VerCfg{Version: b, Pre: p, Release: rel, Meta: meta}
					r := VerCfg{Version: b, Release: rel, Meta: meta}
					if !yield(C14Case{Part: "order", A: a, B: r, Want: -1, Why: "a prerelease sorts before its release"}) {
						return
					}
				}
			}
		}
	}
	// the same with an epoch (and release / metadata) configured: the other components must not get lost on the way
	for _, b := range bases3[:8] {
		for _, p := range c14Pres[1:] {
			for _, rel := range []string{"", "4"} {
				for _, meta := range []string{"", "git5"} {
					a := VerCfg{Version: b, Pre: p, Release: rel, Meta: meta, Epoch: "2"}
					r := VerCfg{Version: b, Release: rel, Meta: meta, Epoch: "2"}
					if !yield(C14Case{Part: "order", A: a, B: r, Want: -1, Why: "a prerelease sorts before its release"}) {
						return
					}
				}
			}
		}
	}
	// the embedded spelling (version: 1.2.3-rc1) must behave like the explicit one
	for _, b := range bases3[:16] {
		for _, p := range c14Pres[1:] {
			if !yield(C14Case{Part: "order", A: VerCfg{Version: b + "-" + p}, B: VerCfg{Version: b}, Want: -1, Why: "a prerelease (embedded in the version string) sorts before its release"}) {
				return
			}
		}
	}
	// order: numeric ordering of major.minor.patch
	for i, x := range bases3 {
		for j, y := range bases3 {
			if i == j {
				continue
			}
			w := -1
			if i > j {
				w = 1
			}
			if !yield(C14Case{Part: "order", A: VerCfg{Version: x}, B: VerCfg{Version: y}, Want: w, Why: "major.minor.patch orders numerically"}) {
				return
			}
		}
	}
	if env.Thorough() {
		// numeric ordering over a larger alphabet (one- to three-digit parts, 9/10/11 and 99/100 boundaries)
		var big []string
		nums := []string{"0", "1", "2", "9", "10", "11", "99", "100"}
		for _, a := range nums {
			for _, b := range nums {
				for _, c := range nums {
					big = append(big, a+"."+b+"."+c)
				}
			}
		}
		for i, x := range big {
			for j, y := range big {
				// pairs that differ in one part, or whose order is decided by an earlier part against the later ones
				if i == j || !c14Interesting(x, y) {
					continue
				}
				w := -1
				if i > j {
					w = 1
				}
				if !yield(C14Case{Part: "order", A: VerCfg{Version: x}, B: VerCfg{Version: y}, Want: w, Why: "major.minor.patch orders numerically"}) {
					return
				}
			}
		}
		// prerelease before release under every combination of the other components, both spellings
		for _, b := range bases3 {
			for _, p := range c14Pres[1:] {
				for _, rel := range []string{"", "1", "2", "0"} {
					for _, meta := range []string{"", "git", "001"} {
						for _, ep := range []string{"", "1"} {
							for _, v := range []string{"", "v"} {
								a := VerCfg{Version: v + b, Pre: p, Release: rel, Meta: meta, Epoch: ep}
								r := VerCfg{Version: v + b, Release: rel, Meta: meta, Epoch: ep}
								if !yield(C14Case{Part: "order", A: a, B: r, Want: -1, Why: "a prerelease sorts before its release"}) {
									return
								}
							}
						}
					}
				}
				if !yield(C14Case{Part: "order", A: VerCfg{Version: b + "-" + p}, B: VerCfg{Version: b}, Want: -1, Why: "a prerelease (embedded in the version string) sorts before its release"}) {
					return
				}
			}
		}
		// one- and two-part versions against their own prereleases (the release is normalised to three parts)
		for _, b := range c14Bases() {
			for _, p := range c14Pres[1:] {
				if !yield(C14Case{Part: "order", A: VerCfg{Version: b + "-" + p}, B: VerCfg{Version: b}, Want: -1, Why: "a prerelease (embedded in the version string) sorts before its release"}) {
					return
				}
				if !yield(C14Case{Part: "order", A: VerCfg{Version: b, Pre: p}, B: VerCfg{Version: b}, Want: -1, Why: "a prerelease sorts before its release"}) {
					return
				}
			}
		}
	}
	// order: epochs
	epochs := []string{"", "1", "2", "9", "010", "11"} // numeric order; a leading zero does not change the number
	hi := []VerCfg{{Version: "10.10.10"}, {Version: "10.10.10", Release: "9"}, {Version: "2.0.0", Meta: "git"}}
	lo := []VerCfg{{Version: "0.0.1"}, {Version: "0.0.1", Pre: "alpha"}, {Version: "1.9.9", Release: "1"}}
	for i, e1 := range epochs {
		for _, e2 := range epochs[i+1:] {
			for _, h := range hi {
				for _, l := range lo {
					a, b := h, l
					a.Epoch, b.Epoch = e1, e2
					if !yield(C14Case{Part: "order", A: a, B: b, Want: -1, Why: "a higher epoch sorts after any lower one"}) {
						return
					}
				}
			}
		}
	}
}

// c14Interesting: x and y differ in exactly one part, or the first differing part decides against all later parts.
func c14Interesting(x, y string) bool {
	a, b := strings.Split(x, "."), strings.Split(y, ".")
	diff, first := 0, -1
	for i := range a {
		if a[i] != b[i] {
			diff++
			if first < 0 {
				first = i
			}
		}
	}
	if diff == 1 {
		return true
	}
	// e.g. 1.100.100 < 2.0.0: the later parts all point the other way
	num := func(s string) int { n := 0; fmt.Sscanf(s, "%d", &n); return n }
	for i := first + 1; i < len(a); i++ {
		if (num(a[i]) > num(b[i])) == (num(a[first]) > num(b[first])) {
			return false
		}
	}
	return true
}

func verDoc(v VerCfg) model.MetaCfg {
	c := baseMeta()
	c.Version, c.Epoch, c.Prerelease, c.Metadata, c.Release, c.Schema = v.Version, v.Epoch, v.Pre, v.Meta, v.Release, v.Schema
	return c
}

func checkC14(env *engine.Env, ci any) engine.Outcome {
	c := ci.(C14Case)
	var out engine.Outcome
	if c.Part == "split" {
		info := &nfpm.Info{Version: c.A.Version, Prerelease: c.A.Pre, VersionMetadata: c.A.Meta, VersionSchema: c.A.Schema}
		nfpm.WithDefaults(info)
		m := verDoc(c.A)
		if m.Version == "" {
			m.Version = "v0.0.0-rc0" // documented default for an unset version
		}
		wv, wp, wm := m.SplitVersion()
		_, parsed := model.ParseSemver(m.Version)
		out.Nontrivial = parsed && c.A.Schema != "none"
		out.Key = fmt.Sprintf("%q|%q|%q|%q -> %q %q %q", c.A.Version, c.A.Pre, c.A.Meta, c.A.Schema, info.Version, info.Prerelease, info.VersionMetadata)
		if info.Version != wv || info.Prerelease != wp || info.VersionMetadata != wm {
			cls := "parsed"
			if c.A.Schema == "none" {
				cls = "schema-none"
			} else if !parsed {
				cls = "not-semver"
			}
			what := []string{}
			if info.Version != wv {
				what = append(what, "version")
			}
			if info.Prerelease != wp {
				what = append(what, "prerelease")
			}
			if info.VersionMetadata != wm {
				what = append(what, "metadata")
			}
			out.Violations = append(out.Violations, engine.Violation{Sig: "version:split:" + cls + ":" + strings.Join(what, "+"),
				Detail: fmt.Sprintf("version=%q prerelease=%q version_metadata=%q schema=%q\nWithDefaults yields version=%q prerelease=%q metadata=%q; the documented split is version=%q prerelease=%q metadata=%q",
					c.A.Version, c.A.Pre, c.A.Meta, c.A.Schema, info.Version, info.Prerelease, info.VersionMetadata, wv, wp, wm)})
		}
		return out
	}
	if c.Part == "reversion" {
		// a configuration parsed with a placeholder version (not a semantic version); the library user then sets the real
		// version and asks for the settings: the real version is split as if it had been written in the document
		cfg, err := parseYAML("name: pkg\narch: amd64\nversion: "+c.A.Schema+"\n", nil)
		out.Key = fmt.Sprintf("reversion:%q:%q", c.A.Schema, c.A.Version)
		if err != nil {
			out.HarnessError = err.Error()
			return out
		}
		cfg.Version = c.A.Version
		info, gerr := safeGet(&cfg, "deb")
		if gerr != nil {
			out.HarnessError = gerr.Error()
			return out
		}
		info = nfpm.WithDefaults(info)
		ref := nfpm.WithDefaults(&nfpm.Info{Name: "pkg", Arch: "amd64", Version: c.A.Version})
		out.Nontrivial = true
		out.Transitions = 2
		if info.Version != ref.Version || info.Prerelease != ref.Prerelease || info.VersionMetadata != ref.VersionMetadata {
			out.Violations = append(out.Violations, engine.Violation{Sig: "version:split:after-placeholder",
				Detail: fmt.Sprintf("parsed with the placeholder version %q, then version set to %q: Get+WithDefaults yield version=%q prerelease=%q metadata=%q; the same version set from the start yields %q %q %q",
					c.A.Schema, c.A.Version, info.Version, info.Prerelease, info.VersionMetadata, ref.Version, ref.Prerelease, ref.VersionMetadata)})
		}
		return out
	}
	t := tree(env)
	var keys []string
	if c.Part == "verbatim" {
		f := c.Why
		mc := verDoc(c.A)
		data, err := buildYAML(metaDoc(mc, f, t).YAML(), f)
		out.Key = fmt.Sprintf("verbatim:%s:%q:%q:%q:%q", f, c.A.Version, c.A.Schema, c.A.Pre, c.A.Meta)
		if err != nil {
			out.Violations = append(out.Violations, engine.Violation{Sig: "version:verbatim-build-error:" + f, Detail: fmt.Sprintf("format=%s version=%q schema=%q: packaging failed: %v", f, c.A.Version, c.A.Schema, err)})
			return out
		}
		pkg, err := pkgread.Decode(f, data, env.Tools)
		if err != nil {
			out.Violations = append(out.Violations, engine.Violation{Sig: "version:undecodable:" + f, Detail: err.Error()})
			return out
		}
		out.Nontrivial = true
		for k, want := range model.WantVersion(f, mc) {
			// (blanks at the ends of a value do not survive a control file; they are not what is judged here)
			if got, _ := pkg.Field(k); strings.TrimSpace(got) != strings.TrimSpace(want) {
				out.Violations = append(out.Violations, engine.Violation{Sig: "version:verbatim:" + f,
					Detail: fmt.Sprintf("format=%s version=%q schema=%q: the version is not split (schema none / not a semantic version) and must be used verbatim; %s says %q, expected %q", f, c.A.Version, c.A.Schema, k, got, want)})
			}
		}
		return out
	}
	if c.Part == "viaenv" {
		f := c.Why
		mc := verDoc(c.A)
		lit := metaDoc(mc, f, t)
		ref := metaDoc(mc, f, t)
		// version and release are the two version components documented as environment-expanded
		envm := map[string]string{"C14_VERSION": c.A.Version, "C14_RELEASE": c.A.Release}
		ref["version"], ref["release"] = "${C14_VERSION}", "${C14_RELEASE}"
		out.Key = fmt.Sprintf("viaenv:%s:%q:%q", f, c.A.Version, c.A.Schema)
		a, errA := buildYAML(lit.YAML(), f)
		cfg, err := parseYAML(ref.YAML(), func(k string) string { return envm[k] })
		if err != nil {
			out.HarnessError = err.Error()
			return out
		}
		b, _, errB := packageFrom(&cfg, f)
		out.Transitions += 2
		// a library user may package what Parse + Get return as it is (Parse has applied the defaults already)
		if errB == nil {
			if cfg2, err := parseYAML(ref.YAML(), func(k string) string { return envm[k] }); err == nil {
				if info, err := cfg2.Get(f); err == nil {
					if p, err := nfpm.Get(f); err == nil {
						var buf strings.Builder
						if err := p.Package(info, &buf); err == nil && buf.String() != string(b) {
							out.Violations = append(out.Violations, engine.Violation{Sig: "version:viaenv:defaults-order:" + f, Detail: fmt.Sprintf("format=%s version=%q schema=%q (as environment references): packaging the settings exactly as Parse and Get return them gives a different package (%d bytes) than packaging them after another WithDefaults (%d bytes) - the defaults were not applied to the expanded values", f, c.A.Version, c.A.Schema, buf.Len(), len(b))})
						}
						out.Transitions++
					}
				}
			}
		}
		if (errA == nil) != (errB == nil) {
			out.Violations = append(out.Violations, engine.Violation{Sig: "version:viaenv:outcome:" + f, Detail: fmt.Sprintf("format=%s version=%q schema=%q: written literally the build gives %v, written as environment references it gives %v", f, c.A.Version, c.A.Schema, errA, errB)})
			return out
		}
		if errA != nil {
			return out
		}
		out.Nontrivial = true
		if string(a) != string(b) {
			pa, e1 := pkgread.Decode(f, a, env.Tools)
			pb, e2 := pkgread.Decode(f, b, env.Tools)
			det := ""
			if e1 == nil && e2 == nil {
				for _, k := range []string{"Version", "Release", "Epoch", "pkgver"} {
					va, _ := pa.Field(k)
					vb, _ := pb.Field(k)
					if va != vb {
						det += fmt.Sprintf(" %s: %q literally, %q through the environment;", k, va, vb)
					}
				}
			}
			out.Violations = append(out.Violations, engine.Violation{Sig: "version:viaenv:differs:" + f, Detail: fmt.Sprintf("format=%s version=%q schema=%q: the package differs when version and release are written as environment references (documented as expandable) instead of literally:%s", f, c.A.Version, c.A.Schema, det)})
		}
		return out
	}
	if c.Part == "repeat" {
		for _, f := range Formats {
			cfg, err := parseYAML(metaDoc(verDoc(c.A), f, t).YAML(), nil)
			if err != nil {
				out.HarnessError = err.Error()
				return out
			}
			info, err := cfg.Get(f)
			if err != nil {
				out.HarnessError = err.Error()
				return out
			}
			info = nfpm.WithDefaults(info)
			p, _ := nfpm.Get(f)
			var vers []string
			for i := 0; i < 2; i++ {
				out.Transitions++
				var buf strings.Builder
				if err := p.Package(info, &buf); err != nil {
					out.Violations = append(out.Violations, engine.Violation{Sig: "version:repeat-error:" + f, Detail: fmt.Sprintf("format=%s %+v: packaging #%d of the same Info failed: %v", f, c.A, i+1, err)})
					break
				}
				pkg, err := pkgread.Decode(f, []byte(buf.String()), env.Tools)
				if err != nil {
					out.Violations = append(out.Violations, engine.Violation{Sig: "version:undecodable:" + f, Detail: err.Error()})
					break
				}
				var vs []string
				for _, k := range []string{"Version", "Release", "Epoch", "pkgver"} {
					if v, ok := pkg.Field(k); ok {
						vs = append(vs, k+"="+v)
					}
				}
				vers = append(vers, strings.Join(vs, " "))
			}
			if len(vers) == 2 {
				out.Nontrivial = true
				keys = append(keys, f+":"+vers[0])
				if vers[0] != vers[1] {
					out.Violations = append(out.Violations, engine.Violation{Sig: "version:repeat:" + f,
						Detail: fmt.Sprintf("format=%s %+v\nthe first package built from the effective settings states %q, a second package built from the same settings states %q (a component was duplicated or lost)", f, c.A, vers[0], vers[1])})
				}
			}
		}
		out.Key = strings.Join(keys, "|")
		return out
	}
	// ordering on really packaged versions
	for _, f := range []string{"deb", "ipk", "rpm"} {
		viol := func(sig, format string, a ...any) {
			out.Violations = append(out.Violations, engine.Violation{Sig: sig,
				Detail: fmt.Sprintf("format=%s A=%+v B=%+v (%s)\n", f, c.A, c.B, c.Why) + fmt.Sprintf(format, a...)})
		}
		get := func(v VerCfg) (epoch, ver, rel string, ok bool) {
			out.Transitions++
			data, err := buildYAML(metaDoc(verDoc(v), f, t).YAML(), f)
			if err != nil {
				viol("version:build-error:"+f, "packaging failed: %v", err)
				return
			}
			pkg, err := pkgread.Decode(f, data, env.Tools)
			if err != nil {
				viol("version:undecodable:"+f, "%v", err)
				return
			}
			if f == "rpm" {
				e, _ := pkg.Field("Epoch")
				vv, _ := pkg.Field("Version")
				r, _ := pkg.Field("Release")
				return e, vv, r, true
			}
			vv, _ := pkg.Field("Version")
			return "", vv, "", true
		}
		ae, av, ar, ok1 := get(c.A)
		be, bv, br, ok2 := get(c.B)
		if !ok1 || !ok2 {
			continue
		}
		out.Nontrivial = true
		var got int
		if f == "rpm" {
			got = model.RPMCompareEVR(ae, av, ar, be, bv, br)
			keys = append(keys, fmt.Sprintf("rpm:%s:%s-%s<>%s:%s-%s=%d", ae, av, ar, be, bv, br, got))
		} else {
			got = model.DebCompare(av, bv)
			keys = append(keys, fmt.Sprintf("%s:%s<>%s=%d", f, av, bv, got))
			if dpkg := env.Tool("dpkg"); dpkg != "" && validDebVersion(av) && validDebVersion(bv) {
				op := map[int]string{-1: "lt", 0: "eq", 1: "gt"}[got]
				if _, err := runTool(dpkg, nil, "--compare-versions", av, op, bv); err != nil {
					out.HarnessError = fmt.Sprintf("DebCompare port disagrees with dpkg on %q vs %q", av, bv)
					return out
				}
			}
		}
		if got != c.Want {
			cls := map[string]string{"a prerelease sorts before its release": "prerelease-vs-release", "a prerelease (embedded in the version string) sorts before its release": "prerelease-vs-release-embedded",
				"major.minor.patch orders numerically": "numeric", "a higher epoch sorts after any lower one": "epoch"}[c.Why]
			if f == "rpm" {
				viol("version:order:rpm:"+cls, "rpm compares %s:%s-%s with %s:%s-%s as %d, required %d (%s)", ae, av, ar, be, bv, br, got, c.Want, c.Why)
			} else {
				viol("version:order:"+f+":"+cls, "the Debian algorithm compares %q with %q as %d, required %d (%s)", av, bv, got, c.Want, c.Why)
			}
		}
	}
	out.Key = strings.Join(keys, "|")
	return out
}

func validDebVersion(v string) bool {
	if i := strings.IndexByte(v, ':'); i >= 0 {
		v = v[i+1:]
	}
	return v != "" && v[0] >= '0' && v[0] <= '9'
}
