package props

import (
	"bytes"
	"fmt"
	"os"
	"os/exec"
	"path/filepath"
	"sort"
	"strings"
	"sync"

	"verif/mc/engine"
	"verif/mc/model"
	"verif/mc/pkgread"

	"github.com/goreleaser/nfpm/v2"
)

// C15Case: either name-vs-metadata for one configuration and format, or one
// command-line invocation.
type C15Case struct {
	Part   string        `json:"part"`
	Format string        `json:"format"`
	Cfg    model.MetaCfg `json:"cfg"`
	Target string        `json:"target,omitempty"` // file | dir | empty | foreign-ext | nested-missing-dir
	WithP  bool          `json:"with_p,omitempty"`
	// Elsewhere: the config file lives in another directory than the working directory and the
	// target is given relative to the working directory
	Elsewhere bool `json:"config_elsewhere,omitempty"`
	// Preexist: a file already exists at the path the package goes to ("larger" / "smaller" than the package)
	Preexist string `json:"preexisting_target,omitempty"`
	// Invoke: how the command line is written: "" = package -f PATH -t T -p P; "default-config" = no -f (nfpm.yaml in
	// the working directory); "stdin" = -f - with the document on standard input; "long" = --config=PATH --target=T
	// --packager=P; "alias-pkg" / "alias-p" = the command's aliases
	Invoke string `json:"invoke,omitempty"`
	// NoArch (name): the settings are the parsed ones with the architecture cleared by the library user (the parser
	// would fill one in): ipk and archlinux take settings without one
	NoArch bool `json:"no_arch,omitempty"`
}

var extOf = map[string]string{"deb": ".deb", "rpm": ".rpm", "apk": ".apk", "ipk": ".ipk", "archlinux": ".pkg.tar.zst"}

func init() {
	engine.Register(&engine.Prop{
		ID:    "C15",
		Level: "model_checking",
		Rule: "name: all 96 combinations of epoch/prerelease/metadata/release/schema/v-prefix x {amd64, every documented GOARCH, an undocumented one, a <format>.arch override} x 5 formats: ConventionalFileName asked on the effective settings, then Package on the same settings; " +
			"the name must equal the one the format's naming rule derives from the metadata decoded from that very package, end in the conventional extension, and the package bytes must equal those built without the prior name call; " +
			"cli: the nfpm binary built from the tree, target in {file, existing directory, empty, file with another format's extension, file in a missing directory} x -p given/absent x 5 formats; non-trivial = a package was produced; distinct = distinct (format, name, outcome)",
		Assumptions: []string{
			"naming rules: deb/ipk name_version_arch (epoch not part of the name, as dpkg-name does), rpm name-version-release.arch, apk name_pkgver_arch, archlinux name-pkgver-arch with characters outside [A-Za-z0-9._+-] dropped (epoch not part of the name)",
			"non-linux platforms are outside this alphabet",
		},
		Setup:  setupTree,
		Decode: decodeInto[C15Case],
		Bounds: func(env *engine.Env) map[string]any {
			return map[string]any{"arches": c02Arches, "cli_targets": []string{"file", "dir", "empty", "foreign-ext", "nested-missing-dir"}}
		},
		Enumerate: func(env *engine.Env, yield func(any) bool) {
			for _, f := range Formats {
				for _, arch := range append(append([]string{}, c02Arches...), "OVERRIDE") {
					for _, v := range []string{"1.2.3", "v1.2.3", "1.2.3+git-abc123"} {
						for _, epoch := range []string{"", "2"} {
							for _, pre := range []string{"", "beta1", "rc-2", "rc.1"} {
								for _, meta := range []string{"", "git", "2024-01-05"} {
									for _, rel := range []string{"", "3"} {
										for _, schema := range []string{"", "none"} {
											c := baseMeta()
											c.Version, c.Epoch, c.Prerelease, c.Metadata, c.Release, c.Schema = v, epoch, pre, meta, rel, schema
											if arch == "OVERRIDE" {
												c.FormatArch = "customarch"
											} else {
												c.Arch = arch
											}
											if !env.Thorough() && arch != "amd64" && arch != "arm5" && arch != "OVERRIDE" && (v != "1.2.3" || schema != "" || meta != "") {
												continue // quick: the full version product only for three architectures
											}
											if !yield(C15Case{Part: "name", Format: f, Cfg: c}) {
												return
											}
										}
									}
								}
							}
						}
					}
				}
			}
			// package names with upper-case letters, digits first, dots and plus signs
			for _, f := range Formats {
				for _, name := range []string{"libFoo", "LIB", "7zip", "a.b+c_d", "Ab-Cd", "pkg-dbgsym", "pkg-dbg", "pkg-dev", "pkg-doc", "pkg-debuginfo", "lib64foo1", "pkg.deb", "pkg-rpm", "x"} {
					c := baseMeta()
					c.Name, c.Release = name, "2"
					if !yield(C15Case{Part: "name", Format: f, Cfg: c}) {
						return
					}
				}
			}
			// release values at the edge of what a format takes as a number
			for _, f := range Formats {
				for _, rel := range []string{"0", "00", "-1", "007", "1.5", "r2", "2rc", " 3", "010", "08", "0x10", "0o17", "1_0", "1e2", "+4"} {
					for _, pre := range []string{"", "rc1"} {
						for _, ep := range []string{"", "1"} {
							c := baseMeta()
							c.Release, c.Prerelease, c.Epoch = rel, pre, ep
							if !yield(C15Case{Part: "name", Format: f, Cfg: c}) {
								return
							}
						}
					}
				}
			}
			// an epoch of zero (stated is stated), versions written with the epoch inside ("2:1.4.0", as rpm and dpkg print them)
			for _, f := range Formats {
				for _, ep := range []string{"0", "00"} {
					for _, pre := range []string{"", "rc1"} {
						for _, rel := range []string{"", "2"} {
							c := baseMeta()
							c.Epoch, c.Prerelease, c.Release = ep, pre, rel
							if !yield(C15Case{Part: "name", Format: f, Cfg: c}) {
								return
							}
						}
					}
				}
				for _, v := range []string{"2:1.4.0", "1:2", "0:1.0.0"} {
					for _, schema := range []string{"", "none"} {
						for _, ep := range []string{"", "3"} {
							c := baseMeta()
							c.Version, c.Schema, c.Epoch, c.Release = v, schema, ep, "1"
							if !yield(C15Case{Part: "name", Format: f, Cfg: c}) {
								return
							}
						}
					}
				}
			}
			// no architecture stated at all (the two formats whose packagers take such settings): whatever the packager
			// makes of it, the name and the metadata say the same
			for _, f := range []string{"ipk", "archlinux"} {
				for _, rel := range []string{"", "2"} {
					c := baseMeta()
					c.Release = rel
					if !yield(C15Case{Part: "name", Format: f, Cfg: c, NoArch: true}) {
						return
					}
				}
			}
			// format-specific settings that carry a name or version of their own (archlinux.pkgbase, ipk.abi_version,
			// rpm.summary/group ...): the file name and the metadata keep naming the package
			for _, f := range Formats {
				for _, rel := range []string{"", "4"} {
					c := baseMeta()
					c.Name, c.Release = "libfoo", rel
					c.ArchPkgbase, c.IPKABI, c.RPMGroup, c.RPMSummary = "foo-suite", "1", "System/Libraries", "foo library"
					if !yield(C15Case{Part: "name", Format: f, Cfg: c}) {
						return
					}
				}
			}
			// a platform other than linux (deb, rpm and ipk take one): the name and the metadata state the same architecture
			for _, f := range []string{"deb", "rpm", "ipk"} {
				for _, plat := range []string{"darwin", "kfreebsd", "linux"} {
					for _, arch := range []string{"amd64", "arm7", "all", "OVERRIDE"} {
						for _, pre := range []string{"", "rc1"} {
							c := baseMeta()
							c.Platform, c.Prerelease, c.Release = plat, pre, "2"
							if arch == "OVERRIDE" {
								c.FormatArch = "customarch"
							} else {
								c.Arch = arch
							}
							if !yield(C15Case{Part: "name", Format: f, Cfg: c}) {
								return
							}
						}
					}
				}
			}
			// the architecture stated in the override block of the format; a conventional name longer than a file
			// name may be (nothing may be written under another name)
			for _, f := range Formats {
				for _, tg := range []string{"file", "dir", "empty"} {
					for _, wp := range []bool{true, false} {
						c := baseMeta()
						c.Release, c.FormatArch, c.ArchInOverride = "2", "customarch", true
						if !yield(C15Case{Part: "cli", Format: f, Cfg: c, Target: tg, WithP: wp}) {
							return
						}
						for _, n := range []int{180, 236, 260} {
							c := baseMeta()
							c.Release, c.Metadata = "2", strings.Repeat("m", n)
							if !yield(C15Case{Part: "cli", Format: f, Cfg: c, Target: tg, WithP: wp}) {
								return
							}
						}
					}
				}
				for _, arch := range []string{"customarch", "arm7"} {
					c := baseMeta()
					c.Release, c.FormatArch, c.ArchInOverride = "2", arch, true
					if !yield(C15Case{Part: "name", Format: f, Cfg: c}) {
						return
					}
				}
			}
			// other ways of writing the command line: the configuration found under its default name, read from standard
			// input, long flags with '=', the command's aliases
			for _, f := range Formats {
				// (stale-pwd: the PWD variable of the environment names another directory than the process is in - after a
				// chdir of the caller, from an inherited environment; the working directory is where the process is)
				for _, inv := range []string{"default-config", "stdin", "long", "alias-pkg", "alias-p", "stale-pwd"} {
					for _, tg := range []string{"file", "dir", "empty"} {
						for _, wp := range []bool{true, false} {
							c := baseMeta()
							c.Release, c.Prerelease = "2", "rc1"
							if !yield(C15Case{Part: "cli", Format: f, Cfg: c, Target: tg, WithP: wp, Invoke: inv}) {
								return
							}
						}
					}
				}
			}
			// relative references (contents, scripts, changelog) with the configuration file in another directory: they are
			// relative to the working directory, whatever lies next to the configuration file
			for _, f := range Formats {
				for _, inv := range []string{"", "stdin", "target-in-source"} {
					if !yield(C15Case{Part: "cli-relrefs", Format: f, Cfg: baseMeta(), Invoke: inv}) {
						return
					}
				}
			}
			// the target path already holds a larger / a smaller file
			for _, f := range Formats {
				for _, tg := range []string{"file", "dir", "empty"} {
					for _, pe := range []string{"larger", "smaller"} {
						c := baseMeta()
						c.Release = "2"
						if !yield(C15Case{Part: "cli", Format: f, Cfg: c, Target: tg, WithP: true, Preexist: pe}) {
							return
						}
					}
				}
			}
			// conventional names that hold every character a version can put there (~ + : _ .), under a directory
			// target and no target
			for _, f := range Formats {
				for _, tg := range []string{"dir", "empty"} {
					for _, vc := range []struct{ v, ep, pre, meta, rel string }{{"v1.2.3", "2", "rc-2", "git", "3"}, {"1.2.3", "", "rc.1", "build.5", ""}, {"1.2.3+git-abc123", "", "beta1", "", "3"}} {
						c := baseMeta()
						c.Version, c.Epoch, c.Prerelease, c.Metadata, c.Release = vc.v, vc.ep, vc.pre, vc.meta, vc.rel
						if !yield(C15Case{Part: "cli", Format: f, Cfg: c, Target: tg, WithP: true}) {
							return
						}
					}
				}
			}
			if env.Thorough() {
				// the command line over the full product of target spelling x -p x config location x pre-existing target x version shape
				for _, f := range Formats {
					for _, tg := range []string{"file", "dir", "empty", "foreign-ext", "nested-missing-dir"} {
						for _, wp := range []bool{true, false} {
							for _, el := range []bool{false, true} {
								for _, pe := range []string{"", "larger", "smaller"} {
									for _, vc := range []struct{ v, ep, pre, meta, rel string }{{"1.2.3", "", "", "", ""}, {"v1.2.3", "2", "rc-2", "git", "3"}, {"1.2.3+git-abc123", "", "beta1", "", "3"}} {
										c := baseMeta()
										c.Version, c.Epoch, c.Prerelease, c.Metadata, c.Release = vc.v, vc.ep, vc.pre, vc.meta, vc.rel
										if !yield(C15Case{Part: "cli", Format: f, Cfg: c, Target: tg, WithP: wp, Elsewhere: el, Preexist: pe}) {
											return
										}
									}
								}
							}
						}
					}
				}
			}
			for _, f := range Formats {
				for _, tg := range []string{"file", "dir", "empty", "foreign-ext", "nested-missing-dir", "file-noext", "file-dotted-dir", "dir-symlink", "dir-trailing-slash", "file-symlink", "file-dollar", "dir-dollar", "dir-dotted", "file-inner-ext", "file-through-link-dotdot"} {
					for _, wp := range []bool{true, false} {
						for _, pre := range []string{"", "rc1"} {
							c := baseMeta()
							c.Prerelease = pre
							c.Release = "2"
							if !yield(C15Case{Part: "cli", Format: f, Cfg: c, Target: tg, WithP: wp}) {
								return
							}
						}
						if tg == "file" || tg == "dir" || tg == "empty" {
							c := baseMeta()
							if !yield(C15Case{Part: "cli", Format: f, Cfg: c, Target: tg, WithP: wp, Elsewhere: true}) {
								return
							}
						}
					}
				}
			}
		},
		Check: checkC15,
	})
}

var nfpmBinOnce sync.Once
var nfpmBinPath string
var nfpmBinErr error

// nfpmBinary builds the command-line tool from the tree under test (once per worker).
func nfpmBinary(env *engine.Env) (string, error) {
	nfpmBinOnce.Do(func() {
		nfpmBinPath = filepath.Join(env.Scratch, "nfpm-bin")
		cmd := exec.Command("go", "build", "-o", nfpmBinPath, "./cmd/nfpm")
		cmd.Dir = env.Repo
		cmd.Env = append(os.Environ(), "GOFLAGS=-mod=mod", "GOPROXY=off", "GOSUMDB=off", "GOTOOLCHAIN=local")
		if b, err := cmd.CombinedOutput(); err != nil {
			nfpmBinErr = fmt.Errorf("go build ./cmd/nfpm: %v: %s", err, b)
		}
	})
	return nfpmBinPath, nfpmBinErr
}

func archKeepChars(s string) string {
	s = strings.Map(func(r rune) rune {
		if r >= 'a' && r <= 'z' || r >= 'A' && r <= 'Z' || r >= '0' && r <= '9' || r == '.' || r == '_' || r == '+' || r == '-' {
			return r
		}
		return -1
	}, s)
	return strings.TrimLeft(s, "-.")
}

// nameFromMetadata applies the format's naming rule to decoded metadata.
// verbatim: the version is taken as the metadata states it (a configuration without an epoch whose version holds a
// colon: the text before the colon is part of the version as written, in the name as in the metadata).
func nameFromMetadata(f string, pkg *pkgread.Pkg, verbatim bool) string {
	g := func(k string) string { v, _ := pkg.Field(k); return v }
	noEpoch := func(v string) string {
		if i := strings.IndexByte(v, ':'); i >= 0 && !verbatim {
			return v[i+1:]
		}
		return v
	}
	switch f {
	case "deb", "ipk":
		return fmt.Sprintf("%s_%s_%s.%s", g("Package"), noEpoch(g("Version")), g("Architecture"), f)
	case "rpm":
		return fmt.Sprintf("%s-%s-%s.%s.rpm", g("Name"), g("Version"), g("Release"), g("Arch"))
	case "apk":
		return fmt.Sprintf("%s_%s_%s.apk", g("pkgname"), g("pkgver"), g("arch"))
	case "archlinux":
		return archKeepChars(fmt.Sprintf("%s-%s-%s.pkg.tar.zst", g("pkgname"), noEpoch(g("pkgver")), g("arch")))
	}
	return ""
}

func sniffFormat(b []byte) string {
	switch {
	case bytes.HasPrefix(b, []byte("!<arch>\n")):
		return "deb"
	case len(b) > 4 && bytes.Equal(b[:4], []byte{0xed, 0xab, 0xee, 0xdb}):
		return "rpm"
	case pkgread.SniffCompression(b) == "zstd":
		return "archlinux"
	case pkgread.SniffCompression(b) == "gzip":
		if ms, err := pkgread.SplitGzip(b); err == nil && len(ms) >= 2 {
			return "apk"
		}
		return "ipk"
	}
	return "unknown"
}

func checkC15(env *engine.Env, ci any) engine.Outcome {
	c := ci.(C15Case)
	t := tree(env)
	var out engine.Outcome
	f := c.Format
	text := metaDoc(c.Cfg, f, t).YAML()
	viol := func(sig, format string, a ...any) {
		out.Violations = append(out.Violations, engine.Violation{Sig: sig,
			Detail: fmt.Sprintf("format=%s part=%s target=%s -p=%v config:\n%s\n", f, c.Part, c.Target, c.WithP, text) + fmt.Sprintf(format, a...)})
	}
	if c.Part == "name" {
		alone, err := buildYAML(text, f)
		if c.NoArch {
			alone, err = nil, nil
			if cfg0, e := parseYAML(text, nil); e != nil {
				err = e
			} else if i0, e := cfg0.Get(f); e != nil {
				err = e
			} else {
				i0 = nfpm.WithDefaults(i0)
				i0.Arch = ""
				var b0 bytes.Buffer
				p0, _ := nfpm.Get(f)
				if err = p0.Package(i0, &b0); err == nil {
					alone = b0.Bytes()
				}
			}
		}
		out.Transitions++
		if err != nil {
			viol("name:build-error:"+f, "packaging failed: %v", err)
			return out
		}
		cfg, err := parseYAML(text, nil)
		if err != nil {
			out.HarnessError = err.Error()
			return out
		}
		info, err := cfg.Get(f)
		if err != nil {
			out.HarnessError = err.Error()
			return out
		}
		info = nfpm.WithDefaults(info)
		if c.NoArch {
			info.Arch = ""
		}
		p, _ := nfpm.Get(f)
		name := p.ConventionalFileName(info)
		var buf bytes.Buffer
		out.Transitions += 2
		if err := p.Package(info, &buf); err != nil {
			viol("name:build-error-after-name:"+f, "packaging after ConventionalFileName failed: %v", err)
			return out
		}
		out.Nontrivial = true
		out.Key = f + ":" + name
		if !bytes.Equal(buf.Bytes(), alone) {
			viol("name:alters-package:"+f, "the package built after asking for the file name (%d bytes) differs from the one built without asking (%d bytes)", buf.Len(), len(alone))
		}
		pkg, err := pkgread.Decode(f, buf.Bytes(), env.Tools)
		if err != nil {
			viol("name:undecodable:"+f, "%v", err)
			return out
		}
		want := nameFromMetadata(f, pkg, false)
		if name != want && !(c.Cfg.Epoch == "" && strings.Contains(c.Cfg.Version, ":") && name == nameFromMetadata(f, pkg, true)) {
			cls := "other"
			_, pre, _ := c.Cfg.SplitVersion()
			if pre != "" && strings.Replace(name, strings.ReplaceAll(pre, "-", "_"), "", 1) == want {
				cls = "prerelease-only-in-name" // the single difference: the name carries the prerelease, the metadata does not
			}
			if c.Cfg.Epoch == "" {
				cls += ":no-epoch"
			} else {
				cls += ":with-epoch"
			}
			viol("name:disagrees-with-metadata:"+f+":"+cls, "ConventionalFileName says %q; the metadata inside the package built from the same settings gives %q by the format's naming rule", name, want)
		}
		if pe, ok := p.(nfpm.PackagerWithExtension); ok {
			if !strings.HasSuffix(name, pe.ConventionalExtension()) || pe.ConventionalExtension() != extOf[f] {
				viol("name:extension:"+f, "name %q does not end in the conventional extension %q (expected %q)", name, pe.ConventionalExtension(), extOf[f])
			}
		} else {
			viol("name:extension:"+f, "packager does not report a conventional extension")
		}
		// asking again after packaging gives the same answer
		if again := p.ConventionalFileName(info); again != name {
			viol("name:unstable:"+f, "ConventionalFileName says %q before packaging and %q after", name, again)
		}
		return out
	}
	// ---- command line ----
	bin, err := nfpmBinary(env)
	if err != nil {
		out.HarnessError = err.Error()
		return out
	}
	if c.Part == "cli-relrefs" {
		work, err := os.MkdirTemp(env.Scratch, "clirel-")
		if err != nil {
			out.HarnessError = err.Error()
			return out
		}
		defer os.RemoveAll(work)
		put := func(rel string, data []byte, mode os.FileMode) {
			p := filepath.Join(work, rel)
			os.MkdirAll(filepath.Dir(p), 0o755)
			os.WriteFile(p, data, mode)
			os.Chmod(p, mode)
		}
		clA := "- semver: \"1.0.0\"\n  date: \"2009-11-10T23:00:00Z\"\n  packager: \"Jane Roe <jane@example.com>\"\n  changes:\n    - note: \"the changelog of the working directory\"\n"
		clB := strings.ReplaceAll(clA, "the changelog of the working directory", "A DECOY next to the configuration file")
		put("files/app.conf", []byte("setting = working-directory\n"), 0o644)
		// names that are also patterns matching their neighbours (contents are expanded once)
		put("files/a[1].txt", []byte("the file named a[1].txt\n"), 0o644)
		put("files/a1.txt", []byte("the file named a1.txt\n"), 0o644)
		put("files/st*r.txt", []byte("the file named st*r.txt\n"), 0o644)
		put("files/star.txt", []byte("the file named star.txt\n"), 0o644)
		put("files/q?.txt", []byte("the file named q?.txt\n"), 0o644)
		put("files/qx.txt", []byte("the file named qx.txt\n"), 0o644)
		put("packaging/files/app.conf", []byte("setting = DECOY next to the configuration file\n"), 0o644)
		put("scripts/post.sh", []byte("#!/bin/sh\necho working directory\n"), 0o755)
		put("packaging/scripts/post.sh", []byte("#!/bin/sh\necho DECOY next to the configuration file\n"), 0o755)
		put("changelog.yaml", []byte(clA), 0o644)
		put("packaging/changelog.yaml", []byte(clB), 0o644)
		// files that other tools read variables from: the references of the configuration are answered by the process
		// environment alone (the variable is unset there)
		for _, n := range []string{".env", "packaging/.env", ".envrc", "packaging/nfpm.env", "nfpm.env"} {
			put(n, []byte("C15_DOTENV_VAR=leaked-from-a-file\nexport C15_DOTENV_VAR\n"), 0o644)
		}
		mk := func(root string) string {
			d := metaDoc(c.Cfg, f, t)
			d["contents"] = []any{map[string]any{"src": filepath.Join(root, "files/app.conf"), "dst": "/etc/app.conf", "type": "config"}, map[string]any{"src": filepath.Join(root, "files") + "/", "dst": "/opt/files"},
				map[string]any{"dst": "/var/lib/app/state.db", "type": "ghost"}, map[string]any{"dst": "/var/lib/app/spool", "type": "dir"}}
			d["scripts"] = map[string]any{"postinstall": filepath.Join(root, "scripts/post.sh")}
			d["depends"] = []any{"${C15_DOTENV_VAR}", "kept"}
			d["vendor"] = "vendor${C15_DOTENV_VAR}"
			if f == "deb" || f == "rpm" {
				d["changelog"] = filepath.Join(root, "changelog.yaml")
			}
			return d.YAML()
		}
		relText, absText := mk(""), mk(work)
		put("packaging/nfpm.yaml", []byte(relText), 0o644)
		if c.Invoke == "target-in-source" {
			// the package is written into a directory that is itself a source: whatever that means for the package, it
			// means the same whether the configuration spells its sources relatively or absolutely
			put("packaging/abs.yaml", []byte(absText), 0o644)
			tgt := filepath.Join(work, "files", "out"+extOf[f])
			var outs [2][]byte
			for i, cf := range []string{"nfpm.yaml", "abs.yaml"} {
				os.Remove(tgt)
				cmd := exec.Command(bin, "package", "-f", filepath.Join("packaging", cf), "-p", f, "-t", tgt)
				cmd.Dir = work
				for _, kv := range os.Environ() {
					if !strings.HasPrefix(kv, "C15_DOTENV_VAR=") {
						cmd.Env = append(cmd.Env, kv)
					}
				}
				o, rerr := cmd.CombinedOutput()
				out.Transitions++
				if rerr != nil {
					out.Key = fmt.Sprintf("cli-relrefs:%s:%s:fails", f, c.Invoke)
					out.Nontrivial = false
					_ = o
					return out // a tree that refuses such a target: nothing to compare
				}
				outs[i], _ = os.ReadFile(tgt)
			}
			out.Nontrivial = true
			out.Key = fmt.Sprintf("cli-relrefs:%s:%s:%d", f, c.Invoke, len(outs[0]))
			if !bytes.Equal(outs[0], outs[1]) {
				viol("cli:relrefs:spelling-matters:"+f, "target %s inside the source directory files/: the package built from relatively spelt sources (%d bytes) differs from the one built from the same sources spelt absolutely (%d bytes)", tgt, len(outs[0]), len(outs[1]))
			}
			return out
		}
		target := filepath.Join(work, "out"+extOf[f])
		args := []string{"package", "-f", filepath.Join("packaging", "nfpm.yaml"), "-p", f, "-t", target}
		cmd := exec.Command(bin, args...)
		if c.Invoke == "stdin" {
			args[2] = "-"
			cmd = exec.Command(bin, args...)
			cmd.Stdin = strings.NewReader(relText)
		}
		cmd.Dir = work
		for _, kv := range os.Environ() {
			if !strings.HasPrefix(kv, "C15_DOTENV_VAR=") {
				cmd.Env = append(cmd.Env, kv)
			}
		}
		o, rerr := cmd.CombinedOutput()
		out.Transitions++
		out.Key = fmt.Sprintf("cli-relrefs:%s:%s:exit=%v", f, c.Invoke, rerr != nil)
		if rerr != nil {
			viol("cli:relrefs:fails:"+f, "nfpm %v (working directory holds the referenced files) failed: %v\n%s", args, rerr, o)
			return out
		}
		out.Nontrivial = true
		got, _ := os.ReadFile(target)
		ref, berr := buildYAML(absText, f)
		if berr != nil {
			out.HarnessError = "reference build: " + berr.Error()
			return out
		}
		if !bytes.Equal(got, ref) {
			what := "differs from"
			if pkg, derr := pkgread.Decode(f, got, env.Tools); derr == nil {
				for i := range pkg.Entries {
					if bytes.Contains(pkg.Entries[i].Data, []byte("DECOY")) {
						what = "ships the decoy " + pkg.Entries[i].Path + " instead of the file of"
					}
				}
				for k, v := range pkg.Scripts {
					if bytes.Contains(v, []byte("DECOY")) {
						what = "carries the decoy script in slot " + k + " instead of the script of"
					}
				}
			}
			viol("cli:relrefs:not-the-working-directory:"+f, "nfpm %v: the package %s the working directory (relative references are relative to it, not to the directory of the configuration file); %d bytes, the package built from the same files by absolute path has %d", args, what, len(got), len(ref))
		}
		return out
	}
	work, err := os.MkdirTemp(env.Scratch, "cli-")
	if err != nil {
		out.HarnessError = err.Error()
		return out
	}
	defer os.RemoveAll(work)
	cfgPath := filepath.Join(work, "nfpm.yaml")
	if c.Elsewhere {
		os.Mkdir(filepath.Join(work, "cfgdir"), 0o755)
		cfgPath = filepath.Join(work, "cfgdir", "nfpm.yaml")
	}
	os.WriteFile(cfgPath, []byte(text), 0o644)
	os.Mkdir(filepath.Join(work, "outdir"), 0o755)
	// the library's own answer for the conventional name (judged against metadata in part "name")
	cfg, _ := parseYAML(text, nil)
	info, _ := cfg.Get(f)
	info = nfpm.WithDefaults(info)
	p, _ := nfpm.Get(f)
	conv := p.ConventionalFileName(info)

	other := map[string]string{"deb": "rpm", "rpm": "deb", "apk": "deb", "ipk": "rpm", "archlinux": "apk"}[f]
	var target, wantPath, wantFormat string
	wantFail := false
	switch c.Target {
	case "file":
		ext := extOf[f]
		if !c.WithP && f == "archlinux" {
			ext = ".archlinux" // the only spelling from which the packager can be inferred
		}
		target = filepath.Join(work, "outdir", "custom-name"+ext)
		wantPath, wantFormat = target, f
	case "dir":
		target = filepath.Join(work, "outdir")
		wantPath, wantFormat = filepath.Join(target, conv), f
		wantFail = !c.WithP
	case "empty":
		target = ""
		wantPath, wantFormat = filepath.Join(work, conv), f
		wantFail = !c.WithP
	case "dir-symlink":
		// the target is a symbolic link to an existing directory: the package goes into that directory
		os.Symlink("outdir", filepath.Join(work, "dist"))
		target = filepath.Join(work, "dist")
		wantPath, wantFormat = filepath.Join(work, "outdir", conv), f
		wantFail = !c.WithP
	case "dir-trailing-slash":
		target = filepath.Join(work, "outdir") + "/"
		wantPath, wantFormat = filepath.Join(work, "outdir", conv), f
		wantFail = !c.WithP
	case "file-symlink":
		// the target is a symbolic link to a (not yet existing) file in another directory: written through the link
		os.Symlink(filepath.Join("outdir", "real"+extOf[f]), filepath.Join(work, "link"+extOf[f]))
		target = filepath.Join(work, "link"+extOf[f])
		wantPath, wantFormat = filepath.Join(work, "outdir", "real"+extOf[f]), f
		if !c.WithP && f == "archlinux" {
			wantFail = true // .pkg.tar.zst is not a spelling the packager is inferred from
		}
	case "file-dollar":
		// a target name that looks like environment references: used literally
		target = filepath.Join(work, "outdir", "pkg-$HOME-${USER}-$C15_UNSET"+extOf[f])
		if !c.WithP && f == "archlinux" {
			target = filepath.Join(work, "outdir", "pkg-$HOME-${USER}-$C15_UNSET.archlinux")
		}
		wantPath, wantFormat = target, f
	case "dir-dollar":
		os.Mkdir(filepath.Join(work, "out-$HOME"), 0o755)
		target = filepath.Join(work, "out-$HOME")
		wantPath, wantFormat = filepath.Join(target, conv), f
		wantFail = !c.WithP
	case "dir-dotted":
		// an existing directory whose name looks like it had an extension
		os.Mkdir(filepath.Join(work, "dist-1.2"), 0o755)
		target = filepath.Join(work, "dist-1.2")
		wantPath, wantFormat = filepath.Join(target, conv), f
		wantFail = !c.WithP
	case "file-through-link-dotdot":
		// link -> outdir/sub; the target link/../name is outdir/name for the operating system (./name after lexical cleaning)
		os.Mkdir(filepath.Join(work, "outdir", "sub"), 0o755)
		os.Symlink(filepath.Join("outdir", "sub"), filepath.Join(work, "link"))
		ext := extOf[f]
		if !c.WithP && f == "archlinux" {
			ext = ".archlinux"
		}
		target = filepath.Join(work, "link") + "/../custom" + ext
		wantPath, wantFormat = filepath.Join(work, "outdir", "custom"+ext), f
	case "file-inner-ext":
		// another format's extension inside the name, this format's at the end
		target = filepath.Join(work, "outdir", "myapp."+other+"-debug-1.2.3"+extOf[f])
		if !c.WithP && f == "archlinux" {
			target = filepath.Join(work, "outdir", "myapp."+other+"-debug-1.2.3.archlinux")
		}
		wantPath, wantFormat = target, f
	case "file-noext":
		// a file target without any extension that does not exist yet: still a file, at exactly that path
		target = filepath.Join(work, "outdir", "mypackage")
		wantPath, wantFormat = target, f
		wantFail = !c.WithP // nothing to infer the packager from
	case "file-dotted-dir":
		// the directory has a dot in its name, the file has no extension
		os.Mkdir(filepath.Join(work, "out.d"), 0o755)
		target = filepath.Join(work, "out.d", "pkgfile")
		wantPath, wantFormat = target, f
		wantFail = !c.WithP
	case "foreign-ext":
		target = filepath.Join(work, "outdir", "custom-name."+other)
		wantPath = target
		wantFormat = f // an explicit -p wins over the extension
		if !c.WithP {
			wantFormat = other // inferred from the extension
		}
	case "nested-missing-dir":
		target = filepath.Join(work, "missing", "x"+extOf[f])
		wantPath, wantFail = target, true
	}
	if (c.Target == "dir" || c.Target == "empty") && len(conv) > 255 {
		wantFail = true // no file can carry the conventional name; nothing is written under another one
	}
	args := []string{"package", "-f", cfgPath}
	if c.Elsewhere {
		// config by relative path, target relative to the working directory
		args = []string{"package", "-f", filepath.Join("cfgdir", "nfpm.yaml")}
		if target != "" {
			if r, err := filepath.Rel(work, target); err == nil {
				target = r
			}
		}
	}
	if target != "" {
		args = append(args, "-t", target)
	}
	if c.WithP {
		args = append(args, "-p", f)
	}
	var stdin []byte
	switch c.Invoke {
	case "default-config":
		args = append([]string{"package"}, args[3:]...) // nfpm.yaml of the working directory
	case "stdin":
		args[2] = "-"
		stdin = []byte(text)
	case "long":
		args = []string{"package", "--config=" + args[2]}
		if target != "" {
			args = append(args, "--target="+target)
		}
		if c.WithP {
			args = append(args, "--packager="+f)
		}
	case "alias-pkg":
		args[0] = "pkg"
	case "alias-p":
		args[0] = "p"
	}
	if c.Preexist != "" && !wantFail {
		n := 4 << 20
		if c.Preexist == "smaller" {
			n = 7
		}
		os.MkdirAll(filepath.Dir(wantPath), 0o755)
		os.WriteFile(wantPath, bytes.Repeat([]byte("OLD!"), n/4+1)[:n], 0o600)
	}
	cmd := exec.Command(bin, args...)
	cmd.Dir = work
	if c.Invoke == "stale-pwd" {
		other, _ := os.MkdirTemp(env.Scratch, "stale-pwd-")
		defer func() {
			if entries, _ := os.ReadDir(other); len(entries) > 0 {
				viol("cli:wrong-place:stale-pwd:"+f, "PWD in the environment named %s while the process ran in %s: %d file(s) were written below the directory PWD names (%s)", other, work, len(entries), entries[0].Name())
			}
			os.RemoveAll(other)
		}()
		for _, kv := range os.Environ() {
			if !strings.HasPrefix(kv, "PWD=") {
				cmd.Env = append(cmd.Env, kv)
			}
		}
		cmd.Env = append(cmd.Env, "PWD="+other)
	}
	var so, se bytes.Buffer
	cmd.Stdout, cmd.Stderr = &so, &se
	if stdin != nil {
		cmd.Stdin = bytes.NewReader(stdin)
	}
	runErr := cmd.Run()
	out.Transitions++
	// what exists now?
	var created []string
	filepath.Walk(work, func(pth string, fi os.FileInfo, err error) error {
		if err == nil && !fi.IsDir() && fi.Mode()&os.ModeSymlink == 0 && pth != cfgPath {
			_ = 0
			rel, _ := filepath.Rel(work, pth)
			created = append(created, rel)
		}
		return nil
	})
	sort.Strings(created)
	out.Key = fmt.Sprintf("%s:%s:%v:%v:%s:%s:exit=%v:%v", f, c.Target, c.WithP, c.Elsewhere, c.Preexist, c.Invoke, runErr != nil, created)
	if wantFail {
		if runErr == nil {
			viol("cli:should-fail:"+c.Target+":"+f, "nfpm %v exited 0; expected an error (stdout %q)", args, so.String())
		}
		if len(created) > 0 {
			viol("cli:leftover:"+c.Target+":"+f, "nfpm %v failed but left %v behind", args, created)
		}
		if runErr != nil && strings.TrimSpace(so.String()+se.String()) == "" {
			viol("cli:silent-failure:"+c.Target+":"+f, "nfpm %v failed without printing a cause", args)
		}
		return out
	}
	if runErr != nil {
		viol("cli:fails:"+c.Target+":"+f, "nfpm %v failed: %v\nstdout: %s\nstderr: %s", args, runErr, so.String(), se.String())
		return out
	}
	out.Nontrivial = true
	wantRel, _ := filepath.Rel(work, wantPath)
	if len(created) != 1 || created[0] != wantRel {
		viol("cli:wrong-place:"+c.Target+":"+f, "nfpm %v created %v, expected exactly %q", args, created, wantRel)
		return out
	}
	b, _ := os.ReadFile(wantPath)
	// the file holds exactly the package (the configuration fixes the mtime, so the library gives the same bytes)
	if ref, err := buildYAML(text, wantFormat); err == nil && !bytes.Equal(ref, b) {
		cls := "differs"
		if len(b) > len(ref) && bytes.Equal(b[:len(ref)], ref) {
			cls = "trailing-bytes"
		}
		viol("cli:not-exactly-the-package:"+cls+":"+c.Target, "nfpm %v left %d bytes at %s (pre-existing file: %q); the package is %d bytes", args, len(b), wantRel, c.Preexist, len(ref))
	}
	if got := sniffFormat(b); got != wantFormat {
		cls := "explicit-p"
		if !c.WithP {
			cls = "inferred"
		}
		viol("cli:wrong-packager:"+cls+":"+c.Target, "nfpm %v wrote a %s package, expected %s", args, got, wantFormat)
	}
	return out
}
