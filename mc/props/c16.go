package props

import (
	"fmt"
	"os"
	"path/filepath"
	"reflect"
	"regexp"
	"sort"
	"strings"

	"verif/mc/engine"
	"verif/mc/fixture"

	"github.com/goreleaser/nfpm/v2"
)

// C16Case is one generated document parsed under one environment mapping.
type C16Case struct {
	Part    string            `json:"part"` // unknown-key | expand | contents-expand | passphrase
	Path    []string          `json:"path,omitempty"`
	Kind    string            `json:"kind,omitempty"`
	Inject  string            `json:"inject,omitempty"`
	Value   string            `json:"value,omitempty"`
	Env     map[string]string `json:"env,omitempty"`
	NilMap  bool              `json:"nil_mapping,omitempty"`
	Expand  string            `json:"expand,omitempty"` // contents: true | false | absent
	Present uint              `json:"present,omitempty"`
	Fmt     string            `json:"override_format,omitempty"` // format instantiating overrides.<format> ("" = deb)
	Syntax  string            `json:"syntax,omitempty"`          // unknown-key: how the undefined key is spelt (quoted, explicit, merge, tagged, flow)
	IVal    string            `json:"injected_value,omitempty"`  // unknown-key: value shape of the undefined key (scalar, map, list, null)
	Path2   []string          `json:"path2,omitempty"`           // expand-pair: the second leaf
	Kind2   string            `json:"kind2,omitempty"`
	Mode    string            `json:"mode,omitempty"` // all-at-once: plain | refs
}

func c16Base() map[string]any {
	return map[string]any{"name": "pkg", "arch": "amd64", "version": "1.2.3", "version_schema": "none"}
}

var docKeyRe = regexp.MustCompile(`^([A-Za-z_][A-Za-z0-9_|]*):`)

// documentedExpandable lists the key paths configuration.md documents as
// environment-expanded ("This will expand any env var ...").
func documentedExpandable(repo string) (map[string]bool, error) {
	b, err := os.ReadFile(filepath.Join(repo, "www/docs/configuration.md"))
	if err != nil {
		return nil, err
	}
	out := map[string]bool{}
	type lvl struct {
		indent int
		key    string
	}
	var stack []lvl
	pending, in := false, false
	for _, line := range strings.Split(string(b), "\n") {
		if strings.HasPrefix(line, "```") {
			if in {
				break
			}
			in = strings.HasPrefix(line, "```yaml")
			continue
		}
		if !in {
			continue
		}
		trim := strings.TrimLeft(line, " ")
		indent := len(line) - len(trim)
		if trim == "" {
			continue
		}
		if strings.HasPrefix(trim, "#") {
			if strings.Contains(trim, "expand any env var") {
				pending = true
			}
			continue
		}
		if strings.HasPrefix(trim, "- ") {
			continue
		}
		m := docKeyRe.FindStringSubmatch(trim)
		if m == nil {
			continue
		}
		for len(stack) > 0 && stack[len(stack)-1].indent >= indent {
			stack = stack[:len(stack)-1]
		}
		var p []string
		for _, s := range stack {
			p = append(p, s.key)
		}
		p = append(p, m[1])
		if pending {
			out[strings.Join(p, ".")] = true
			pending = false
		}
		stack = append(stack, lvl{indent, m[1]})
	}
	if len(out) < 10 {
		return nil, fmt.Errorf("only %d documented expandable fields found in configuration.md", len(out))
	}
	return out, nil
}

func setupC16(env *engine.Env) error {
	if err := setupTree(env); err != nil {
		return err
	}
	d, err := documentedExpandable(env.Repo)
	if err != nil {
		return err
	}
	env.Data["documented"] = d
	return nil
}

func configShape() ([]cfgLeaf, []cfgLevel) {
	var leaves []cfgLeaf
	var levels []cfgLevel
	walkConfigType(reflect.TypeOf(nfpm.Config{}), nil, &leaves, &levels, 0)
	return leaves, levels
}

var c16Values = []string{"plain", "${V}", "pre-$V-post", "  $E  ", "  padded  ", "${project.version}/${dist-name}", "~/keys/k", "a$$b", "${V:-fallback}", "${UNSET:-fallback}-x", "arm", "first line\n\tsecond line led by a tab\n    third line led by blanks\n"}

// c16ValuesThorough: further shapes - a bare variable name, brace/percent look-alikes, doubled and adjacent
// references, '$' at the end, an unset variable, references padded with blanks, non-ASCII text.
var c16ValuesThorough = []string{"a$$b", "$$", "$${V}", "V", "{V}", "%V%", "a b", "ünï-cödé", "$V", "${V}${V}", "$V$V", "x${V}", "${V}x", "${UNSET}", "$UNSET", "a$", " ${V} ", "${V} ${W}", "$W-$V", "$V_x", "${V}_x"}

// hostileEnv answers every variable name (and anything else it is asked) with a marker: a value that contains no
// '$' must still come back as written.
var hostileEnv = map[string]string{"*": "HOSTILE"}

func init() {
	engine.Register(&engine.Prop{
		ID:    "C16",
		Level: "model_checking",
		Rule: "unknown-key: through every public entry point of the parser (ParseWithEnvMapping, Parse, ParseFile(path), ParseFile(-) reading stdin, ParseFileWithEnvMapping), every mapping level of the configuration types (reflection over nfpm.Config of the tree under test: top level, every nested block, list elements, overrides.<format>.*, file_info) with an undefined sibling key injected, and every leaf key misspelt, must be rejected; " +
			"expand: every string / *string / string-list / string-map leaf x values {plain, ${V}, pre-$V-post, '  $E  ', '  padded  '} x mappings {V=val, V=empty, nil mapping}: values without '$' unchanged (list items trimmed), fields documented as expandable in configuration.md (parsed at run time) substituted with the caller's mapping, empty list items dropped; " +
			"contents src/dst expanded iff expand:true (true/false/absent, top level and overrides); all 2^4 presence combinations of the four passphrase variables; " +
			"the undefined key also spelt as a quoted key, an explicit '? key', a merge key '<<: {key: x}' and a tagged key, and carrying a map, a list or null, at every level; a mapping that answers every name with a marker for every string leaf; all-at-once: every string-valued leaf set to its own unique value in one document (plain, and documented fields each referring to their own variable) for each override format - nothing may leak between fields; " +
			"thorough: overrides.<format> levels and leaves for all five formats, 18 further value shapes (bare variable name, look-alikes, doubled/adjacent/unset references, '$' at the end, padded references) x 4 mappings (incl. values with blanks/newline, answer-everything), every pair of documented expandable leaves referring to different variables; non-trivial = document exercised the parser; distinct = distinct (path, value, mapping, outcome)",
		Assumptions: []string{
			"fields the code expands beyond the documented set are not judged when they contain '$'",
			"documented defaults applied after expansion (empty arch -> amd64, platform -> linux, description -> 'no description given') are part of the oracle",
		},
		Setup:  setupC16,
		Decode: decodeInto[C16Case],
		Bounds: func(env *engine.Env) map[string]any {
			l, lv := configShape()
			return map[string]any{"leaves": len(l), "mapping_levels": len(lv), "values": c16Values, "values_thorough": c16ValuesThorough, "key_syntaxes": []string{"plain", "quoted", "explicit", "merge", "tagged"}, "injected_value_shapes": []string{"scalar", "map", "list", "null"}}
		},
		Enumerate: func(env *engine.Env, yield func(any) bool) {
			leaves, levels := configShape()
			for _, lv := range levels {
				for _, inj := range []string{"zz_undefined_key", "Name", "x-extra"} {
					if !yield(C16Case{Part: "unknown-key", Path: lv.Path, Inject: inj}) {
						return
					}
				}
			}
			for _, lf := range leaves {
				p := append(append([]string{}, lf.Path[:len(lf.Path)-1]...), lf.Path[len(lf.Path)-1]+"x")
				if !yield(C16Case{Part: "unknown-key", Path: p[:len(p)-1], Inject: p[len(p)-1], Kind: "misspelt:" + lf.Kind}) {
					return
				}
				// the key in another letter case is another key
				k := lf.Path[len(lf.Path)-1]
				for _, v := range []string{strings.ToUpper(k[:1]) + k[1:], strings.ToUpper(k)} {
					if v == k {
						continue
					}
					if !yield(C16Case{Part: "unknown-key", Path: lf.Path[:len(lf.Path)-1], Inject: v, Kind: "case:" + lf.Kind}) {
						return
					}
				}
			}
			envs := []struct {
				env  map[string]string
				nilm bool
			}{{map[string]string{"V": "val", "project.version": "pv", "dist-name": "dn"}, false}, {map[string]string{"V": ""}, false}, {nil, true}}
			for _, lf := range leaves {
				switch lf.Kind {
				case "string", "strptr", "strlist", "strmap":
				default:
					continue
				}
				for _, v := range c16Values {
					for _, e := range envs {
						if e.nilm && strings.Contains(v, "$") {
							continue
						}
						if !yield(C16Case{Part: "expand", Path: lf.Path, Kind: lf.Kind, Value: v, Env: e.env, NilMap: e.nilm}) {
							return
						}
					}
				}
			}
			for _, where := range [][]string{{"contents"}, {"overrides", "{fmt}", "contents"}} {
				for _, ex := range []string{"true", "false", "absent"} {
					for _, v := range c16Values {
						for _, kind := range []string{"", "dir", "ghost", "symlink", "dst-only"} {
							if !yield(C16Case{Part: "contents-expand", Path: where, Value: v, Expand: ex, Env: map[string]string{"V": "val", "project.version": "pv", "dist-name": "dn"}, Kind: kind}) {
								return
							}
						}
					}
				}
			}
			for present := uint(0); present < 16; present++ {
				if present == 0 {
					// the entry points that read the process environment itself, with values of awkward shape in it
					for _, ep := range []string{"Parse", "ParseFile"} {
						if !yield(C16Case{Part: "procenv", Kind: ep}) {
							return
						}
					}
				}
				if !yield(C16Case{Part: "passphrase", Present: present}) {
					return
				}
			}
			// the undefined key spelt in other YAML syntaxes and carrying other value shapes, at every level
			for _, lv := range levels {
				for _, syn := range []string{"quoted", "explicit", "merge", "tagged"} {
					if !yield(C16Case{Part: "unknown-key", Path: lv.Path, Inject: "zz_undefined_key", Syntax: syn}) {
						return
					}
				}
				for _, iv := range []string{"map", "list", "null"} {
					if !yield(C16Case{Part: "unknown-key", Path: lv.Path, Inject: "zz_undefined_key", IVal: iv}) {
						return
					}
				}
			}
			// every string-valued leaf set at once to its own value: nothing may leak from one field into another
			for _, f := range Formats {
				for _, mode := range []string{"plain", "refs"} {
					if !yield(C16Case{Part: "all-at-once", Mode: mode, Fmt: f}) {
						return
					}
				}
			}
			// a mapping that answers every name: values without '$' stay as written
			for _, lf := range leaves {
				switch lf.Kind {
				case "string", "strptr", "strlist", "strmap":
					for _, v := range []string{"plain", "V", "  padded  "} {
						if !yield(C16Case{Part: "expand", Path: lf.Path, Kind: lf.Kind, Value: v, Env: hostileEnv}) {
							return
						}
					}
				}
			}
			underFmt := func(p []string) bool { return indexOf(p, "{fmt}") >= 0 }
			// variables whose values are blank or carry blanks: list items are trimmed after expansion and dropped when nothing is left
			// a variable whose value itself looks like a reference: substituted once, never re-expanded
			for _, lf := range leaves {
				switch lf.Kind {
				case "string", "strptr", "strlist", "strmap":
					for _, f := range []string{"", "ipk"} {
						if f != "" && !underFmt(lf.Path) {
							continue
						}
						if !yield(C16Case{Part: "expand", Path: lf.Path, Kind: lf.Kind, Value: "${V}", Env: map[string]string{"V": "$W-${W}", "W": "wal"}, Fmt: f}) {
							return
						}
					}
				}
			}
			blankEnvs := []map[string]string{{"V": " "}, {"V": " val "}, {"V": "\t\n"}, {"V": "val\n"}}
			for _, lf := range leaves {
				if lf.Kind != "strlist" {
					continue
				}
				for _, v := range []string{"${V}", " ${V} ", "pre-$V-post"} {
					for _, e := range blankEnvs {
						if !yield(C16Case{Part: "expand", Path: lf.Path, Kind: lf.Kind, Value: v, Env: e}) {
							return
						}
					}
				}
			}
			// the override block of every format is expanded like the base settings (deb is the default instantiation above)
			for _, f := range Formats[1:] {
				for _, lf := range leaves {
					if !underFmt(lf.Path) {
						continue
					}
					switch lf.Kind {
					case "string", "strptr", "strlist", "strmap":
						for _, v := range []string{"${V}", "  padded  ", "  $E  "} {
							if !yield(C16Case{Part: "expand", Path: lf.Path, Kind: lf.Kind, Value: v, Env: map[string]string{"V": "val", "project.version": "pv", "dist-name": "dn"}, Fmt: f}) {
								return
							}
						}
					}
				}
				for _, ex := range []string{"true", "false", "absent"} {
					for _, v := range c16Values {
						if !yield(C16Case{Part: "contents-expand", Path: []string{"overrides", "{fmt}", "contents"}, Value: v, Expand: ex, Env: map[string]string{"V": "val", "project.version": "pv", "dist-name": "dn"}, Fmt: f}) {
							return
						}
					}
				}
			}
			// null in place of every mapping, of an element of every list of mappings, and of every leaf ("key:" followed by
			// nothing, "-" alone): read as absent or refused with an error - never a crash
			for _, lv := range levels {
				if len(lv.Path) == 0 {
					continue
				}
				if !yield(C16Case{Part: "null", Path: lv.Path}) {
					return
				}
				if lv.Path[len(lv.Path)-1] == "[]" {
					// a null element next to a proper one
					if !yield(C16Case{Part: "null", Path: lv.Path, Kind: "second"}) {
						return
					}
				}
			}
			for _, lf := range leaves {
				if !yield(C16Case{Part: "null", Path: lf.Path, Kind: "leaf"}) {
					return
				}
			}
			// large documents: the tail of a document of 1.2 / 5 (thorough: 20) MiB is read like its head
			sizes := []uint{1200 << 10, 5 << 20}
			if env.Thorough() {
				sizes = append(sizes, 20<<20)
			}
			for _, sz := range sizes {
				for _, filler := range []string{"depends", "description", "contents", "comment", "deb-fields"} {
					for _, tail := range []string{"unknown", "unknown-nested", "ref", "plain", "none"} {
						if !yield(C16Case{Part: "large-doc", Kind: filler, Inject: tail, Present: sz}) {
							return
						}
					}
				}
			}
			if !env.Thorough() {
				return
			}
			for _, f := range Formats[1:] { // deb is the default instantiation above
				for _, lv := range levels {
					if !underFmt(lv.Path) {
						continue
					}
					for _, inj := range []string{"zz_undefined_key", "Name", "x-extra"} {
						if !yield(C16Case{Part: "unknown-key", Path: lv.Path, Inject: inj, Fmt: f}) {
							return
						}
					}
				}
				for _, lf := range leaves {
					if !underFmt(lf.Path) {
						continue
					}
					p := append(append([]string{}, lf.Path[:len(lf.Path)-1]...), lf.Path[len(lf.Path)-1]+"x")
					if !yield(C16Case{Part: "unknown-key", Path: p[:len(p)-1], Inject: p[len(p)-1], Kind: "misspelt:" + lf.Kind, Fmt: f}) {
						return
					}
				}
			}
			thEnvs := []map[string]string{{"V": "val", "W": "wal"}, {"V": "", "W": "wal"}, {"V": " spaced ", "W": "\n"}, hostileEnv}
			for _, f := range Formats {
				for _, lf := range leaves {
					switch lf.Kind {
					case "string", "strptr", "strlist", "strmap":
					default:
						continue
					}
					vals := c16ValuesThorough
					if f != "deb" {
						if !underFmt(lf.Path) {
							continue
						}
						vals = append(append([]string{}, c16Values...), c16ValuesThorough...)
					}
					for _, v := range vals {
						for _, e := range thEnvs {
							if !yield(C16Case{Part: "expand", Path: lf.Path, Kind: lf.Kind, Value: v, Env: e, Fmt: f}) {
								return
							}
						}
					}
				}
				for _, where := range [][]string{{"contents"}, {"overrides", "{fmt}", "contents"}} {
					if f != "deb" && len(where) == 1 {
						continue
					}
					for _, ex := range []string{"true", "false", "absent"} {
						for _, v := range append(append([]string{}, c16Values...), c16ValuesThorough...) {
							for _, e := range thEnvs {
								if f == "deb" && len(e) == 1 && e["V"] == "val" {
									continue
								}
								if !yield(C16Case{Part: "contents-expand", Path: where, Value: v, Expand: ex, Env: e, Fmt: f}) {
									return
								}
							}
						}
					}
				}
			}
			// every pair of documented expandable leaves, each referring to its own variable
			var docd []cfgLeaf
			documented, _ := env.Data["documented"].(map[string]bool)
			for _, lf := range leaves {
				k := pathKey(lf.Path)
				if documented[k] && !strings.Contains(k, "contents") {
					switch lf.Kind {
					case "string", "strptr", "strlist", "strmap":
						docd = append(docd, lf)
					}
				}
			}
			for i, a := range docd {
				for _, b := range docd[i+1:] {
					if !yield(C16Case{Part: "expand-pair", Path: a.Path, Kind: a.Kind, Path2: b.Path, Kind2: b.Kind}) {
						return
					}
				}
			}
		},
		Check: checkC16,
	})
}

func mappingOf(c C16Case) func(string) string {
	if c.NilMap {
		return nil
	}
	return envFunc(c.Env)
}

func envFunc(e map[string]string) func(string) string {
	return func(k string) string {
		if v, ok := e[k]; ok {
			return v
		}
		return e["*"]
	}
}

func pathKey(p []string) string {
	var out []string
	for _, s := range p {
		if s == "[]" {
			continue
		}
		out = append(out, s)
	}
	return strings.Join(out, ".")
}

func checkC16(env *engine.Env, ci any) engine.Outcome {
	c := ci.(C16Case)
	var out engine.Outcome
	out.Nontrivial = true
	documented := env.Data["documented"].(map[string]bool)
	overrideKey = "deb"
	if c.Fmt != "" {
		overrideKey = c.Fmt
	}
	viol := func(sig, format string, a ...any) {
		out.Violations = append(out.Violations, engine.Violation{Sig: sig, Detail: fmt.Sprintf(format, a...)})
	}
	switch c.Part {
	case "procenv":
		// references answered by the process environment: the value of a variable is everything after the FIRST '='
		vars := map[string]string{
			"NFPM_VERIF_EQ":      "https://example.com/dl?pkg=nfpm&v=1",
			"NFPM_VERIF_REL":     "libfoo (>= 1.2)",
			"NFPM_VERIF_EQEQ":    "a==b=",
			"NFPM_VERIF_LEADEQ":  "=leading",
			"NFPM_VERIF_PLAIN":   "plain-value",
			"NFPM_VERIF_DOLLARS": "cost $5 ${NOT_EXPANDED_AGAIN}",
		}
		for k, v := range vars {
			os.Setenv(k, v)
			defer os.Unsetenv(k)
		}
		d := c16Base()
		d["homepage"] = "${NFPM_VERIF_EQ}"
		d["vendor"] = "v:${NFPM_VERIF_EQEQ}:${NFPM_VERIF_LEADEQ}"
		d["description"] = "${NFPM_VERIF_DOLLARS} / ${NFPM_VERIF_PLAIN}"
		d["maintainer"] = "${NFPM_VERIF_PLAIN} <m@example.com>"
		d["depends"] = []any{"${NFPM_VERIF_REL}", "${NFPM_VERIF_PLAIN}", "${NFPM_VERIF_UNSET_VARIABLE}", "x${NFPM_VERIF_LEADEQ}"}
		text := fixture.Doc(d).YAML()
		var cfg nfpm.Config
		var err error
		if c.Kind == "Parse" {
			cfg, err = nfpm.Parse(strings.NewReader(text))
		} else {
			p := filepath.Join(env.Scratch, "c16-procenv.yaml")
			os.WriteFile(p, []byte(text), 0o644)
			cfg, err = nfpm.ParseFile(p)
			os.Remove(p)
		}
		out.Key = "procenv:" + c.Kind
		if err != nil {
			viol("expand:procenv:parse-error:"+c.Kind, "%s refuses a document whose references the process environment answers: %v\n%s", c.Kind, err, text)
			return out
		}
		want := map[string]string{"homepage": vars["NFPM_VERIF_EQ"], "vendor": "v:a==b=:=leading", "description": vars["NFPM_VERIF_DOLLARS"] + " / plain-value", "maintainer": "plain-value <m@example.com>"}
		got := map[string]string{"homepage": cfg.Homepage, "vendor": cfg.Vendor, "description": cfg.Description, "maintainer": cfg.Maintainer}
		for k, w := range want {
			if got[k] != w {
				viol("expand:procenv:"+k, "%s with the process environment %v: %s is %q, expected %q", c.Kind, vars, k, got[k], w)
			}
		}
		wantDeps := []string{"libfoo (>= 1.2)", "plain-value", "x=leading"}
		if fmt.Sprint(cfg.Depends) != fmt.Sprint(wantDeps) {
			viol("expand:procenv:depends", "%s with the process environment %v: depends is %q, expected %q", c.Kind, vars, cfg.Depends, wantDeps)
		}
		return out
	case "null":
		d := docWith(c16Base(), c.Path, nil)
		if c.Kind == "second" {
			// [ {}, null ]: a null element after a proper one
			d = docWith(c16Base(), append(append([]string{}, c.Path...), "zz"), "x")
			removeDeep(d, append(append([]string{}, c.Path...), "zz"))
			if !appendDeep(d, c.Path[:len(c.Path)-1], nil) {
				out.HarnessError = "cannot append a null element at " + pathKey(c.Path)
				return out
			}
		}
		text := fixture.Doc(d).YAML()
		out.Key = "null:" + pathKey(c.Path) + ":" + c.Kind
		for name, perr := range parseEntryPoints(env, text) {
			out.Transitions++
			if perr != nil && strings.Contains(perr.Error(), "PANIC") {
				viol("parse:panic:null:"+pathKey(c.Path), "through %s: %v\n%s", name, perr, text)
			}
		}
		cfg, perr := parseYAML(text, nil)
		if perr != nil {
			if strings.Contains(perr.Error(), "PANIC") {
				viol("parse:panic:null:"+pathKey(c.Path), "a document with null at %s crashes the parser: %v\n%s", pathKey(c.Path), perr, text)
			}
			return out
		}
		// accepted: the configuration can be validated and asked for every format's settings without a crash
		func() {
			defer func() {
				if r := recover(); r != nil {
					viol("parse:panic-after-parse:null:"+pathKey(c.Path), "a document with null at %s is accepted, then Validate crashes: %v\n%s", pathKey(c.Path), r, text)
				}
			}()
			_ = cfg.Validate()
		}()
		for _, f := range Formats {
			if _, gerr := safeGet(&cfg, f); gerr != nil && strings.Contains(gerr.Error(), "PANIC") {
				viol("parse:panic-after-parse:null:"+pathKey(c.Path), "a document with null at %s is accepted, then Get(%s) crashes: %v\n%s", pathKey(c.Path), f, gerr, text)
			}
			out.Transitions++
		}
		return out
	case "large-doc":
		checkC16Large(env, c, &out, viol)
		return out
	case "unknown-key":
		// a valid document that reaches the level, plus the undefined key there
		doc := c16Base()
		path := append(append([]string{}, c.Path...), c.Inject)
		var inj any = "x"
		switch c.IVal {
		case "map":
			inj = map[string]any{"a": "b"}
		case "list":
			inj = []any{"a", "b"}
		case "null":
			inj = nil
		}
		doc = docWith(doc, path, inj)
		text := fixture.Doc(doc).YAML()
		if c.Syntax != "" {
			var ok bool
			if text, ok = respell(text, c.Inject, c.Syntax); !ok {
				out.HarnessError = "cannot respell the injected key in:\n" + text
				return out
			}
		}
		// control: the same document without the injected key must parse (else the rejection proves nothing)
		ctrl := c16Base()
		if len(c.Path) > 0 {
			ctrl = docWith(ctrl, append(append([]string{}, c.Path...), "zz"), "x")
			removeDeep(ctrl, append(append([]string{}, c.Path...), "zz"))
		}
		_, cerr := parseYAML(fixture.Doc(ctrl).YAML(), noEnv)
		_, err := parseYAML(text, noEnv)
		out.Key = fmt.Sprintf("unknown:%s:%s:%s:%s:%s:%v", pathKey(c.Path), c.Inject, c.Syntax, c.IVal, c.Fmt, err != nil)
		if cerr != nil {
			out.HarnessError = fmt.Sprintf("control document for level %q does not parse: %v", pathKey(c.Path), cerr)
			return out
		}
		lvl := pathKey(c.Path)
		if lvl == "" {
			lvl = "(top)"
		}
		if err == nil {
			viol("parse:unknown-key-accepted:"+lvl, "document with the undefined key %q at level %q was accepted:\n%s", c.Inject, lvl, text)
		}
		// every way of handing the parser a document is strict: Parse, ParseFile(path), ParseFile("-") = stdin,
		// ParseFileWithEnvMapping
		for name, perr := range parseEntryPoints(env, text) {
			out.Transitions++
			if perr == nil {
				viol("parse:unknown-key-accepted:"+name+":"+lvl, "through %s the document with the undefined key %q at level %q was accepted:\n%s", name, c.Inject, lvl, text)
			}
		}
		for name, perr := range parseEntryPoints(env, fixture.Doc(ctrl).YAML()) {
			if perr != nil {
				out.HarnessError = fmt.Sprintf("control document does not parse through %s: %v", name, perr)
				return out
			}
		}
	case "expand":
		var val any = c.Value
		switch c.Kind {
		case "strlist":
			val = []any{c.Value, "keep"}
		case "strmap":
			val = map[string]any{"Key": c.Value}
		}
		doc := docWith(c16Base(), c.Path, val)
		if len(c.Path) > 0 && c.Path[0] == "overrides" {
			// the other formats have override blocks too: one without any setting, one with a setting of its own
			if ov, ok := doc["overrides"].(map[string]any); ok {
				for i, o := range Formats {
					if _, has := ov[o]; !has {
						if i%2 == 0 {
							ov[o] = nil
						} else {
							ov[o] = map[string]any{"umask": 0o027}
						}
					}
				}
			}
		}
		text := fixture.Doc(doc).YAML()
		cfg, err := parseYAML(text, mappingOf(c))
		if c.NilMap {
			cfg, err = nfpm.ParseWithEnvMapping(strings.NewReader(text), nil)
		}
		key := pathKey(c.Path)
		out.Key = fmt.Sprintf("expand:%s:%s:%q:%v:%v", key, c.Fmt, c.Value, c.Env, c.NilMap)
		if err != nil {
			// some leaves do not take arbitrary strings (enumerations are not validated at parse time; this is unexpected)
			viol("parse:rejects-valid:"+key, "document rejected: %v\n%s", err, text)
			return out
		}
		got, ok := getDeep(reflect.ValueOf(cfg), c.Path)
		if !ok {
			out.HarnessError = "cannot read back " + key
			return out
		}
		m := envFunc(c.Env)
		hasRef := strings.Contains(c.Value, "$")
		isContents := strings.Contains(key, "contents.")
		// whether or not a field is one of the documented expandable ones: no field is expanded TWICE (what a
		// variable resolves to is data, not another reference)
		if once := os.Expand(c.Value, m); hasRef {
			if twice := os.Expand(once, m); twice != once {
				if l := leafStrings(got, c.Kind); len(l) > 0 && strings.TrimSpace(l[0]) == strings.TrimSpace(twice) && strings.TrimSpace(twice) != "" {
					viol("expand:twice:"+key, "%s: %q under %v was read back as %q - the text the variable resolved to (%q) was expanded again", key, c.Value, c.Env, l[0], once)
					return out
				}
			}
		}
		switch c.Kind {
		case "string", "strptr":
			g := got.String()
			if c.Kind == "strptr" {
				if got.Kind() == reflect.Ptr {
					if got.IsNil() {
						g = ""
					} else {
						g = got.Elem().String()
					}
				}
			}
			if !hasRef {
				if g != c.Value {
					viol("expand:plain-value-changed:"+key, "%s: %q was read back as %q under mapping %v", key, c.Value, g, c.Env)
				}
				return out
			}
			if documented[key] && !isContents {
				want := os.Expand(c.Value, m)
				if want == "" {
					switch key {
					case "arch":
						want = "amd64"
					case "platform":
						want = "linux"
					case "description":
						want = "no description given"
					case "version":
						return out
					}
				}
				if g != want {
					viol("expand:documented-field:"+key, "%s is documented as expandable: %q under %v was read back as %q, expected %q", key, c.Value, c.Env, g, want)
				}
			}
		case "strlist":
			var g []string
			for i := 0; i < got.Len(); i++ {
				g = append(g, got.Index(i).String())
			}
			if !hasRef {
				want := []string{strings.TrimSpace(c.Value), "keep"}
				if strings.Join(g, "\x00") != strings.Join(want, "\x00") {
					if isExpandedList(key) || strings.TrimSpace(c.Value) == c.Value {
						viol("expand:plain-list-changed:"+key, "%s: [%q keep] was read back as %q under %v (items may only be whitespace-trimmed)", key, c.Value, g, c.Env)
					} else if strings.Join(g, "\x00") != strings.Join([]string{c.Value, "keep"}, "\x00") {
						viol("expand:plain-list-changed:"+key, "%s: [%q keep] was read back as %q under %v", key, c.Value, g, c.Env)
					}
				}
				return out
			}
			// a relation list that is documented as expandable is the same (overridable) field inside an override block
			docKey := strings.TrimPrefix(key, "overrides.{fmt}.")
			if documented[key] || (docKey != key && isExpandedList(docKey) && documented[docKey]) {
				var want []string
				for _, it := range []string{c.Value, "keep"} {
					if e := strings.TrimSpace(os.Expand(it, m)); e != "" {
						want = append(want, e)
					}
				}
				if strings.Join(g, "\x00") != strings.Join(want, "\x00") {
					viol("expand:documented-list:"+key, "%s is documented as expandable: [%q keep] under %v was read back as %q, expected %q", key, c.Value, c.Env, g, want)
				}
			}
		case "strmap":
			g := ""
			if e := got.MapIndex(reflect.ValueOf("Key")); e.IsValid() {
				g = e.String()
			}
			if !hasRef {
				if g != c.Value {
					viol("expand:plain-value-changed:"+key, "%s.Key: %q was read back as %q", key, c.Value, g)
				}
				return out
			}
			if documented[key] {
				if want := os.Expand(c.Value, m); g != want {
					viol("expand:documented-map:"+key, "%s values are documented as expandable: %q under %v was read back as %q, expected %q", key, c.Value, c.Env, g, want)
				}
			}
		}
	case "contents-expand":
		entry := map[string]any{"src": "s-" + c.Value, "dst": "/d-" + c.Value}
		switch c.Kind {
		case "dir", "ghost":
			entry["type"] = c.Kind
			delete(entry, "src")
		case "symlink":
			entry["type"] = c.Kind
		case "dst-only":
			delete(entry, "src")
		}
		switch c.Expand {
		case "true":
			entry["expand"] = true
		case "false":
			entry["expand"] = false
		}
		doc := docWith(c16Base(), c.Path, []any{entry})
		text := fixture.Doc(doc).YAML()
		cfg, err := parseYAML(text, mappingOf(c))
		out.Key = fmt.Sprintf("contents:%s:%s:%q:%s:%v", pathKey(c.Path), c.Fmt, c.Value, c.Expand, c.Env)
		if err != nil {
			viol("parse:rejects-valid:contents", "document rejected: %v\n%s", err, text)
			return out
		}
		v, ok := getDeep(reflect.ValueOf(cfg), append(append([]string{}, c.Path...), "[]"))
		if !ok {
			out.HarnessError = "cannot read back contents"
			return out
		}
		src, dst := v.FieldByName("Source").String(), v.FieldByName("Destination").String()
		wantSrc, wantDst := "s-"+c.Value, "/d-"+c.Value
		if _, has := entry["src"]; !has {
			wantSrc = ""
		}
		if c.Expand == "true" {
			m := envFunc(c.Env)
			wantSrc, wantDst = strings.TrimSpace(os.Expand(wantSrc, m)), strings.TrimSpace(os.Expand(wantDst, m))
		}
		out.Key += ":" + c.Kind
		if src != wantSrc || dst != wantDst {
			cls := "opted-in"
			if c.Expand != "true" {
				cls = "not-opted-in"
			}
			viol("expand:contents:"+cls+":"+pathKey(c.Path), "contents entry (expand: %s) src/dst %q,%q read back as %q,%q; expected %q,%q", c.Expand, entry["src"], entry["dst"], src, dst, wantSrc, wantDst)
		}
	case "expand-pair", "all-at-once":
		checkC16Multi(env, c, documented, &out, viol)
	case "passphrase":
		vars := []string{"NFPM_PASSPHRASE", "NFPM_DEB_PASSPHRASE", "NFPM_RPM_PASSPHRASE", "NFPM_APK_PASSPHRASE"}
		envm := map[string]string{}
		for i, v := range vars {
			if c.Present&(1<<uint(i)) != 0 {
				envm[v] = "pw-" + v
			}
		}
		cfg, err := parseYAML(fixture.Doc(c16Base()).YAML(), func(k string) string { return envm[k] })
		out.Key = fmt.Sprintf("passphrase:%04b", c.Present)
		if err != nil {
			out.HarnessError = err.Error()
			return out
		}
		want := func(specific string) string {
			if v := envm[specific]; v != "" {
				return v
			}
			return envm["NFPM_PASSPHRASE"]
		}
		for _, t := range []struct{ name, got, spec string }{
			{"deb", cfg.Deb.Signature.KeyPassphrase, "NFPM_DEB_PASSPHRASE"},
			{"rpm", cfg.RPM.Signature.KeyPassphrase, "NFPM_RPM_PASSPHRASE"},
			{"apk", cfg.APK.Signature.KeyPassphrase, "NFPM_APK_PASSPHRASE"},
		} {
			if t.got != want(t.spec) {
				viol("expand:passphrase:"+t.name, "variables set: %v; %s signing passphrase is %q, expected %q (format-specific variable first, general one as fallback)", sortedKeys(envm), t.name, t.got, want(t.spec))
			}
		}
	}
	return out
}

// leafStrings reads a leaf value back as strings (string: one; list: its items; map: the value under Key).
func leafStrings(got reflect.Value, kind string) []string {
	switch kind {
	case "string":
		return []string{got.String()}
	case "strptr":
		if got.Kind() == reflect.Ptr {
			if got.IsNil() {
				return nil
			}
			return []string{got.Elem().String()}
		}
		return []string{got.String()}
	case "strlist":
		var g []string
		for i := 0; i < got.Len(); i++ {
			g = append(g, got.Index(i).String())
		}
		return g
	case "strmap":
		if e := got.MapIndex(reflect.ValueOf("Key")); e.IsValid() {
			return []string{e.String()}
		}
	}
	return nil
}

// isExpandedList: lists the parser is documented to trim.
func isExpandedList(key string) bool {
	switch key {
	case "replaces", "provides", "depends", "recommends", "suggests", "conflicts":
		return true
	}
	return false
}

func sortedKeys(m map[string]string) []string {
	var ks []string
	for k := range m {
		ks = append(ks, k)
	}
	sort.Strings(ks)
	return ks
}

func removeDeep(m map[string]any, path []string) {
	key := path[0]
	if key == "{fmt}" {
		key = overrideKey
	}
	if len(path) == 1 {
		delete(m, key)
		return
	}
	if path[1] == "[]" {
		l, _ := m[key].([]any)
		if len(l) == 0 {
			return
		}
		if em, ok := l[0].(map[string]any); ok && len(path) > 2 {
			removeDeep(em, path[2:])
			// a contents element needs a dst to stay meaningful; the parser does not require it
		}
		return
	}
	if sub, ok := m[key].(map[string]any); ok {
		removeDeep(sub, path[1:])
	}
}

// parseEntryPoints parses text through every public entry point of the parser.
func parseEntryPoints(env *engine.Env, text string) map[string]error {
	res := map[string]error{}
	res["Parse"] = safeParse(func() (nfpm.Config, error) { return nfpm.Parse(strings.NewReader(text)) })
	p := filepath.Join(env.Scratch, "c16-entry.yaml")
	os.WriteFile(p, []byte(text), 0o644)
	defer os.Remove(p)
	res["ParseFile"] = safeParse(func() (nfpm.Config, error) { return nfpm.ParseFile(p) })
	res["ParseFileWithEnvMapping"] = safeParse(func() (nfpm.Config, error) { return nfpm.ParseFileWithEnvMapping(p, noEnv) })
	// the name of the file says nothing about how it is read
	for _, ext := range []string{".yml", ".json", ".conf", ""} {
		q := filepath.Join(env.Scratch, "c16-entry-other"+ext)
		os.WriteFile(q, []byte(text), 0o644)
		res["ParseFile(name"+ext+")"] = safeParse(func() (nfpm.Config, error) { return nfpm.ParseFile(q) })
		os.Remove(q)
	}
	if js, jerr := respellText(text, "json"); jerr == nil && !strings.Contains(text, "<<") && !strings.Contains(text, "? ") && !strings.Contains(text, "!!") {
		q := filepath.Join(env.Scratch, "c16-entry-flow.json")
		os.WriteFile(q, []byte(js), 0o644)
		res["ParseFile(flow style, name.json)"] = safeParse(func() (nfpm.Config, error) { return nfpm.ParseFile(q) })
		res["Parse(flow style)"] = safeParse(func() (nfpm.Config, error) { return nfpm.Parse(strings.NewReader(js)) })
		os.Remove(q)
	}
	if f, err := os.Open(p); err == nil {
		old := os.Stdin
		os.Stdin = f
		res["ParseFile(-)"] = safeParse(func() (nfpm.Config, error) { return nfpm.ParseFile("-") })
		os.Stdin = old
		f.Close()
	}
	return res
}

// safeParse runs one parser entry point; a panic inside it is reported as that call's error ("PANIC ...").
func safeParse(f func() (nfpm.Config, error)) (err error) {
	defer func() {
		if r := recover(); r != nil {
			err = fmt.Errorf("PANIC in the parser: %v", r)
		}
	}()
	_, err = f()
	return err
}

// respell rewrites the line "<key>: x" of a rendered document in another YAML spelling of the same mapping key.
func respell(text, key, syntax string) (string, bool) {
	re := regexp.MustCompile(`(?m)^(\s*(?:- )?)` + regexp.QuoteMeta(key) + `: x$`)
	m := re.FindStringSubmatchIndex(text)
	if m == nil {
		return text, false
	}
	prefix := text[m[2]:m[3]]
	pad := strings.Repeat(" ", len(prefix))
	var repl string
	switch syntax {
	case "quoted":
		repl = prefix + `"` + key + `": x`
	case "explicit":
		repl = prefix + "? " + key + "\n" + pad + ": x"
	case "merge":
		repl = prefix + "<<: {" + key + ": x}"
	case "tagged":
		repl = prefix + "!!str " + key + ": x"
	default:
		return text, false
	}
	return text[:m[0]] + repl + text[m[1]:], true
}

// leafDocValue wraps a string value the way the leaf's kind needs it in a document.
func leafDocValue(kind, v string) any {
	switch kind {
	case "strlist":
		return []any{v, "keep"}
	case "strmap":
		return map[string]any{"Key": v}
	}
	return v
}

// leafRead reads a leaf back as a list of strings (string: one item; list: its items; map: the value of Key).
func leafRead(cfg nfpm.Config, l cfgLeaf) ([]string, bool) {
	got, ok := getDeep(reflect.ValueOf(cfg), l.Path)
	if !ok {
		return nil, false
	}
	switch l.Kind {
	case "string":
		return []string{got.String()}, true
	case "strptr":
		if got.Kind() == reflect.Ptr {
			if got.IsNil() {
				return []string{""}, true
			}
			return []string{got.Elem().String()}, true
		}
		return []string{got.String()}, true
	case "strlist":
		var g []string
		for i := 0; i < got.Len(); i++ {
			g = append(g, got.Index(i).String())
		}
		return g, true
	case "strmap":
		if e := got.MapIndex(reflect.ValueOf("Key")); e.IsValid() {
			return []string{e.String()}, true
		}
		return []string{""}, true
	}
	return nil, false
}

// leafWant: what a leaf holding value v must read back as (expanded says whether the field is an expanded one).
func leafWant(kind, v string, expanded bool, m func(string) string) []string {
	if expanded {
		v = os.Expand(v, m)
	}
	if kind == "strlist" {
		return []string{v, "keep"}
	}
	return []string{v}
}

func checkC16Multi(env *engine.Env, c C16Case, documented map[string]bool, out *engine.Outcome, viol func(string, string, ...any)) {
	type set struct {
		leaf     cfgLeaf
		value    string
		expanded bool
	}
	var sets []set
	envm := map[string]string{}
	switch c.Part {
	case "expand-pair":
		sets = []set{{cfgLeaf{Path: c.Path, Kind: c.Kind}, "pre-${A}", true}, {cfgLeaf{Path: c.Path2, Kind: c.Kind2}, "${B}-post", true}}
		envm["A"], envm["B"] = "val-a", "val-b"
		out.Key = fmt.Sprintf("pair:%s:%s", pathKey(c.Path), pathKey(c.Path2))
	case "all-at-once":
		leaves, _ := configShape()
		for i, lf := range leaves {
			switch lf.Kind {
			case "string", "strptr", "strlist", "strmap":
			default:
				continue
			}
			k := pathKey(lf.Path)
			if k == "version_schema" {
				continue // stays "none": the version is then taken verbatim
			}
			if c.Mode == "refs" && documented[k] && !strings.Contains(k, "contents") {
				name := fmt.Sprintf("V%d", i)
				envm[name] = fmt.Sprintf("val%d-%s", i, k)
				sets = append(sets, set{lf, "${" + name + "}", true})
			} else {
				sets = append(sets, set{lf, fmt.Sprintf("u%d-%s", i, k), false})
			}
		}
		envm["*"] = "HOSTILE"
		out.Key = "all-at-once:" + c.Mode + ":" + c.Fmt
	}
	doc := c16Base()
	for _, s := range sets {
		setDeep(doc, s.leaf.Path, leafDocValue(s.leaf.Kind, s.value))
	}
	text := fixture.Doc(doc).YAML()
	m := envFunc(envm)
	cfg, err := parseYAML(text, m)
	if err != nil {
		viol("parse:rejects-valid:"+c.Part, "document rejected: %v\n%s", err, text)
		return
	}
	out.Transitions += len(sets)
	for _, s := range sets {
		key := pathKey(s.leaf.Path)
		got, ok := leafRead(cfg, s.leaf)
		if !ok {
			out.HarnessError = "cannot read back " + key
			return
		}
		want := leafWant(s.leaf.Kind, s.value, s.expanded, m)
		if strings.Join(got, "\x00") != strings.Join(want, "\x00") {
			cls := "plain-value-changed"
			if s.expanded {
				cls = "documented-field"
			}
			viol("expand:"+cls+":"+c.Part+":"+key, "%s set to %q together with %d other fields (mapping %v): read back as %q, expected %q", key, s.value, len(sets)-1, envm, got, want)
		}
	}
}

var c16Pad = strings.Repeat("pad ", 250)

// c16LargeDoc writes a document whose filler block of about size bytes sits between the head and the tail; it returns
// the text and the number of filler items.
func c16LargeDoc(filler, tail string, size int) (string, int) {
	var b strings.Builder
	b.Grow(size + 4096)
	b.WriteString("name: pkg\narch: amd64\nversion: 1.2.3\nversion_schema: none\n")
	n := 0
	switch filler {
	case "depends":
		b.WriteString("depends:\n")
		for b.Len() < size {
			fmt.Fprintf(&b, "- libfiller%07d\n", n)
			n++
		}
	case "description":
		b.WriteString("description: |\n")
		for b.Len() < size {
			fmt.Fprintf(&b, "  line %07d of a long description\n", n)
			n++
		}
	case "contents":
		b.WriteString("contents:\n")
		for b.Len() < size {
			fmt.Fprintf(&b, "- dst: /srv/d/%07d\n  type: dir\n", n)
			n++
		}
	case "comment":
		for b.Len() < size {
			fmt.Fprintf(&b, "# comment line %07d\n", n)
			n++
		}
	case "deb-fields":
		b.WriteString("deb:\n  fields:\n")
		for b.Len() < size {
			// long values: the YAML library's duplicate-key check is quadratic in the number of keys of one mapping
			fmt.Fprintf(&b, "    X-Filler-%07d: %s v%d\n", n, c16Pad, n)
			n++
		}
	}
	switch tail {
	case "unknown":
		b.WriteString("zz_undefined_key: true\n")
	case "unknown-nested":
		b.WriteString("rpm:\n  zz_undefined_key: true\n")
	case "ref":
		b.WriteString("homepage: https://${C16_TAIL}/x\nvendor: $C16_TAIL\n")
	case "plain":
		b.WriteString("homepage: https://example.org/tail\nvendor: tail\n")
	}
	return b.String(), n
}

// checkC16Large: a document is read to its end whatever its size - an undefined key behind megabytes of valid
// settings is rejected, a reference there is expanded, and every filler item arrives.
func checkC16Large(env *engine.Env, c C16Case, out *engine.Outcome, viol func(string, string, ...any)) {
	text, n := c16LargeDoc(c.Kind, c.Inject, int(c.Present))
	mapping := func(k string) string {
		if k == "C16_TAIL" {
			return "tail.example"
		}
		return ""
	}
	cls := fmt.Sprintf("%s:%s:%dKiB", c.Kind, c.Inject, c.Present>>10)
	results := map[string]struct {
		cfg nfpm.Config
		err error
	}{}
	cfg, err := parseYAML(text, mapping)
	results["ParseWithEnvMapping"] = struct {
		cfg nfpm.Config
		err error
	}{cfg, err}
	out.Transitions++
	// through a file as well (ParseFileWithEnvMapping)
	p := filepath.Join(env.Scratch, fmt.Sprintf("c16-large-%d.yaml", os.Getpid()))
	if werr := os.WriteFile(p, []byte(text), 0o644); werr != nil {
		out.HarnessError = werr.Error()
		return
	}
	defer os.Remove(p)
	fcfg, ferr := func() (cfg nfpm.Config, err error) {
		defer func() {
			if r := recover(); r != nil {
				err = fmt.Errorf("PANIC in nfpm.ParseFileWithEnvMapping: %v", r)
			}
		}()
		return nfpm.ParseFileWithEnvMapping(p, mapping)
	}()
	results["ParseFileWithEnvMapping"] = struct {
		cfg nfpm.Config
		err error
	}{fcfg, ferr}
	out.Transitions++
	out.Key = fmt.Sprintf("large:%s:%v:%v", cls, err != nil, ferr != nil)
	for _, name := range []string{"ParseWithEnvMapping", "ParseFileWithEnvMapping"} {
		r := results[name]
		switch c.Inject {
		case "unknown", "unknown-nested":
			if r.err == nil {
				viol("parse:unknown-key-accepted:large-doc:"+c.Inject, "%s accepted a document of %d bytes (%s filler, %d items) whose last line holds an undefined key", name, len(text), c.Kind, n)
			}
			continue
		}
		if r.err != nil {
			viol("parse:large-doc-rejected:"+c.Kind, "%s rejected a valid document of %d bytes (%s filler, %d items): %v", name, len(text), c.Kind, n, r.err)
			continue
		}
		wantHome, wantVendor := "", ""
		switch c.Inject {
		case "ref":
			wantHome, wantVendor = "https://tail.example/x", "tail.example"
		case "plain":
			wantHome, wantVendor = "https://example.org/tail", "tail"
		}
		if r.cfg.Homepage != wantHome || r.cfg.Vendor != wantVendor {
			viol("expand:large-doc-tail:"+c.Inject, "%s: after %d bytes of %s filler the tail settings read homepage=%q vendor=%q, want %q %q", name, len(text), c.Kind, r.cfg.Homepage, r.cfg.Vendor, wantHome, wantVendor)
		}
		got, last, wantLast := -1, "", ""
		switch c.Kind {
		case "depends":
			got = len(r.cfg.Depends)
			wantLast = fmt.Sprintf("libfiller%07d", n-1)
			if got > 0 {
				last = r.cfg.Depends[got-1]
			}
		case "contents":
			got = len(r.cfg.Contents)
			wantLast = fmt.Sprintf("/srv/d/%07d", n-1)
			if got > 0 {
				last = r.cfg.Contents[got-1].Destination
			}
		case "deb-fields":
			got = len(r.cfg.Deb.Fields)
			wantLast = fmt.Sprintf("%s v%d", c16Pad, n-1)
			last = r.cfg.Deb.Fields[fmt.Sprintf("X-Filler-%07d", n-1)]
		case "description":
			got = strings.Count(r.cfg.Description, "\n")
			if !strings.HasSuffix(r.cfg.Description, "\n") {
				got++
			}
			wantLast = fmt.Sprintf("line %07d of a long description", n-1)
			ls := strings.Split(strings.TrimRight(r.cfg.Description, "\n"), "\n")
			last = ls[len(ls)-1]
		default:
			continue
		}
		if got != n || last != wantLast {
			viol("parse:large-doc-truncated:"+c.Kind, "%s: of %d %s items %d arrived, the last one %q (want %q)", name, n, c.Kind, got, last, wantLast)
		}
	}
}

// appendDeep appends value to the list found at the key path (which may pass through list elements: the first one).
func appendDeep(m map[string]any, path []string, value any) bool {
	cur := any(m)
	for i, k := range path {
		if k == "{fmt}" {
			k = overrideKey
		}
		if k == "[]" {
			l, ok := cur.([]any)
			if !ok || len(l) == 0 {
				return false
			}
			cur = l[0]
			continue
		}
		mm, ok := cur.(map[string]any)
		if !ok {
			return false
		}
		if i == len(path)-1 {
			l, ok := mm[k].([]any)
			if !ok {
				return false
			}
			mm[k] = append(l, value)
			return true
		}
		cur = mm[k]
	}
	return false
}
