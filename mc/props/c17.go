package props

import (
	"bytes"
	"encoding/json"
	"fmt"
	"os"
	"os/exec"
	"path/filepath"
	"reflect"
	"regexp"
	"sort"
	"strings"

	"verif/mc/engine"
	"verif/mc/fixture"
	"verif/mc/model"

	"github.com/goreleaser/nfpm/v2"
	yaml "gopkg.in/yaml.v3"
)

// C17Case is one document (or the published-file comparison) judged against the schema.
type C17Case struct {
	Part   string         `json:"part"` // published | path | enum | config | python-batch
	Path   []string       `json:"path,omitempty"`
	Kind   string         `json:"kind,omitempty"`
	Value  string         `json:"value,omitempty"`
	Format string         `json:"format,omitempty"`
	Doc    map[string]any `json:"doc,omitempty"`
	// Written: env-enum - the value as written in the document (a reference to $V, or the value padded with blanks);
	// Value is what V resolves to
	Written string   `json:"written,omitempty"`
	Path2   []string `json:"path2,omitempty"`
	Kind2   string   `json:"kind2,omitempty"`
}

type schemaCtx struct {
	raw    []byte
	stdout []byte
	root   map[string]any
	defs   map[string]any
	over   map[string][]byte // what -o leaves when a file already exists at the path
}

func setupC17(env *engine.Env) error {
	if err := setupTree(env); err != nil {
		return err
	}
	bin, err := nfpmBinary(env)
	if err != nil {
		return err
	}
	outp := filepath.Join(env.Scratch, "schema-out", "schema.json")
	if b, err := exec.Command(bin, "jsonschema", "-o", outp).CombinedOutput(); err != nil {
		return fmt.Errorf("nfpm jsonschema -o: %v: %s", err, b)
	}
	raw, err := os.ReadFile(outp)
	if err != nil {
		return err
	}
	// -o spelled as a bare file name, ./name and sub/dir/name relative to the working directory
	over0 := map[string][]byte{}
	for name, arg := range map[string]string{"bare-name": "bare.json", "dot-slash": "./dot.json", "nested-new-dir": "new/sub/dir/nested.json"} {
		wd := filepath.Join(env.Scratch, "schema-out", "cwd-"+name)
		os.MkdirAll(wd, 0o755)
		cmd := exec.Command(bin, "jsonschema", "-o", arg)
		cmd.Dir = wd
		if b, err := cmd.CombinedOutput(); err != nil {
			over0[name] = []byte(fmt.Sprintf("command failed: %v: %s", err, b))
			continue
		}
		over0[name], _ = os.ReadFile(filepath.Join(wd, arg))
	}
	// the same command again over files that already exist at the -o path (a longer one, a shorter one)
	over := map[string][]byte{}
	for name, old := range map[string][]byte{"longer": append(append([]byte{}, raw...), bytes.Repeat([]byte("\n\"x-removed\": true}"), 40)...), "shorter": []byte("{}\n")} {
		p := filepath.Join(env.Scratch, "schema-out", "over-"+name+".json")
		if err := os.WriteFile(p, old, 0o644); err != nil {
			return err
		}
		if b, err := exec.Command(bin, "jsonschema", "-o", p).CombinedOutput(); err != nil {
			return fmt.Errorf("nfpm jsonschema -o (existing file): %v: %s", err, b)
		}
		over[name], _ = os.ReadFile(p)
	}
	for k, v := range over0 {
		over[k] = v
	}
	// a binary built the way a release is (version, commit and date stamped in by the linker) writes the same file
	relBin := filepath.Join(env.Scratch, "nfpm-release-bin")
	rb := exec.Command("go", "build", "-ldflags", "-s -w -X main.version=2.43.0 -X main.commit=0123456789abcdef -X main.date=2024-05-10T08:30:00Z -X main.builtBy=goreleaser -X main.treeState=false", "-o", relBin, "./cmd/nfpm")
	rb.Dir = env.Repo
	rb.Env = append(os.Environ(), "GOFLAGS=-mod=mod", "GOPROXY=off", "GOSUMDB=off", "GOTOOLCHAIN=local")
	if b, err := rb.CombinedOutput(); err != nil {
		return fmt.Errorf("go build (release flags) ./cmd/nfpm: %v: %s", err, b)
	}
	relOut := filepath.Join(env.Scratch, "schema-out", "release.json")
	if b, err := exec.Command(relBin, "jsonschema", "-o", relOut).CombinedOutput(); err != nil {
		over["release-build"] = []byte(fmt.Sprintf("command failed: %v: %s", err, b))
	} else {
		over["release-build"], _ = os.ReadFile(relOut)
	}
	os.Remove(relBin)
	// a device that takes no byte as -o: the command must not claim to have written the file
	if _, err := os.Stat("/dev/full"); err == nil {
		if b, err := exec.Command(bin, "jsonschema", "-o", "/dev/full").CombinedOutput(); err == nil {
			over["write-failure-unreported"] = []byte(fmt.Sprintf("`nfpm jsonschema -o /dev/full` exits 0 although nothing can be written there: %s", b))
		}
	}
	so, err := exec.Command(bin, "jsonschema").Output()
	if err != nil {
		return fmt.Errorf("nfpm jsonschema: %v", err)
	}
	var root map[string]any
	if err := json.Unmarshal(raw, &root); err != nil {
		return fmt.Errorf("schema is not JSON: %v", err)
	}
	defs, _ := root["$defs"].(map[string]any)
	env.Data["schema"] = &schemaCtx{raw: raw, stdout: so, root: root, defs: defs, over: over}
	return nil
}

// ---- mini validator for the subset of JSON Schema the nfpm schema uses ----

func (s *schemaCtx) resolve(sch map[string]any) (map[string]any, error) {
	for {
		ref, ok := sch["$ref"].(string)
		if !ok {
			return sch, nil
		}
		const pfx = "#/$defs/"
		if !strings.HasPrefix(ref, pfx) {
			return nil, fmt.Errorf("unsupported $ref %q", ref)
		}
		d, ok := s.defs[strings.TrimPrefix(ref, pfx)].(map[string]any)
		if !ok {
			return nil, fmt.Errorf("dangling $ref %q", ref)
		}
		sch = d
	}
}

var knownKeywords = map[string]bool{"$ref": true, "$schema": true, "$id": true, "$defs": true, "type": true, "properties": true, "additionalProperties": true,
	"required": true, "enum": true, "items": true, "format": true, "title": true, "description": true, "default": true, "examples": true,
	"const": true, "propertyNames": true, "patternProperties": true, "pattern": true, "minLength": true, "maxLength": true, "minItems": true, "maxItems": true,
	"uniqueItems": true, "minimum": true, "maximum": true, "anyOf": true, "oneOf": true, "allOf": true, "not": true, "minProperties": true, "maxProperties": true,
	"$comment": true, "deprecated": true, "readOnly": true, "writeOnly": true}

func typeOK(t string, v any) (bool, bool) {
	switch t {
	case "object":
		_, ok := v.(map[string]any)
		return ok, true
	case "array":
		_, ok := v.([]any)
		return ok, true
	case "string":
		_, ok := v.(string)
		return ok, true
	case "boolean":
		_, ok := v.(bool)
		return ok, true
	case "integer":
		f, isNum := v.(float64)
		return isNum && f == float64(int64(f)), true
	case "number":
		_, ok := v.(float64)
		return ok, true
	case "null":
		return v == nil, true
	}
	return false, false
}

// validate returns the reasons v does not conform to sch ("" path = root). It covers the JSON Schema keywords a
// generated schema of this kind can reasonably contain; anything else is reported as unsupported (harness error).
func (s *schemaCtx) validate(schAny map[string]any, v any, at string, errs *[]string, unsupported *[]string) {
	sch := schAny
	if _, isRef := sch["$ref"]; isRef {
		r, err := s.resolve(sch)
		if err != nil {
			*unsupported = append(*unsupported, err.Error())
			return
		}
		sch = r
	}
	for k := range sch {
		if !knownKeywords[k] {
			*unsupported = append(*unsupported, "keyword "+k)
		}
	}
	sub := func(x any) (map[string]any, bool) {
		switch t := x.(type) {
		case map[string]any:
			return t, true
		case bool:
			if t {
				return map[string]any{}, true
			}
			return map[string]any{"not": map[string]any{}}, true
		}
		return nil, false
	}
	valid := func(x any, val any) bool {
		m, ok := sub(x)
		if !ok {
			return true
		}
		var e []string
		s.validate(m, val, at, &e, unsupported)
		return len(e) == 0
	}
	switch t := sch["type"].(type) {
	case string:
		ok, known := typeOK(t, v)
		if !known {
			*unsupported = append(*unsupported, "type "+t)
			return
		}
		if !ok {
			*errs = append(*errs, fmt.Sprintf("%s: value %v is not of type %s", at, v, t))
			return
		}
	case []any:
		any1 := false
		for _, tt := range t {
			if ts, ok := tt.(string); ok {
				if ok2, _ := typeOK(ts, v); ok2 {
					any1 = true
				}
			}
		}
		if !any1 {
			*errs = append(*errs, fmt.Sprintf("%s: value %v is of none of the types %v", at, v, t))
			return
		}
	}
	if en, ok := sch["enum"].([]any); ok {
		found := false
		for _, e := range en {
			if reflect.DeepEqual(e, v) {
				found = true
			}
		}
		if !found {
			*errs = append(*errs, fmt.Sprintf("%s: value %q is not one of %v", at, v, en))
		}
	}
	if c, ok := sch["const"]; ok && !reflect.DeepEqual(c, v) {
		*errs = append(*errs, fmt.Sprintf("%s: value %v is not the constant %v", at, v, c))
	}
	if str, ok := v.(string); ok {
		if p, ok := sch["pattern"].(string); ok {
			if re, err := regexp.Compile(p); err != nil {
				*unsupported = append(*unsupported, "pattern "+p)
			} else if !re.MatchString(str) {
				*errs = append(*errs, fmt.Sprintf("%s: %q does not match pattern %s", at, str, p))
			}
		}
		n := float64(len([]rune(str)))
		if m, ok := sch["minLength"].(float64); ok && n < m {
			*errs = append(*errs, fmt.Sprintf("%s: %q is shorter than %v", at, str, m))
		}
		if m, ok := sch["maxLength"].(float64); ok && n > m {
			*errs = append(*errs, fmt.Sprintf("%s: %q is longer than %v", at, str, m))
		}
	}
	if num, ok := v.(float64); ok {
		if m, ok := sch["minimum"].(float64); ok && num < m {
			*errs = append(*errs, fmt.Sprintf("%s: %v is below the minimum %v", at, num, m))
		}
		if m, ok := sch["maximum"].(float64); ok && num > m {
			*errs = append(*errs, fmt.Sprintf("%s: %v is above the maximum %v", at, num, m))
		}
	}
	if obj, ok := v.(map[string]any); ok {
		props, _ := sch["properties"].(map[string]any)
		pprops, _ := sch["patternProperties"].(map[string]any)
		for _, r := range anyStrings(sch["required"]) {
			if _, has := obj[r]; !has {
				*errs = append(*errs, fmt.Sprintf("%s: required key %q missing", at, r))
			}
		}
		if m, ok := sch["minProperties"].(float64); ok && float64(len(obj)) < m {
			*errs = append(*errs, fmt.Sprintf("%s: fewer than %v keys", at, m))
		}
		if m, ok := sch["maxProperties"].(float64); ok && float64(len(obj)) > m {
			*errs = append(*errs, fmt.Sprintf("%s: more than %v keys", at, m))
		}
		pn, hasPN := sub(sch["propertyNames"])
		for k, val := range obj {
			if hasPN && sch["propertyNames"] != nil {
				var e []string
				s.validate(pn, k, at+"/"+k, &e, unsupported)
				if len(e) > 0 {
					*errs = append(*errs, fmt.Sprintf("%s: key %q is not an allowed key name (%s)", at, k, strings.Join(e, "; ")))
				}
			}
			matched := false
			if ps, ok := props[k].(map[string]any); ok {
				s.validate(ps, val, at+"/"+k, errs, unsupported)
				matched = true
			}
			for pat, ps := range pprops {
				re, err := regexp.Compile(pat)
				if err != nil {
					*unsupported = append(*unsupported, "patternProperties "+pat)
					continue
				}
				if re.MatchString(k) {
					if pm, ok := sub(ps); ok {
						s.validate(pm, val, at+"/"+k, errs, unsupported)
					}
					matched = true
				}
			}
			if matched {
				continue
			}
			switch ap := sch["additionalProperties"].(type) {
			case bool:
				if !ap {
					*errs = append(*errs, fmt.Sprintf("%s: key %q is not allowed", at, k))
				}
			case map[string]any:
				s.validate(ap, val, at+"/"+k, errs, unsupported)
			}
		}
	}
	if arr, ok := v.([]any); ok {
		if it, ok := sub(sch["items"]); ok && sch["items"] != nil {
			for i, e := range arr {
				s.validate(it, e, fmt.Sprintf("%s/%d", at, i), errs, unsupported)
			}
		}
		if m, ok := sch["minItems"].(float64); ok && float64(len(arr)) < m {
			*errs = append(*errs, fmt.Sprintf("%s: fewer than %v items", at, m))
		}
		if m, ok := sch["maxItems"].(float64); ok && float64(len(arr)) > m {
			*errs = append(*errs, fmt.Sprintf("%s: more than %v items", at, m))
		}
		if u, _ := sch["uniqueItems"].(bool); u {
			for i := range arr {
				for j := i + 1; j < len(arr); j++ {
					if reflect.DeepEqual(arr[i], arr[j]) {
						*errs = append(*errs, fmt.Sprintf("%s: items %d and %d are equal", at, i, j))
					}
				}
			}
		}
	}
	if l, ok := sch["allOf"].([]any); ok {
		for i, x := range l {
			if !valid(x, v) {
				*errs = append(*errs, fmt.Sprintf("%s: allOf branch %d fails", at, i))
			}
		}
	}
	if l, ok := sch["anyOf"].([]any); ok {
		n := 0
		for _, x := range l {
			if valid(x, v) {
				n++
			}
		}
		if n == 0 {
			*errs = append(*errs, fmt.Sprintf("%s: no anyOf branch matches", at))
		}
	}
	if l, ok := sch["oneOf"].([]any); ok {
		n := 0
		for _, x := range l {
			if valid(x, v) {
				n++
			}
		}
		if n != 1 {
			*errs = append(*errs, fmt.Sprintf("%s: %d oneOf branches match", at, n))
		}
	}
	if x, ok := sch["not"]; ok && valid(x, v) {
		*errs = append(*errs, fmt.Sprintf("%s: matches the schema under not", at))
	}
}

func anyStrings(v any) []string {
	var out []string
	if l, ok := v.([]any); ok {
		for _, e := range l {
			if s, ok := e.(string); ok {
				out = append(out, s)
			}
		}
	}
	return out
}

// schemaPaths walks the schema and lists every key path it allows.
func (s *schemaCtx) paths(sch map[string]any, prefix []string, out map[string]bool, depth int) {
	if depth > 12 {
		return
	}
	sch, err := s.resolve(sch)
	if err != nil {
		return
	}
	if props, ok := sch["properties"].(map[string]any); ok {
		for k, ps := range props {
			p := append(append([]string{}, prefix...), k)
			if pm, ok := ps.(map[string]any); ok {
				r, _ := s.resolve(pm)
				if r != nil {
					_, hasProps := r["properties"]
					_, hasAP := r["additionalProperties"].(map[string]any)
					_, hasItems := r["items"]
					if !hasProps && !hasAP && !hasItems {
						out[strings.Join(p, ".")] = true
					}
					if t, _ := r["type"].(string); t == "object" && !hasProps && !hasAP {
						out[strings.Join(p, ".")] = true
					}
				}
				s.paths(pm, p, out, depth+1)
			}
		}
	}
	// keys allowed by pattern: one concrete key per pattern stands for them (an anchored literal prefix is completed;
	// any other pattern is named as such - the strict parser defines no key by pattern, so it is a path of the schema
	// the parser lacks unless the level is a free-form map there)
	if pp, ok := sch["patternProperties"].(map[string]any); ok {
		for pat, v := range pp {
			if b, isBool := v.(bool); isBool && !b {
				continue // a pattern that forbids
			}
			key := "{pattern " + pat + "}"
			if m := regexp.MustCompile(`^\^([A-Za-z0-9_-]+)$`).FindStringSubmatch(pat); m != nil {
				key = m[1] + "verif"
			}
			out[strings.Join(append(append([]string{}, prefix...), key), ".")] = true
		}
	}
	if ap, ok := sch["additionalProperties"].(map[string]any); ok {
		r, _ := s.resolve(ap)
		if r != nil {
			if _, hasProps := r["properties"]; hasProps {
				s.paths(ap, append(append([]string{}, prefix...), "{fmt}"), out, depth+1)
			} else {
				out[strings.Join(prefix, ".")] = true // free-form map (fields)
			}
		}
	}
	if it, ok := sch["items"].(map[string]any); ok {
		r, _ := s.resolve(it)
		if r != nil {
			if _, hasProps := r["properties"]; hasProps {
				s.paths(it, append(append([]string{}, prefix...), "[]"), out, depth+1)
			} else {
				out[strings.Join(prefix, ".")] = true // list of scalars
			}
		}
	}
}

// c17Shapes lists the other YAML *structures* a leaf of the given kind is fed with (scalar / list / map). Scalar
// typing (a number, a boolean or nothing where a string is expected, a float for an integer) is not part of the
// alphabet: there the YAML decoder converts silently, which is yaml.v3's leniency and not a documented nfpm setting;
// the places where the documentation itself writes a number are covered by part docs-example.
func c17Shapes(kind string) []string {
	switch kind {
	case "string", "strptr":
		return []string{"list", "map"}
	case "strlist":
		return []string{"scalar-string", "map"}
	case "strmap":
		return []string{"scalar-string", "list"}
	case "int":
		// a number written as a string (quoted): if the parser takes it, the schema must
		return []string{"list", "map", "octal-string", "octal-o-string", "numeric-string"}
	case "bool", "time":
		return []string{"list", "map"}
	}
	return nil
}

func parserPaths() map[string]cfgLeaf {
	leaves, _ := configShape()
	out := map[string]cfgLeaf{}
	for _, l := range leaves {
		out[strings.Join(l.Path, ".")] = l
	}
	return out
}

func leafSample(l cfgLeaf) any {
	// enumerated settings get a value their packager accepts
	key := pathKey(l.Path)
	for _, e := range c17Enums {
		ek := pathKey(e.path)
		if key == ek || strings.HasSuffix(key, "."+ek) {
			return e.values[1]
		}
	}
	switch l.Kind {
	case "string", "strptr":
		return "x"
	case "strlist":
		return []any{"x"}
	case "strmap":
		return map[string]any{"K": "v"}
	case "bool":
		return true
	case "int":
		return 5
	case "time":
		return PkgMTime
	}
	return "x"
}

// mergeDocs overlays b on a (maps merged recursively, first list elements merged, everything else replaced).
func mergeDocs(a, b map[string]any) map[string]any {
	out := deepCopyMap(a)
	for k, v := range b {
		switch bv := v.(type) {
		case map[string]any:
			if av, ok := out[k].(map[string]any); ok {
				out[k] = mergeDocs(av, bv)
				continue
			}
		case []any:
			if av, ok := out[k].([]any); ok && len(av) > 0 && len(bv) > 0 {
				am, ok1 := av[0].(map[string]any)
				bm, ok2 := bv[0].(map[string]any)
				if ok1 && ok2 {
					out[k] = []any{mergeDocs(am, bm)}
					continue
				}
			}
		}
		out[k] = v
	}
	return out
}

func toJSONValue(d map[string]any) (any, error) {
	b, err := json.Marshal(d)
	if err != nil {
		return nil, err
	}
	var v any
	err = json.Unmarshal(b, &v)
	return v, err
}

var c17Enums = []struct {
	path   []string
	values []string
	format string
}{
	{[]string{"contents", "[]", "type"}, []string{"", "file", "config", "config|noreplace", "config|missingok", "dir", "symlink", "tree", "ghost", "doc", "licence", "license", "readme"}, "rpm"},
	// documented values first, then candidates a packager might also take (a value that does not build is not judged)
	{[]string{"deb", "compression"}, []string{"gzip", "xz", "zstd", "none", "gzip:9", "gzip:-1", "zstd:19", "zstd:3", "zstd:fastest", "xz:6", "none:0", "GZIP", "Zstd", "gz", "bzip2"}, "deb"},
	{[]string{"rpm", "compression"}, []string{"gzip", "lzma", "xz", "zstd", "gzip:9", "gzip:-1", "zstd:fastest", "zstd:3", "zstd:best", "zstd:default", "xz:6", "lzma:5", "gzip:0", "GZIP", "none", "bzip2"}, "rpm"},
	{[]string{"deb", "signature", "method"}, []string{"debsign", "dpkg-sig"}, "deb"},
	{[]string{"deb", "signature", "type"}, []string{"origin", "maint", "archive"}, "deb"},
	{[]string{"version_schema"}, []string{"semver", "none"}, "deb"},
	{[]string{"overrides", "{key}"}, []string{"deb", "rpm", "apk", "ipk", "archlinux"}, "deb"},
	{[]string{"platform"}, []string{"linux", "darwin"}, "deb"},
	{[]string{"arch"}, []string{"all", "amd64", "386", "arm5", "arm6", "arm7", "arm64", "mips", "mipsle", "mips64le", "ppc64le", "s390"}, "deb"},
}

func c17Base() map[string]any {
	return map[string]any{"name": "pkg", "arch": "amd64", "version": "1.2.3", "maintainer": "M <m@example.com>", "description": "d"}
}

func init() {
	engine.Register(&engine.Prop{
		ID:    "C17",
		Level: "model_checking",
		Rule: "published: the schema the built nfpm binary writes (-o file) byte-compared with www/docs/static/schema.json; path: the union of the parser's key paths (reflection over yaml tags of the tree under test) and the schema's key paths, each judged in both directions and exercised with a minimal document through the real parser and the validator; " +
			"enum: every documented / packager-accepted value of every enumerated setting (13 content types, deb and rpm compressions incl. algo:level, signature method/type, version_schema, override keys, platforms, documented architectures) in a document the parser accepts and the packager builds must validate; " +
			"config: the C01 entry templates and C02 metadata configurations as JSON; python-batch: python jsonschema (Draft 2020-12) re-judges every document of the run and must agree with the harness validator; non-trivial = document accepted by parser and packager; distinct = distinct (part, path/value, verdicts)",
		Assumptions: []string{
			"harness validator covers the keywords the schema uses (type, properties, additionalProperties, required, enum, items, $ref); an unknown keyword is a harness error; python jsonschema is the second opinion on every document",
			"documents omitting the schema's required keys (name, arch, version) are not used",
		},
		Setup:      setupC17,
		Decode:     decodeInto[C17Case],
		MaxWorkers: 4,
		Bounds: func(env *engine.Env) map[string]any {
			return map[string]any{"parser_paths": len(parserPaths()), "enumerated_settings": len(c17Enums)}
		},
		Enumerate: enumC17,
		Check:     checkC17,
	})
}

func enumC17(env *engine.Env, yield func(any) bool) {
	if !yield(C17Case{Part: "published"}) {
		return
	}
	// the path universe is computed inside the check (needs the schema); enumerate the parser side here
	pp := parserPaths()
	var keys []string
	for k := range pp {
		keys = append(keys, k)
	}
	sort.Strings(keys)
	for _, k := range keys {
		if !yield(C17Case{Part: "path", Path: pp[k].Path, Kind: pp[k].Kind}) {
			return
		}
	}
	if !yield(C17Case{Part: "schema-paths"}) {
		return
	}
	// value shapes: every leaf given a value of another YAML shape. Whatever the parser takes, the schema must take
	// (the reverse is not required: a schema may be stricter about what it documents, but here the property is
	// "accepted and buildable => validates")
	for _, k := range keys {
		for _, sh := range c17Shapes(pp[k].Kind) {
			if !yield(C17Case{Part: "shape", Path: pp[k].Path, Kind: pp[k].Kind, Value: sh}) {
				return
			}
		}
	}
	// the example configurations of the documentation, as written
	if !yield(C17Case{Part: "docs-example"}) {
		return
	}
	// an undefined key at every mapping level: the parser's verdict and the schema's must agree (both reject)
	lvLeaves, levels := configShape()
	for _, lv := range levels {
		injs := []string{"", "x-extra", "X-Meta", "_private"}
		// a key of this very level in another letter case (a decoder that matches keys loosely takes it)
		for _, lf := range lvLeaves {
			if len(lf.Path) == len(lv.Path)+1 && pathKey(lf.Path[:len(lv.Path)]) == pathKey(lv.Path) {
				k := lf.Path[len(lf.Path)-1]
				if up := strings.ToUpper(k[:1]) + k[1:]; up != k {
					injs = append(injs, up, strings.ToUpper(k))
					break
				}
			}
		}
		for _, inj := range injs {
			if !yield(C17Case{Part: "level", Path: lv.Path, Value: inj}) {
				return
			}
		}
	}
	for _, filler := range []string{"depends", "provides"} {
		for _, v := range []string{"valid", "unknown-top", "unknown-rpm", "unknown-overrides"} {
			if !yield(C17Case{Part: "large-level", Kind: filler, Value: v}) {
				return
			}
		}
	}
	for _, e := range c17Enums {
		for _, v := range e.values {
			if !yield(C17Case{Part: "enum", Path: e.path, Value: v, Format: e.format}) {
				return
			}
		}
	}
	// an enumerated setting written as an environment reference (or padded): if the parser and the packager take it,
	// the schema must take the document as written
	for _, e := range c17Enums {
		for _, v := range e.values {
			if v == "" || strings.Join(e.path, ".") == "overrides.{key}" {
				continue
			}
			for _, w := range []string{"${V}", " " + v + " ", "$V"} {
				if !yield(C17Case{Part: "env-enum", Path: e.path, Value: v, Format: e.format, Written: w}) {
					return
				}
			}
		}
	}
	t := &fixture.Tree{Root: "/T"}
	for _, e := range c01Templates() {
		d := map[string]any(Setting{Name: "default"}.doc([]model.Entry{e}, t.Root))
		if !yield(C17Case{Part: "config", Doc: d, Value: "c01:" + e.Dst}) {
			return
		}
	}
	// contents entries: every type x every subset of the optional keys {src, file_info, packager, expand} (a directory
	// or ghost may name a source too)
	for _, typ := range []string{"", "file", "config", "config|noreplace", "config|missingok", "dir", "ghost", "symlink", "tree", "doc", "licence", "license", "readme"} {
		for mask := 0; mask < 16; mask++ {
			e := map[string]any{"dst": "/opt/x"}
			if typ != "" {
				e["type"] = typ
			}
			if mask&1 != 0 {
				e["src"] = "/T/etc/app.conf"
			}
			if mask&2 != 0 {
				e["file_info"] = map[string]any{"owner": "app", "group": "grp"}
			}
			if mask&4 != 0 {
				e["packager"] = "rpm"
			}
			if mask&8 != 0 {
				e["expand"] = true
			}
			d := c17Base()
			d["contents"] = []any{e}
			if !yield(C17Case{Part: "config", Doc: d, Value: fmt.Sprintf("entry-shape:%s:%d", typ, mask)}) {
				return
			}
		}
	}
	// contents lists holding an empty (null) item next to valid ones: whatever the parser makes of them, the schema
	// agrees (a null item of a list of strings is read as absent - the YAML library's leniency, not judged)
	for i, d := range []map[string]any{
		{"contents": []any{map[string]any{"src": "/T/etc/app.conf", "dst": "/etc/app.conf"}, nil}},
		{"contents": []any{nil, map[string]any{"dst": "/var/lib/x", "type": "dir"}}},
		{"overrides": map[string]any{"rpm": map[string]any{"contents": []any{map[string]any{"dst": "/var/lib/x", "type": "dir"}, nil}}}},
	} {
		doc := c17Base()
		for k, v := range d {
			doc[k] = v
		}
		if !yield(C17Case{Part: "config", Doc: doc, Value: fmt.Sprintf("null-item:%d", i)}) {
			return
		}
	}
	metas := []model.MetaCfg{}
	m := baseMeta()
	m.Rel = map[string][]model.RelItem{}
	for _, k := range model.RelKinds {
		m.Rel[k] = relItems(k, "versioned")
	}
	m.RPMPrefixes = []string{"/usr"}
	m.RPMGroup, m.RPMSummary, m.RPMPackager = "g", "s", "p"
	m.IPKAlts = []model.IPKAlt{{Priority: 1, Target: "/a", LinkName: "/b"}}
	m.IPKTags, m.IPKEssential, m.IPKAuto, m.IPKABI = []string{"t"}, true, true, "1"
	m.IPKFields, m.DebFields = map[string]string{"Source": "x"}, map[string]string{"Bugs": "y"}
	m.DebTriggers = map[string][]string{"interest": {"a"}, "activate_noawait": {"b"}}
	m.Epoch, m.Release, m.Prerelease, m.Metadata, m.Section, m.Priority, m.Vendor, m.Homepage, m.License = "1", "2", "rc1", "git", "utils", "optional", "V", "https://h", "MIT"
	m.ArchPkgbase, m.ArchPackager = "base", "pk"
	// lists with an item written twice, every relational operator, an empty list, a single item
	m2, m3 := baseMeta(), baseMeta()
	m2.Rel, m3.Rel = map[string][]model.RelItem{}, map[string][]model.RelItem{}
	for _, k := range model.RelKinds {
		m2.Rel[k] = relItems(k, "dup")
		m3.Rel[k] = relItems(k, "ops")
	}
	m2.IPKTags, m2.RPMPrefixes = []string{"t", "t"}, []string{"/usr", "/usr"}
	m2.DebTriggers = map[string][]string{"interest": {"a", "a"}, "activate": {"a"}}
	metas = append(metas, baseMeta(), m, m2, m3)
	for i, mc := range metas {
		for _, f := range Formats {
			d := map[string]any(metaDoc(mc, f, t))
			if !yield(C17Case{Part: "config", Doc: d, Value: fmt.Sprintf("c02:%d:%s", i, f)}) {
				return
			}
		}
	}
	if env.Thorough() {
		// every pair of parser key paths in one document: accepted by the parser => accepted by the schema
		for i, a := range keys {
			for _, b := range keys[i+1:] {
				if !yield(C17Case{Part: "path-pair", Path: pp[a].Path, Kind: pp[a].Kind, Path2: pp[b].Path, Kind2: pp[b].Kind}) {
					return
				}
			}
		}
		// every enumerated value inside the override block of every format
		for _, e := range c17Enums {
			ek := strings.Join(e.path, ".")
			if ek == "overrides.{key}" || ek == "version_schema" || ek == "platform" || ek == "arch" {
				continue // not overridable
			}
			for _, v := range e.values {
				for _, f := range Formats {
					if ek != "contents.[].type" && f != e.format {
						continue // the setting only means something to its own format's packager
					}
					if !yield(C17Case{Part: "enum-override", Path: e.path, Value: v, Format: f}) {
						return
					}
				}
			}
		}
	}
	if !yield(C17Case{Part: "python-batch"}) {
		return
	}
}

// c17Docs rebuilds every document of the run (for the python second opinion).
func c17Docs(env *engine.Env) []map[string]any {
	var docs []map[string]any
	enumC17(env, func(ci any) bool {
		c := ci.(C17Case)
		if d := c17Doc(env, c); d != nil {
			docs = append(docs, d)
		}
		return true
	})
	return docs
}

func c17Doc(env *engine.Env, c C17Case) map[string]any {
	switch c.Part {
	case "level":
		inj := "zz_undefined_key"
		if c.Value != "" {
			inj = c.Value
		}
		return docWith(c17Base(), append(append([]string{}, c.Path...), inj), "x")
	case "path":
		d := docWith(c17Base(), c.Path, leafSample(cfgLeaf{Path: c.Path, Kind: c.Kind}))
		if len(c.Path) > 1 && c.Path[0] == "contents" && c.Path[len(c.Path)-1] != "dst" {
			setDeep(d, []string{"contents", "[]", "dst"}, "/x")
		}
		if len(c.Path) > 3 && c.Path[2] == "contents" && c.Path[len(c.Path)-1] != "dst" {
			setDeep(d, []string{"overrides", "{fmt}", "contents", "[]", "dst"}, "/x")
		}
		return d
	case "path-pair":
		d := c17Doc(env, C17Case{Part: "path", Path: c.Path, Kind: c.Kind})
		d2 := c17Doc(env, C17Case{Part: "path", Path: c.Path2, Kind: c.Kind2})
		return mergeDocs(d, d2)
	case "enum-override":
		inner := c17Doc(env, C17Case{Part: "enum", Path: c.Path, Value: c.Value, Format: c.Format})
		d := c17Base()
		ov := map[string]any{}
		for k, v := range inner {
			if _, base := d[k]; !base {
				ov[k] = v
			}
		}
		d["overrides"] = map[string]any{c.Format: ov}
		return d
	case "enum", "env-enum":
		d := c17Base()
		if c.Part == "env-enum" {
			c.Value = c.Written
		}
		switch strings.Join(c.Path, ".") {
		case "contents.[].type":
			e := map[string]any{"dst": "/opt/x", "type": c.Value}
			switch c.Value {
			case "dir", "ghost":
			case "symlink":
				e["src"] = "/t"
			case "tree":
				e["src"] = filepath.Join(tree(env).Root, "tree")
			default:
				e["src"] = filepath.Join(tree(env).Root, "etc/app.conf")
			}
			d["contents"] = []any{e}
		case "overrides.{key}":
			d["overrides"] = map[string]any{c.Value: map[string]any{"depends": []any{"x"}}}
		case "deb.signature.method", "deb.signature.type":
			d = docWith(d, []string{"deb", "signature", "key_file"}, keyPath(env, "privkey_unprotected.asc"))
			d = docWith(d, c.Path, c.Value)
		default:
			d = docWith(d, c.Path, c.Value)
		}
		return d
	case "config":
		return c.Doc
	}
	return nil
}

func checkC17(env *engine.Env, ci any) engine.Outcome {
	c := ci.(C17Case)
	sc := env.Data["schema"].(*schemaCtx)
	var out engine.Outcome
	viol := func(sig, format string, a ...any) {
		out.Violations = append(out.Violations, engine.Violation{Sig: sig, Detail: fmt.Sprintf(format, a...)})
	}
	judge := func(d map[string]any) (parserOK bool, perr error, schemaErrs []string, harness string) {
		text := fixture.Doc(d).YAML()
		_, perr = parseYAML(text, nil)
		jv, err := toJSONValue(d)
		if err != nil {
			return perr == nil, perr, nil, err.Error()
		}
		var errs, unsup []string
		sc.validate(sc.root, jv, "", &errs, &unsup)
		if len(unsup) > 0 {
			return perr == nil, perr, errs, "schema uses something the harness validator does not model: " + strings.Join(unsup, ", ")
		}
		return perr == nil, perr, errs, ""
	}
	switch c.Part {
	case "published":
		out.Nontrivial = true
		pub, err := os.ReadFile(filepath.Join(env.Repo, "www/docs/static/schema.json"))
		if err != nil {
			viol("schema:published-missing", "cannot read the published schema: %v", err)
			return out
		}
		out.Key = fmt.Sprintf("published:%d:%d", len(pub), len(sc.raw))
		if !bytes.Equal(pub, sc.raw) {
			var a, b any
			same := json.Unmarshal(pub, &a) == nil && json.Unmarshal(sc.raw, &b) == nil && reflect.DeepEqual(a, b)
			cls := "content"
			if same {
				cls = "bytes-only"
			}
			viol("schema:published-differs:"+cls, "www/docs/static/schema.json (%d bytes) is not identical to the file `nfpm jsonschema -o` writes (%d bytes); same JSON value: %v; first difference at byte %d", len(pub), len(sc.raw), same, firstDiff(pub, sc.raw))
		}
		for name, b := range sc.over {
			if !bytes.Equal(b, sc.raw) {
				viol("schema:o-file:"+name, "`nfpm jsonschema -o FILE` (%s) leaves %d bytes (%q...), an absolute fresh path gets %d bytes (first difference at byte %d)", name, len(b), trunc(string(b), 80), len(sc.raw), firstDiff(b, sc.raw))
			}
		}
		if strings.TrimSpace(string(sc.stdout)) != strings.TrimSpace(string(sc.raw)) {
			viol("schema:stdout-differs", "`nfpm jsonschema` on stdout differs from the file written with -o")
		}
	case "path":
		key := strings.Join(c.Path, ".")
		sp := map[string]bool{}
		sc.paths(sc.root, nil, sp, 0)
		out.Key = fmt.Sprintf("path:%s:%v", key, sp[key])
		out.Nontrivial = true
		d := c17Doc(env, c)
		pOK, perr, serrs, harness := judge(d)
		if harness != "" {
			out.HarnessError = harness
			return out
		}
		if !pOK {
			// a sample value the parser does not take: the path is judged on the path sets only
			out.Nontrivial = false
			// ... unless the very same setting is taken outside the override block: then it is the key path the parser
			// refuses, which the schema allows
			if len(c.Path) > 2 && c.Path[0] == "overrides" && sp[key] {
				twin := c17Doc(env, C17Case{Part: "path", Path: c.Path[2:], Kind: c.Kind})
				if tOK, _, _, _ := judge(twin); tOK {
					viol("schema:path-refused-by-parser:"+pathKey(c.Path), "the schema allows the key path %s and the parser takes the same setting at %s, but refuses it inside the override block: %v\n%s", key, strings.Join(c.Path[2:], "."), perr, fixture.Doc(d).YAML())
				}
			}
		}
		if !sp[key] {
			viol("schema:path-missing-in-schema:"+pathKey(c.Path), "the parser defines key path %s, the schema does not allow it", key)
		}
		if pOK && len(serrs) > 0 {
			viol("schema:rejects-accepted-path:"+pathKey(c.Path), "a minimal document with %s is accepted by the parser but rejected by the schema: %v\n%s", key, serrs, fixture.Doc(d).YAML())
		}
	case "large-level":
		// the same judgement with more than a megabyte of valid settings in front of the key
		d := c17Base()
		var fill []any
		for i := 0; i < 80000; i++ {
			fill = append(fill, fmt.Sprintf("libfiller%07d", i))
		}
		d[c.Kind] = fill
		switch c.Value {
		case "unknown-top":
			d["zz_undefined_key"] = "x"
		case "unknown-rpm":
			d["rpm"] = map[string]any{"zz_undefined_key": "x"}
		case "unknown-overrides":
			d["overrides"] = map[string]any{"rpm": map[string]any{"zz_undefined_key": "x"}}
		}
		pOK, _, serrs, harness := judge(d)
		if harness != "" {
			out.HarnessError = harness
			return out
		}
		out.Transitions++
		out.Nontrivial = true
		out.Key = fmt.Sprintf("large-level:%s:%s:%v:%v", c.Kind, c.Value, pOK, len(serrs) == 0)
		if pOK != (len(serrs) == 0) {
			who := "the parser accepts it, the schema rejects it"
			if !pOK {
				who = "the parser rejects it, the schema accepts it"
			}
			viol("schema:large-document-verdicts-differ:"+c.Value, "a document with 80000 %s items (%d bytes) and %s: %s (schema: %v)", c.Kind, len(fixture.Doc(d).YAML()), c.Value, who, trunc(fmt.Sprint(serrs), 300))
		}
		if c.Value == "valid" && !pOK {
			viol("schema:large-document-rejected", "a valid document with 80000 %s items is rejected by the parser", c.Kind)
		}
	case "level":
		inj := "zz_undefined_key"
		if c.Value != "" {
			inj = c.Value
		}
		d := docWith(c17Base(), append(append([]string{}, c.Path...), inj), "x")
		pOK, _, serrs, harness := judge(d)
		if harness != "" {
			out.HarnessError = harness
			return out
		}
		// the verdict of every way of handing the document to the parser counts (file, stdin, reader)
		for name, perr := range parseEntryPoints(env, fixture.Doc(d).YAML()) {
			out.Transitions++
			if perr == nil && pOK == false {
				pOK = true
				_ = name
			}
		}
		lvl := pathKey(c.Path)
		if lvl == "" {
			lvl = "(top)"
		}
		out.Nontrivial = true
		out.Key = fmt.Sprintf("level:%s:%s:%v:%v", lvl, inj, pOK, len(serrs) == 0)
		if pOK != (len(serrs) == 0) {
			who := "the parser accepts it, the schema rejects it"
			if !pOK {
				who = "the parser rejects it, the schema accepts it"
			}
			viol("schema:undefined-key-verdicts-differ:"+lvl, "an undefined key at level %s: %s\n%s", lvl, who, fixture.Doc(d).YAML())
		}
	case "shape":
		key := strings.Join(c.Path, ".")
		var val any
		switch c.Value {
		case "scalar-string":
			val = "x"
		case "int":
			val = 7
		case "float":
			val = 1.5
		case "bool":
			val = true
		case "list":
			val = []any{"x"}
		case "map":
			val = map[string]any{"K": "v"}
		case "null":
			val = nil
		case "numeric-string":
			val = "7"
		case "octal-string":
			val = "0755"
		case "octal-o-string":
			val = "0o700"
		}
		d := docWith(c17Base(), c.Path, val)
		if len(c.Path) > 1 && c.Path[0] == "contents" && c.Path[len(c.Path)-1] != "dst" {
			setDeep(d, []string{"contents", "[]", "dst"}, "/x")
		}
		pOK, _, serrs, harness := judge(d)
		if harness != "" {
			out.HarnessError = harness
			return out
		}
		out.Key = fmt.Sprintf("shape:%s:%s:%s:%v:%v", key, c.Kind, c.Value, pOK, len(serrs) == 0)
		if !pOK {
			return out
		}
		out.Nontrivial = true
		if len(serrs) > 0 {
			cls := c.Value + "-for-" + c.Kind
			switch {
			case (c.Kind == "string" || c.Kind == "strptr") && (c.Value == "int" || c.Value == "float" || c.Value == "bool"):
				// one finding class: YAML scalars of any type are converted into string settings by the parser
				cls = "number-or-bool-for-string"
			case c.Value == "null":
				cls = "null"
			}
			viol("schema:rejects-accepted-shape:"+cls, "%s given as %s (%v) is accepted by the parser, the schema rejects the document: %v", key, c.Value, val, serrs)
		}
	case "docs-example":
		b, err := os.ReadFile(filepath.Join(env.Repo, "www/docs/configuration.md"))
		if err != nil {
			out.HarnessError = err.Error()
			return out
		}
		n := 0
		for i, blk := range regexp.MustCompile("(?s)```yaml\n(.*?)```").FindAllStringSubmatch(string(b), -1) {
			text := blk[1]
			if !strings.Contains(text, "name:") || !strings.Contains(text, "version:") {
				continue // a fragment, not a whole configuration
			}
			_, perr := nfpm.ParseWithEnvMapping(strings.NewReader(text), func(string) string { return "" })
			var generic map[string]any
			if yerr := yaml.Unmarshal([]byte(text), &generic); yerr != nil {
				out.HarnessError = "documentation example is not YAML: " + yerr.Error()
				return out
			}
			jv, jerr := toJSONValue(generic)
			if jerr != nil {
				out.HarnessError = jerr.Error()
				return out
			}
			var serrs, unsup []string
			sc.validate(sc.root, jv, "", &serrs, &unsup)
			n++
			out.Transitions++
			if perr == nil && len(serrs) > 0 {
				sortStrings(serrs)
				viol("schema:rejects-documented-example", "the example configuration #%d of configuration.md is accepted by the parser but rejected by the schema (%d reasons): %s", i, len(serrs), strings.Join(serrs[:min(len(serrs), 12)], "; "))
			}
			if perr != nil {
				viol("schema:documented-example-not-parsed", "the example configuration #%d of configuration.md is rejected by the parser: %v", i, perr)
			}
		}
		out.Nontrivial = n > 0
		out.Key = fmt.Sprintf("docs-example:%d", n)
	case "schema-paths":
		sp := map[string]bool{}
		sc.paths(sc.root, nil, sp, 0)
		pp := parserPaths()
		out.Key = fmt.Sprintf("schema-paths:%d", len(sp))
		out.Nontrivial = len(sp) > 50
		var ks []string
		for k := range sp {
			ks = append(ks, k)
		}
		sort.Strings(ks)
		for _, k := range ks {
			if i := strings.LastIndexByte(k, '.'); i > 0 && strings.Contains(k[i+1:], "verif") || strings.Contains(k, "{pattern ") {
				if _, freeForm := pp[k[:max(strings.LastIndexByte(k, '.'), 0)]]; freeForm {
					continue // keys by pattern below a level the parser reads as a free-form map
				}
			}
			if _, ok := pp[k]; !ok {
				viol("schema:path-missing-in-parser:"+k, "the schema allows key path %s, which the strict parser does not define", k)
			}
		}
		if len(sp) < 50 {
			out.HarnessError = fmt.Sprintf("schema walk found only %d paths", len(sp))
		}
	case "env-enum":
		d := c17Doc(env, c)
		jv, err := toJSONValue(d)
		if err != nil {
			out.HarnessError = err.Error()
			return out
		}
		var serrs, unsup []string
		sc.validate(sc.root, jv, "", &serrs, &unsup)
		dd := deepCopyMap(d)
		dd["mtime"] = PkgMTime
		text := fixture.Doc(dd).YAML()
		buildWith := func(v string) bool {
			cfg, perr := parseYAML(text, func(k string) string {
				if k == "V" {
					return v
				}
				return ""
			})
			if perr != nil {
				return false
			}
			_, _, berr := packageFrom(&cfg, c.Format)
			out.Transitions++
			return berr == nil
		}
		// control: a packager that takes the text whatever V is (e.g. any version_schema other than "none" means semver)
		// is lenient about an undocumented value, it does not resolve the reference; only a reference that is
		// resolved makes the written form a value the packagers accept
		built := buildWith(c.Value) && !buildWith("zz-not-a-valid-value")
		if strings.TrimSpace(c.Written) == c.Value {
			// the padded literal: no reference involved; the control is a padded invalid literal
			cc := c
			cc.Written = " zz-not-a-valid-value "
			cd := deepCopyMap(c17Doc(env, cc))
			cd["mtime"] = PkgMTime
			lenient := false
			if cfg, err := parseYAML(fixture.Doc(cd).YAML(), nil); err == nil {
				_, _, berr := packageFrom(&cfg, c.Format)
				lenient = berr == nil
			}
			built = buildWith(c.Value) && !lenient
		}
		out.Key = fmt.Sprintf("env-enum:%s:%q:%s:%v:%v", strings.Join(c.Path, "."), c.Written, c.Value, built, len(serrs) == 0)
		if built {
			out.Nontrivial = true
			if len(serrs) > 0 {
				viol("schema:rejects-accepted-value:"+pathKey(c.Path)+":written-as-reference", "%s written as %q (V=%q) is accepted by the parser and built by the %s packager, the schema rejects the document: %v", strings.Join(c.Path, "."), c.Written, c.Value, c.Format, serrs)
			}
		}
	case "path-pair":
		d := c17Doc(env, c)
		pOK, _, serrs, harness := judge(d)
		if harness != "" {
			out.HarnessError = harness
			return out
		}
		out.Key = fmt.Sprintf("%s:%s:%s:%s:%s:%v:%v", c.Part, strings.Join(c.Path, "."), strings.Join(c.Path2, "."), c.Value, c.Format, pOK, len(serrs) == 0)
		if pOK {
			out.Nontrivial = true
			if len(serrs) > 0 {
				viol("schema:rejects-accepted-config:"+c.Part, "a document the parser accepts is rejected by the schema: %v\n%s", serrs, fixture.Doc(d).YAML())
			}
		}
	case "enum", "config", "enum-override":
		d := c17Doc(env, c)
		pOK, perr, serrs, harness := judge(d)
		if harness != "" {
			out.HarnessError = harness
			return out
		}
		label := c.Value
		if c.Part == "enum" || c.Part == "enum-override" {
			label = strings.Join(c.Path, ".") + "=" + c.Value
			if c.Part == "enum-override" {
				label = "overrides." + c.Format + "." + label
			}
		}
		out.Key = fmt.Sprintf("%s:%s:%v:%v", c.Part, label, pOK, len(serrs) == 0)
		if !pOK {
			_ = perr
			return out
		}
		buildable := true
		if c.Part == "enum" || c.Part == "enum-override" {
			// the packagers must be able to build it, otherwise the value is not an accepted one
			dd := deepCopyMap(d)
			dd["mtime"] = PkgMTime
			if _, err := buildYAML(fixture.Doc(dd).YAML(), c.Format); err != nil {
				buildable = false
			}
			out.Transitions++
		}
		if !buildable {
			return out
		}
		out.Nontrivial = true
		if len(serrs) > 0 {
			if c.Part == "enum" || c.Part == "enum-override" {
				cls := c.Value
				if strings.Contains(c.Value, ":") {
					cls = "algo:level"
				}
				viol("schema:rejects-accepted-value:"+pathKey(c.Path)+":"+cls, "%s is accepted by the parser and built by the %s packager, the schema rejects it: %v", label, c.Format, serrs)
			} else {
				viol("schema:rejects-accepted-config", "configuration %s is accepted by the parser, the schema rejects it: %v", label, serrs)
			}
		}
	case "python-batch":
		py := env.Tool("python3-vt")
		if py == "" {
			out.Key = "python-absent"
			return out
		}
		docs := c17Docs(env)
		dir := filepath.Join(env.Scratch, "pybatch")
		os.MkdirAll(dir, 0o755)
		defer os.RemoveAll(dir)
		var mine []bool
		var list []any
		for _, d := range docs {
			jv, err := toJSONValue(d)
			if err != nil {
				continue
			}
			var errs, unsup []string
			sc.validate(sc.root, jv, "", &errs, &unsup)
			mine = append(mine, len(errs) == 0)
			list = append(list, jv)
		}
		b, _ := json.Marshal(list)
		os.WriteFile(filepath.Join(dir, "docs.json"), b, 0o644)
		os.WriteFile(filepath.Join(dir, "schema.json"), sc.raw, 0o644)
		script := `import json,sys,jsonschema
s=json.load(open(sys.argv[1])); docs=json.load(open(sys.argv[2]))
v=jsonschema.Draft202012Validator(s)
print(json.dumps([v.is_valid(d) for d in docs]))`
		outp, err := exec.Command(py, "-c", script, filepath.Join(dir, "schema.json"), filepath.Join(dir, "docs.json")).Output()
		if err != nil {
			out.HarnessError = "python jsonschema failed: " + err.Error()
			return out
		}
		var theirs []bool
		if err := json.Unmarshal(bytes.TrimSpace(outp), &theirs); err != nil || len(theirs) != len(mine) {
			out.HarnessError = "python jsonschema output not understood"
			return out
		}
		dis := 0
		for i := range mine {
			if mine[i] != theirs[i] {
				dis++
			}
		}
		out.Nontrivial = true
		out.Transitions = len(mine)
		out.Counters = map[string]int{"python_documents": len(mine), "python_disagreements": dis}
		out.Key = fmt.Sprintf("python:%d:%d", len(mine), dis)
		if dis > 0 {
			out.HarnessError = fmt.Sprintf("harness validator and python jsonschema disagree on %d of %d documents", dis, len(mine))
		}
	}
	return out
}

func firstDiff(a, b []byte) int {
	n := min(len(a), len(b))
	for i := 0; i < n; i++ {
		if a[i] != b[i] {
			return i
		}
	}
	return n
}

var _ = nfpm.Enumerate
