// Package props holds one exhaustive check per property.
package props

import (
	"encoding/json"
	"fmt"
	"os"
	"path/filepath"
	"regexp"
	"time"

	"verif/mc/engine"
	"verif/mc/fixture"
	"verif/mc/model"

	"github.com/goreleaser/nfpm/v2/files"
)

// PkgMTime is the configured package mtime used by most checks (decades old:
// any current timestamp in an output is a clock leak).
var PkgMTime = time.Date(2010, 6, 7, 8, 9, 10, 0, time.UTC)

// EntryMTime is an explicit per-entry mtime.
var EntryMTime = time.Date(2008, 1, 2, 15, 4, 5, 0, time.UTC)

var Formats = []string{"deb", "rpm", "apk", "ipk", "archlinux"}

func bigSize(env *engine.Env) int {
	if env.Thorough() {
		return 3 << 20
	}
	return 200 << 10
}

// tree returns the worker's materialised standard tree.
func tree(env *engine.Env) *fixture.Tree { return env.Data["tree"].(*fixture.Tree) }

func setupTree(env *engine.Env) error {
	if _, ok := env.Data["tree"]; ok {
		return nil
	}
	if env.Scratch == "" {
		return fmt.Errorf("no scratch dir")
	}
	t, err := fixture.Materialize(filepath.Join(env.Scratch, "T"), fixture.Spec(bigSize(env)))
	if err != nil {
		return err
	}
	env.Data["tree"] = t
	model.SystemDirs = systemDirs(env.Repo)
	return nil
}

var fsPathRe = regexp.MustCompile(`(?m)^\s*"(/[^"]*)",\s*$`)

// systemDirs reads the directories the tree under test attributes to the distribution's filesystem and logrotate
// packages (the string lists in files/fs.go). What the code does with the list is judged; the list itself is data.
func systemDirs(repo string) map[string]bool {
	out := map[string]bool{}
	b, err := os.ReadFile(filepath.Join(repo, "files", "fs.go"))
	if err != nil {
		return out
	}
	for _, m := range fsPathRe.FindAllStringSubmatch(string(b), -1) {
		out[m[1]] = true
	}
	return out
}

// toContents converts model entries to the implementation's input type, with
// on-disk sources made absolute below the tree root.
func toContents(list []model.Entry, t *fixture.Tree) files.Contents {
	var out files.Contents
	for _, e := range list {
		c := &files.Content{Source: e.Src, Destination: e.Dst, Type: e.Type, Packager: e.Packager}
		if e.Src != "" && e.Type != "symlink" {
			c.Source = filepath.Join(t.Root, e.Src)
			if len(e.Src) > 0 && e.Src[len(e.Src)-1] == '/' {
				c.Source += "/"
			}
		}
		if e.HasInfo || e.Owner != "" || e.Group != "" || e.Mode != 0 || !e.MTime.IsZero() {
			c.FileInfo = &files.ContentFileInfo{Owner: e.Owner, Group: e.Group, Mode: e.Mode, MTime: e.MTime}
		}
		out = append(out, c)
	}
	return out
}

func decodeInto[T any](raw json.RawMessage) (any, error) {
	var v T
	if err := json.Unmarshal(raw, &v); err != nil {
		return nil, err
	}
	return v, nil
}

func umaskOf(m os.FileMode) os.FileMode { return m }
