//go:build !verif

package props

// dumpGlobals: without the woven copy the package-level variables of nfpm are
// not reachable; the state then consists of the configuration only.
func dumpGlobals(d *stateDumper) int { return 0 }
