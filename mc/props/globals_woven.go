//go:build verif

package props

import (
	"reflect"

	"github.com/goreleaser/nfpm/v2/vrt"
)

// dumpGlobals adds every package-level variable of the nfpm packages
// (registered by the weaver's generated init functions) to the state.
func dumpGlobals(d *stateDumper) int {
	gs := vrt.Globals()
	for _, g := range gs {
		d.dump("global "+g.Name, reflect.ValueOf(g.Ptr).Elem())
	}
	return len(gs)
}
