package props

import (
	"crypto/sha256"
	"encoding/hex"
	"encoding/json"
	"fmt"
	"io"
	"os"
	"path/filepath"
	"strings"
	"sync"

	"verif/mc/engine"

	"github.com/goreleaser/nfpm/v2"
	"github.com/goreleaser/nfpm/v2/deprecation"
)

// RacePass runs the C12 scenario bodies free-running (real goroutines) in a
// binary built with -race from the unwoven tree. GORACE=log_path=<prefix> must
// be set by the caller; the reports are collected from those files.
func RacePass(env *engine.Env, outFile string) error {
	res := racePassResult{}
	defer func() {
		b, _ := json.MarshalIndent(res, "", " ")
		os.WriteFile(outFile, b, 0o644)
	}()
	deprecation.Noticer = io.Discard
	if err := setupTree(env); err != nil {
		res.Error = err.Error()
		return err
	}
	hash := func(cfg *nfpm.Config, f string) string {
		b, _, err := packageFrom(cfg, f)
		if err != nil {
			return "ERR " + err.Error()
		}
		s := sha256.Sum256(b)
		return hex.EncodeToString(s[:8])
	}
	docs := c12Docs(env)
	iters := 2
	if env.Thorough() {
		iters = 6
	}
	p := engine.Lookup("C12")
	p.Enumerate(env, func(ci any) bool {
		c := ci.(C12Case)
		if c.Mode == "racepass" || c.Mode == "S4" {
			return true // S4 (the command-line function) exists in the woven copy only
		}
		scIters := iters
		if c.Config == c12Large(env) {
			// under the race detector each of these builds takes tens of seconds: quick keeps two of the scenarios, once
			if !env.Thorough() && !(c.Mode == "S1" && c.Formats[0] != c.Formats[1]) && !(c.Mode == "S2" && c.Formats[0] == "apk") {
				return true
			}
			scIters = 1
		}
		res.Scenarios++
		text := docs[c.Config].YAML()
		textOf := func(i int) string { return docs[c.configOf(i)].YAML() }
		base := make([]string, len(c.Formats))
		for i, f := range c.Formats {
			cfg, err := parseYAML(textOf(i), nil)
			if err != nil {
				res.Error = err.Error()
				return false
			}
			base[i] = hash(&cfg, f)
		}
		for it := 0; it < scIters; it++ {
			n := len(c.Formats)
			cfgs := make([]*nfpm.Config, n)
			if c.Mode == "S1" || c.Mode == "S1v" {
				cfg, _ := parseYAML(text, nil)
				for i := range cfgs {
					cfgs[i] = &cfg
				}
			} else {
				for i := range cfgs {
					cfg, _ := parseYAML(textOf(i), nil)
					cfgs[i] = &cfg
				}
			}
			out := make([]string, n)
			var wg sync.WaitGroup
			start := make(chan struct{})
			for i := 0; i < n; i++ {
				wg.Add(1)
				go func(i int) {
					defer wg.Done()
					<-start
					if c.Mode == "S1v" {
						_, _ = nfpm.Get(strings.ToUpper(c.Formats[i]))
						_, _ = nfpm.Get(" " + c.Formats[i])
						_ = cfgs[i].Validate()
					}
					out[i] = hash(cfgs[i], c.Formats[i])
				}(i)
			}
			close(start)
			wg.Wait()
			res.Runs++
			for i, f := range c.Formats {
				if out[i] != base[i] && len(res.Diffs) < 5 {
					res.Diffs = append(res.Diffs, fmt.Sprintf("config #%d mode=%s formats=%v: free-running %s package %s differs from the sequential one %s", c.Config, c.Mode, c.Formats, f, out[i], base[i]))
				}
			}
		}
		return true
	})
	// collect the race detector's reports
	if lp := raceLogPrefix(); lp != "" {
		files, _ := filepath.Glob(lp + ".*")
		seen := map[string]bool{}
		for _, f := range files {
			b, _ := os.ReadFile(f)
			for _, blk := range strings.Split(string(b), "==================") {
				if !strings.Contains(blk, "DATA RACE") {
					continue
				}
				res.Races++
				key := raceSite(blk)
				if !seen[key] {
					seen[key] = true
					if len(blk) > 3000 {
						blk = blk[:3000]
					}
					res.Reports = append(res.Reports, strings.TrimSpace(blk))
				}
			}
		}
	}
	return nil
}

func raceLogPrefix() string {
	for _, kv := range strings.Fields(os.Getenv("GORACE")) {
		if strings.HasPrefix(kv, "log_path=") {
			return strings.TrimPrefix(kv, "log_path=")
		}
	}
	return ""
}
