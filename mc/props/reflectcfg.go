package props

import (
	"reflect"
	"strings"
	"time"
)

// cfgLeaf is one key path of the configuration as the parser's types define it
// (enumerated by reflection from the tree under test).
type cfgLeaf struct {
	Path []string // yaml keys; "[]" = list element, "{fmt}" = overrides map key
	Kind string   // string | strptr | strlist | strmap | bool | int | time | other
}

func (l cfgLeaf) String() string { return strings.Join(l.Path, ".") }

// cfgLevel is a mapping level (a place where keys live).
type cfgLevel struct {
	Path []string
}

func yamlName(f reflect.StructField) (name string, inline, skip bool) {
	tag := f.Tag.Get("yaml")
	if tag == "-" {
		return "", false, true
	}
	parts := strings.Split(tag, ",")
	for _, p := range parts[1:] {
		if p == "inline" {
			inline = true
		}
	}
	name = parts[0]
	if name == "" && !inline {
		name = strings.ToLower(f.Name)
	}
	return name, inline, false
}

var timeType = reflect.TypeOf(time.Time{})

// walkConfigType enumerates leaves and mapping levels below t.
func walkConfigType(t reflect.Type, prefix []string, leaves *[]cfgLeaf, levels *[]cfgLevel, depth int) {
	if depth > 12 {
		return
	}
	cp := func(extra ...string) []string { return append(append([]string{}, prefix...), extra...) }
	switch t.Kind() {
	case reflect.Ptr:
		if t.Elem().Kind() == reflect.String {
			*leaves = append(*leaves, cfgLeaf{cp(), "strptr"})
			return
		}
		walkConfigType(t.Elem(), prefix, leaves, levels, depth+1)
	case reflect.Struct:
		if t == timeType {
			*leaves = append(*leaves, cfgLeaf{cp(), "time"})
			return
		}
		// a struct is a mapping level unless it was inlined into its parent (handled by the caller)
		*levels = append(*levels, cfgLevel{cp()})
		walkStructFields(t, prefix, leaves, levels, depth)
	case reflect.String:
		*leaves = append(*leaves, cfgLeaf{cp(), "string"})
	case reflect.Bool:
		*leaves = append(*leaves, cfgLeaf{cp(), "bool"})
	case reflect.Int, reflect.Int64, reflect.Uint32, reflect.Uint64, reflect.Int32:
		*leaves = append(*leaves, cfgLeaf{cp(), "int"})
	case reflect.Slice:
		if t.Elem().Kind() == reflect.String {
			*leaves = append(*leaves, cfgLeaf{cp(), "strlist"})
			return
		}
		walkConfigType(t.Elem(), cp("[]"), leaves, levels, depth+1)
	case reflect.Map:
		if t.Elem().Kind() == reflect.String {
			*leaves = append(*leaves, cfgLeaf{cp(), "strmap"})
			return
		}
		walkConfigType(t.Elem(), cp("{fmt}"), leaves, levels, depth+1)
	default:
		*leaves = append(*leaves, cfgLeaf{cp(), "other"})
	}
}

func walkStructFields(t reflect.Type, prefix []string, leaves *[]cfgLeaf, levels *[]cfgLevel, depth int) {
	for i := 0; i < t.NumField(); i++ {
		f := t.Field(i)
		if f.PkgPath != "" && !f.Anonymous {
			continue // unexported
		}
		name, inline, skip := yamlName(f)
		if skip {
			continue
		}
		if inline {
			ft := f.Type
			if ft.Kind() == reflect.Ptr {
				ft = ft.Elem()
			}
			if ft.Kind() == reflect.Struct {
				walkStructFields(ft, prefix, leaves, levels, depth+1)
			}
			// an inlined map collects every key the struct does not define: it adds no key path of its own (whether
			// such keys are then accepted is what the unknown-key parts find out on the real parser)
			continue
		}
		walkConfigType(f.Type, append(append([]string{}, prefix...), name), leaves, levels, depth+1)
	}
}

// docWith builds a document containing value at path (list elements and override
// keys are instantiated once), merged into base.
func docWith(base map[string]any, path []string, value any) map[string]any {
	out := deepCopyMap(base)
	setDeep(out, path, value)
	return out
}

func deepCopyMap(m map[string]any) map[string]any {
	o := map[string]any{}
	for k, v := range m {
		switch x := v.(type) {
		case map[string]any:
			o[k] = deepCopyMap(x)
		case []any:
			l := make([]any, len(x))
			for i, e := range x {
				if em, ok := e.(map[string]any); ok {
					l[i] = deepCopyMap(em)
				} else {
					l[i] = e
				}
			}
			o[k] = l
		default:
			o[k] = v
		}
	}
	return o
}

// overrideKey is the format used to instantiate {fmt} (set per case by checks that sweep the formats;
// a worker handles one case at a time).
var overrideKey = "deb"

func setDeep(m map[string]any, path []string, value any) {
	key := path[0]
	if key == "{fmt}" {
		key = overrideKey
	}
	if len(path) == 1 {
		m[key] = value
		return
	}
	if path[1] == "[]" {
		l, _ := m[key].([]any)
		var elem map[string]any
		if len(l) > 0 {
			elem, _ = l[0].(map[string]any)
		}
		if elem == nil {
			elem = map[string]any{}
			l = append([]any{elem}, l...)
		}
		if len(path) == 2 {
			l[0] = value
		} else {
			setDeep(elem, path[2:], value)
		}
		m[key] = l
		return
	}
	sub, _ := m[key].(map[string]any)
	if sub == nil {
		sub = map[string]any{}
		m[key] = sub
	}
	setDeep(sub, path[1:], value)
}

// getDeep reads the value at a yaml key path from a decoded configuration value.
func getDeep(v reflect.Value, path []string) (reflect.Value, bool) {
	for v.Kind() == reflect.Ptr {
		if v.IsNil() {
			return v, false
		}
		v = v.Elem()
	}
	if len(path) == 0 {
		return v, true
	}
	key := path[0]
	switch v.Kind() {
	case reflect.Struct:
		f, ok := fieldByYAML(v, key)
		if !ok {
			return v, false
		}
		return getDeep(f, path[1:])
	case reflect.Map:
		if key == "{fmt}" {
			key = overrideKey
		}
		e := v.MapIndex(reflect.ValueOf(key))
		if !e.IsValid() {
			return v, false
		}
		return getDeep(e, path[1:])
	case reflect.Slice:
		if key != "[]" || v.Len() == 0 {
			return v, false
		}
		return getDeep(v.Index(0), path[1:])
	}
	return v, false
}

func fieldByYAML(v reflect.Value, key string) (reflect.Value, bool) {
	t := v.Type()
	for i := 0; i < t.NumField(); i++ {
		f := t.Field(i)
		if f.PkgPath != "" && !f.Anonymous {
			continue
		}
		name, inline, skip := yamlName(f)
		if skip {
			continue
		}
		if inline {
			fv := v.Field(i)
			for fv.Kind() == reflect.Ptr {
				if fv.IsNil() {
					break
				}
				fv = fv.Elem()
			}
			if fv.Kind() == reflect.Struct {
				if r, ok := fieldByYAML(fv, key); ok {
					return r, true
				}
			}
			continue
		}
		if name == key {
			return v.Field(i), true
		}
	}
	return reflect.Value{}, false
}
