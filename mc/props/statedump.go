package props

import (
	"fmt"
	"reflect"
	"sort"
	"strings"
	"time"
	"unsafe"
)

// stateDump renders a value graph canonically: pointers are numbered in
// first-visit order (so aliasing is part of the state, addresses are not),
// unexported fields are included, funcs and foreign opaque types are shallow.
type stateDumper struct {
	b    strings.Builder
	seen map[uintptr]int
}

func newStateDumper() *stateDumper { return &stateDumper{seen: map[uintptr]int{}} }

func (d *stateDumper) String() string { return d.b.String() }

func isNfpmType(t reflect.Type) bool {
	return strings.HasPrefix(t.PkgPath(), "github.com/goreleaser/nfpm/v2")
}

func (d *stateDumper) dump(name string, v reflect.Value) {
	d.b.WriteString(name + "=")
	d.val(v, 0)
	d.b.WriteString("\n")
}

func (d *stateDumper) val(v reflect.Value, depth int) {
	if depth > 60 {
		d.b.WriteString("<deep>")
		return
	}
	if !v.IsValid() {
		d.b.WriteString("<invalid>")
		return
	}
	// make unexported fields readable
	if v.CanAddr() && !v.CanInterface() {
		v = reflect.NewAt(v.Type(), unsafe.Pointer(v.UnsafeAddr())).Elem()
	}
	switch v.Kind() {
	case reflect.Ptr:
		if v.IsNil() {
			d.b.WriteString("nil")
			return
		}
		if id, ok := d.seen[v.Pointer()]; ok {
			fmt.Fprintf(&d.b, "^%d", id)
			return
		}
		id := len(d.seen)
		d.seen[v.Pointer()] = id
		fmt.Fprintf(&d.b, "&%d:", id)
		et := v.Type().Elem()
		if et.Kind() == reflect.Struct && !isNfpmType(et) && et != reflect.TypeOf(time.Time{}) && et.PkgPath() != "" {
			d.b.WriteString("<" + et.String() + ">") // foreign object: identity only
			return
		}
		d.val(v.Elem(), depth+1)
	case reflect.Interface:
		if v.IsNil() {
			d.b.WriteString("nil")
			return
		}
		d.b.WriteString("(" + v.Elem().Type().String() + ")")
		d.val(v.Elem(), depth+1)
	case reflect.Struct:
		if v.Type() == reflect.TypeOf(time.Time{}) {
			if v.CanInterface() {
				d.b.WriteString(v.Interface().(time.Time).UTC().Format(time.RFC3339Nano))
			} else {
				d.b.WriteString("<time>")
			}
			return
		}
		if !isNfpmType(v.Type()) && v.Type().PkgPath() != "" {
			d.b.WriteString("<" + v.Type().String() + ">")
			return
		}
		d.b.WriteString("{")
		for i := 0; i < v.NumField(); i++ {
			f := v.Field(i)
			if f.Kind() == reflect.Func {
				if f.IsNil() {
					fmt.Fprintf(&d.b, "%s:nilfunc ", v.Type().Field(i).Name)
				} else {
					fmt.Fprintf(&d.b, "%s:func ", v.Type().Field(i).Name)
				}
				continue
			}
			d.b.WriteString(v.Type().Field(i).Name + ":")
			d.val(f, depth+1)
			d.b.WriteString(" ")
		}
		d.b.WriteString("}")
	case reflect.Slice:
		if v.IsNil() {
			d.b.WriteString("nilslice")
			return
		}
		// the backing array identity and capacity matter (appends into spare capacity are shared writes)
		if v.Cap() > 0 {
			if id, ok := d.seen[v.Pointer()]; ok {
				fmt.Fprintf(&d.b, "^arr%d", id)
			} else {
				d.seen[v.Pointer()] = len(d.seen)
			}
		}
		fmt.Fprintf(&d.b, "[len=%d cap=%d:", v.Len(), v.Cap())
		for i := 0; i < v.Len(); i++ {
			d.val(v.Index(i), depth+1)
			d.b.WriteString(",")
		}
		d.b.WriteString("]")
	case reflect.Array:
		d.b.WriteString("[")
		for i := 0; i < v.Len(); i++ {
			d.val(v.Index(i), depth+1)
			d.b.WriteString(",")
		}
		d.b.WriteString("]")
	case reflect.Map:
		if v.IsNil() {
			d.b.WriteString("nilmap")
			return
		}
		if id, ok := d.seen[v.Pointer()]; ok {
			fmt.Fprintf(&d.b, "^map%d", id)
			return
		}
		d.seen[v.Pointer()] = len(d.seen)
		keys := v.MapKeys()
		sort.Slice(keys, func(i, j int) bool { return fmt.Sprint(keys[i]) < fmt.Sprint(keys[j]) })
		d.b.WriteString("map[")
		for _, k := range keys {
			fmt.Fprintf(&d.b, "%v=", k)
			d.val(v.MapIndex(k), depth+1)
			d.b.WriteString(" ")
		}
		d.b.WriteString("]")
	case reflect.Func:
		if v.IsNil() {
			d.b.WriteString("nilfunc")
		} else {
			d.b.WriteString("func")
		}
	case reflect.Chan, reflect.UnsafePointer:
		d.b.WriteString("<" + v.Kind().String() + ">")
	case reflect.String:
		fmt.Fprintf(&d.b, "%q", v.String())
	case reflect.Bool:
		fmt.Fprintf(&d.b, "%v", v.Bool())
	case reflect.Int, reflect.Int8, reflect.Int16, reflect.Int32, reflect.Int64:
		fmt.Fprintf(&d.b, "%d", v.Int())
	case reflect.Uint, reflect.Uint8, reflect.Uint16, reflect.Uint32, reflect.Uint64, reflect.Uintptr:
		fmt.Fprintf(&d.b, "%d", v.Uint())
	case reflect.Float32, reflect.Float64:
		fmt.Fprintf(&d.b, "%v", v.Float())
	default:
		fmt.Fprintf(&d.b, "<%s>", v.Kind())
	}
}
