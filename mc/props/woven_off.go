//go:build !verif

package props

import "verif/mc/engine"

// wovenAvailable is false in the plain build: the parts of the checks that need
// the woven copy of the repository (clock / map-order / access seams) report
// themselves as not covered.
const wovenAvailable = false

func wovenNote() string {
	return "harness built without the woven copy (weaving failed or not requested)"
}

func registerWoven() {}

var _ = engine.Register
