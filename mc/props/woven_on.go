//go:build verif

package props

import (
	"runtime"
	"runtime/debug"

	"github.com/goreleaser/nfpm/v2/vrt"
)

const wovenAvailable = true

func wovenNote() string { return "" }

// Explore is the deviation-bounded depth-first explorer over recorded choice
// points (the guidance's idiom): run replays prefix and then takes choice 0 at
// every later point; an alternative at point i costs one deviation (for
// scheduling points only when the running thread was still enabled, i.e. a
// preemption).
type exploreStats struct {
	Execs  int
	Capped bool
	Points int
}

func explore(bound, maxExecs int, run func(prefix []int) []vrt.Point) exploreStats {
	var st exploreStats
	var rec func(prefix []int)
	rec = func(prefix []int) {
		if st.Execs >= maxExecs {
			st.Capped = true
			return
		}
		pts := run(prefix)
		st.Execs++
		st.Points += len(pts)
		choices := make([]int, len(pts))
		cost := make([]int, len(pts)+1)
		for i, p := range pts {
			choices[i] = p.Chosen
			cost[i+1] = cost[i]
			if p.Chosen != 0 && (p.Kind != "sched" || p.CurOK) {
				cost[i+1]++
			}
		}
		for i := len(prefix); i < len(pts); i++ {
			p := pts[i]
			c := cost[i]
			if p.Kind != "sched" || p.CurOK {
				c++
			}
			if c > bound {
				continue
			}
			for alt := 1; alt < p.N; alt++ {
				rec(append(append([]int{}, choices[:i]...), alt))
			}
		}
	}
	rec(nil)
	return st
}

// gcOff runs f with the garbage collector switched off (addresses logged by the
// access seam must stay unique during one execution) and collects afterwards.
var execsSinceGC int

func gcOff(f func()) {
	old := debug.SetGCPercent(-1)
	f()
	debug.SetGCPercent(old)
	execsSinceGC++
	if execsSinceGC >= 50 {
		runtime.GC()
		execsSinceGC = 0
	}
}
