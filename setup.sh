#!/bin/bash
# Run once after a fresh restore, offline: builds the harness and warms the Go build cache.
set -e
cd "$(dirname "$0")"
export GOFLAGS=-mod=mod GOPROXY=off GOSUMDB=off GOTOOLCHAIN=local
mkdir -p bin evidence /var/tmp/nfpm-verif
./check build
(cd /repo && go build -o /dev/null ./cmd/nfpm)
echo "setup ok"
