// Command weave copies the nfpm source tree into a scratch directory and
// rewrites the nfpm packages there so that the verification runtime (vrt) sees
// clock reads, host-name reads, map iteration order, memory accesses and
// synchronisation operations. The original tree is never touched.
//
//	weave <src repo> <dst dir> <vrt source dir>
package main

import (
	"bytes"
	"encoding/json"
	"fmt"
	"go/ast"
	"go/format"
	"go/token"
	"go/types"
	"io"
	"io/fs"
	"os"
	"path/filepath"
	"sort"
	"strings"

	"golang.org/x/tools/go/ast/astutil"
	"golang.org/x/tools/go/packages"
)

const modPath = "github.com/goreleaser/nfpm/v2"
const vrtPath = modPath + "/vrt"

type stats struct {
	Reads, Writes, MapOps, MapRanges, MapRangesSkipped, Clock, Host, Mutex, Atomic, Appends, Globals, SyncPoints, FSPoints, ChanOps int
	CmdExport                                                                                                              bool
	Unmodelled                                                                                                             []string
}

type weaver struct {
	pkg  *packages.Package
	info *types.Info
	fset *token.FileSet
	used bool
	st   *stats
	rel  string
	tmpN int
}

func (w *weaver) site(n ast.Node) ast.Expr {
	pos := w.fset.Position(n.Pos())
	return &ast.BasicLit{Kind: token.STRING, Value: fmt.Sprintf("%q", fmt.Sprintf("%s:%d", w.rel, pos.Line))}
}

func (w *weaver) call(fn string, args ...ast.Expr) *ast.CallExpr {
	w.used = true
	return &ast.CallExpr{Fun: &ast.SelectorExpr{X: ast.NewIdent("vrt"), Sel: ast.NewIdent(fn)}, Args: args}
}

func (w *weaver) typeOf(e ast.Expr) types.Type {
	if tv, ok := w.info.Types[e]; ok {
		return tv.Type
	}
	return nil
}

func (w *weaver) addressable(e ast.Expr) bool {
	switch x := e.(type) {
	case *ast.ParenExpr:
		return w.addressable(x.X)
	case *ast.Ident:
		if v, ok := w.info.Uses[x].(*types.Var); ok && !v.IsField() {
			return true
		}
		return false
	case *ast.StarExpr:
		return true
	case *ast.SelectorExpr:
		sel, ok := w.info.Selections[x]
		if !ok || sel.Kind() != types.FieldVal {
			if v, ok := w.info.Uses[x.Sel].(*types.Var); ok && !v.IsField() {
				return true
			}
			return false
		}
		if sel.Indirect() {
			return true
		}
		t := w.typeOf(x.X)
		if t == nil {
			return false
		}
		if _, isPtr := t.Underlying().(*types.Pointer); isPtr {
			return true
		}
		return w.addressable(x.X)
	case *ast.IndexExpr:
		t := w.typeOf(x.X)
		if t == nil {
			return false
		}
		switch u := t.Underlying().(type) {
		case *types.Slice:
			return true
		case *types.Array:
			return w.addressable(x.X)
		case *types.Pointer:
			_, isArr := u.Elem().Underlying().(*types.Array)
			return isArr
		}
		return false
	}
	return false
}

func (w *weaver) isPkgVar(id *ast.Ident) bool {
	v, ok := w.info.Uses[id].(*types.Var)
	if !ok || v.IsField() || v.Pkg() == nil {
		return false
	}
	return v.Parent() == v.Pkg().Scope()
}

func isMap(t types.Type) bool {
	if t == nil {
		return false
	}
	_, ok := t.Underlying().(*types.Map)
	return ok
}

func isStringKeyMap(t types.Type) bool {
	if t == nil {
		return false
	}
	m, ok := t.Underlying().(*types.Map)
	if !ok {
		return false
	}
	b, ok := m.Key().Underlying().(*types.Basic)
	return ok && b.Kind() == types.String && types.Identical(m.Key(), types.Typ[types.String])
}

func (w *weaver) memLoc(e ast.Expr) bool {
	switch x := e.(type) {
	case *ast.ParenExpr:
		return w.memLoc(x.X)
	case *ast.Ident:
		return w.isPkgVar(x)
	case *ast.StarExpr:
		if tv, ok := w.info.Types[x]; ok && tv.IsType() {
			return false
		}
		return true
	case *ast.SelectorExpr:
		if sel, ok := w.info.Selections[x]; ok {
			return sel.Kind() == types.FieldVal && w.addressable(x)
		}
		if id, ok := x.X.(*ast.Ident); ok {
			if _, isPkg := w.info.Uses[id].(*types.PkgName); isPkg {
				if v, ok := w.info.Uses[x.Sel].(*types.Var); ok && !v.IsField() {
					return v.Pkg() != nil && strings.HasPrefix(v.Pkg().Path(), modPath)
				}
			}
		}
		return false
	case *ast.IndexExpr:
		t := w.typeOf(x.X)
		if t == nil || isMap(t) {
			return false
		}
		if tv, ok := w.info.Types[x]; ok && tv.IsType() {
			return false
		}
		if _, isSig := t.Underlying().(*types.Signature); isSig {
			return false
		}
		if b, ok := t.Underlying().(*types.Basic); ok && b.Info()&types.IsString != 0 {
			return false // string indexing is not addressable
		}
		return w.addressable(x)
	}
	return false
}

func (w *weaver) inner(e ast.Expr) ast.Expr {
	switch x := e.(type) {
	case *ast.ParenExpr:
		x.X = w.inner(x.X)
	case *ast.StarExpr:
		x.X = w.expr(x.X)
	case *ast.SelectorExpr:
		if _, ok := w.info.Selections[x]; ok {
			t := w.typeOf(x.X)
			if t != nil {
				if _, isPtr := t.Underlying().(*types.Pointer); isPtr {
					x.X = w.expr(x.X)
					return e
				}
			}
			x.X = w.inner(x.X)
		}
	case *ast.IndexExpr:
		t := w.typeOf(x.X)
		if t != nil {
			if _, isArr := t.Underlying().(*types.Array); isArr {
				x.X = w.inner(x.X)
			} else {
				x.X = w.expr(x.X)
			}
		}
		x.Index = w.expr(x.Index)
	}
	return e
}

func (w *weaver) wrap(fn string, e ast.Expr) ast.Expr {
	s := w.site(e)
	loc := w.inner(e)
	return &ast.StarExpr{X: w.call(fn, &ast.UnaryExpr{Op: token.AND, X: loc}, s)}
}

func (w *weaver) isFuncOf(e ast.Expr, pkg, name string) bool {
	se, ok := e.(*ast.SelectorExpr)
	if !ok {
		return false
	}
	fn, ok := w.info.Uses[se.Sel].(*types.Func)
	return ok && fn.Pkg() != nil && fn.Pkg().Path() == pkg && fn.Name() == name
}

// mutexRecv returns the receiver expression if call is mu.Lock()/mu.Unlock() on a sync.Mutex.
func (w *weaver) mutexCall(call *ast.CallExpr) (recv ast.Expr, method string, ok bool) {
	se, isSel := call.Fun.(*ast.SelectorExpr)
	if !isSel {
		return nil, "", false
	}
	sel, has := w.info.Selections[se]
	if !has || sel.Kind() != types.MethodVal {
		return nil, "", false
	}
	fn, _ := sel.Obj().(*types.Func)
	if fn == nil || fn.Pkg() == nil || fn.Pkg().Path() != "sync" {
		return nil, "", false
	}
	recvT := sel.Recv()
	if p, isPtr := recvT.(*types.Pointer); isPtr {
		recvT = p.Elem()
	}
	named, _ := recvT.(*types.Named)
	if named == nil {
		return nil, "", false
	}
	if named.Obj().Name() == "Mutex" && (fn.Name() == "Lock" || fn.Name() == "Unlock") {
		return se.X, fn.Name(), true
	}
	return nil, "", false
}

// otherSyncCall reports a method call on a sync type other than Mutex.Lock/Unlock
// (sync.Pool, sync.Map, sync.Once ...): "nonblocking" ones become scheduling
// points, blocking ones are recorded as unmodelled.
func (w *weaver) otherSyncCall(call *ast.CallExpr) (typ, method string, ok bool) {
	se, isSel := call.Fun.(*ast.SelectorExpr)
	if !isSel {
		return "", "", false
	}
	sel, has := w.info.Selections[se]
	if !has || sel.Kind() != types.MethodVal {
		return "", "", false
	}
	fn, _ := sel.Obj().(*types.Func)
	if fn == nil || fn.Pkg() == nil || fn.Pkg().Path() != "sync" {
		return "", "", false
	}
	recvT := sel.Recv()
	if p, isPtr := recvT.(*types.Pointer); isPtr {
		recvT = p.Elem()
	}
	named, _ := recvT.(*types.Named)
	if named == nil {
		return "", "", false
	}
	typ, method = named.Obj().Name(), fn.Name()
	if typ == "Mutex" && (method == "Lock" || method == "Unlock") {
		return "", "", false
	}
	switch typ + "." + method {
	case "Pool.Get", "Pool.Put", "Map.Load", "Map.Store", "Map.LoadOrStore", "Map.LoadAndDelete", "Map.Delete", "Map.Range", "Map.Swap", "Map.CompareAndSwap", "Map.CompareAndDelete", "Mutex.TryLock":
		return typ, method, true
	}
	w.st.Unmodelled = append(w.st.Unmodelled, fmt.Sprintf("%s: sync.%s.%s", w.fset.Position(call.Pos()), typ, method))
	return "", "", false
}

func (w *weaver) expr(e ast.Expr) ast.Expr {
	if e == nil {
		return nil
	}
	if tv, ok := w.info.Types[e]; ok && (tv.IsType() || tv.Value != nil) {
		return e
	}
	if w.memLoc(e) {
		w.st.Reads++
		return w.wrap("R", e)
	}
	switch x := e.(type) {
	case *ast.ParenExpr:
		x.X = w.expr(x.X)
	case *ast.SelectorExpr:
		if _, ok := w.info.Selections[x]; ok {
			x.X = w.expr(x.X)
		}
	case *ast.IndexExpr:
		t := w.typeOf(x.X)
		if isMap(t) {
			w.st.MapOps++
			s := w.site(x)
			x.X = w.call("MR", w.expr(x.X), s)
			x.Index = w.expr(x.Index)
		} else if t != nil {
			if _, isSig := t.Underlying().(*types.Signature); !isSig {
				x.X = w.expr(x.X)
				x.Index = w.expr(x.Index)
			}
		}
	case *ast.IndexListExpr:
		// generic instantiation: leave
	case *ast.SliceExpr:
		x.X = w.expr(x.X)
		x.Low, x.High, x.Max = w.expr(x.Low), w.expr(x.High), w.expr(x.Max)
	case *ast.StarExpr:
		x.X = w.expr(x.X)
	case *ast.UnaryExpr:
		if x.Op == token.AND {
			if _, isLit := x.X.(*ast.CompositeLit); isLit {
				x.X = w.expr(x.X)
			} else {
				x.X = w.inner(x.X)
			}
		} else {
			if x.Op == token.ARROW {
				if _, commaOK := w.typeOf(x).(*types.Tuple); !commaOK && w.typeOf(x) != nil {
					// <-ch -> vrt.ChanRecv(ch, site): a scheduling point that blocks under the scheduler
					w.st.ChanOps++
					return w.call("ChanRecv", w.expr(x.X), w.site(x))
				}
				w.st.Unmodelled = append(w.st.Unmodelled, fmt.Sprintf("%s: channel receive (v, ok form)", w.fset.Position(x.Pos())))
			}
			x.X = w.expr(x.X)
		}
	case *ast.BinaryExpr:
		x.X, x.Y = w.expr(x.X), w.expr(x.Y)
	case *ast.CallExpr:
		if w.isFuncOf(x.Fun, "time", "Now") && len(x.Args) == 0 {
			w.st.Clock++
			return w.call("Now")
		}
		if w.isFuncOf(x.Fun, "os", "Hostname") && len(x.Args) == 0 {
			w.st.Host++
			return w.call("Hostname")
		}
		if w.isFuncOf(x.Fun, "sync/atomic", "AddUint64") && len(x.Args) == 2 {
			w.st.Atomic++
			s := w.site(x)
			return w.call("AtomicAddUint64", w.addrArg(x.Args[0]), w.expr(x.Args[1]), s)
		}
		if w.isFuncOf(x.Fun, "sync/atomic", "LoadUint64") && len(x.Args) == 1 {
			w.st.Atomic++
			s := w.site(x)
			return w.call("AtomicLoadUint64", w.addrArg(x.Args[0]), s)
		}
		// the file system namespace as shared locations: a path is a location; creating, truncating, removing or
		// renaming it is a write, opening it for reading, reading it or asking about it a read
		if se, ok := x.Fun.(*ast.SelectorExpr); ok {
			if fn, ok := w.info.Uses[se.Sel].(*types.Func); ok && fn.Pkg() != nil && fn.Pkg().Path() == "os" && fn.Type().(*types.Signature).Recv() == nil {
				wr := map[string][]int{"Create": {0}, "Remove": {0}, "RemoveAll": {0}, "Mkdir": {0}, "MkdirAll": {0}, "WriteFile": {0}, "Truncate": {0}, "Chmod": {0}, "Chown": {0}, "Lchown": {0}, "Chtimes": {0}, "Symlink": {1}, "Link": {1}, "Rename": {0, 1}}
				rd := map[string][]int{"Open": {0}, "ReadFile": {0}, "Stat": {0}, "Lstat": {0}, "ReadDir": {0}, "Readlink": {0}, "Link": {0}}
				name := fn.Name()
				if name == "OpenFile" && len(x.Args) == 3 {
					w.st.FSPoints++
					s := w.site(x)
					return w.call("OpenFile", w.expr(x.Args[0]), w.expr(x.Args[1]), w.expr(x.Args[2]), s)
				}
				if name == "Chdir" && len(x.Args) == 1 {
					// the working directory of the process is one shared location: changing it is a write, resolving
					// a relative path (any FSW / FSR of one) a read
					w.st.FSPoints++
					x.Args[0] = w.call("FSChdir", w.expr(x.Args[0]), w.site(x))
					return x
				}
				if (name == "CreateTemp" || name == "MkdirTemp") && len(x.Args) == 2 {
					w.st.FSPoints++
					s := w.site(x)
					return w.call(name, w.expr(x.Args[0]), w.expr(x.Args[1]), s)
				}
				if idx, isW := wr[name]; isW || rd[name] != nil {
					w.st.FSPoints++
					s := w.site(x)
					for i := range x.Args {
						x.Args[i] = w.expr(x.Args[i])
					}
					for _, i := range idx {
						if i < len(x.Args) {
							x.Args[i] = w.call("FSW", x.Args[i], s)
						}
					}
					for _, i := range rd[name] {
						if i < len(x.Args) {
							x.Args[i] = w.call("FSR", x.Args[i], s)
						}
					}
					return x
				}
			}
		}
		if se, ok := x.Fun.(*ast.SelectorExpr); ok {
			if fn, ok := w.info.Uses[se.Sel].(*types.Func); ok && fn.Pkg() != nil && fn.Pkg().Path() == "sync/atomic" {
				w.st.Unmodelled = append(w.st.Unmodelled, fmt.Sprintf("%s: atomic.%s", w.fset.Position(x.Pos()), fn.Name()))
			}
		}
		if recv, method, ok := w.mutexCall(x); ok {
			w.st.Mutex++
			s := w.site(x)
			return w.call("Mu"+method, w.addrArg(recv), s)
		}
		if _, _, ok := w.otherSyncCall(x); ok {
			// vrt.Sync(site, recv.Method)(args...): a scheduling point before the operation
			w.st.SyncPoints++
			s := w.site(x)
			for i := range x.Args {
				x.Args[i] = w.expr(x.Args[i])
			}
			if se, ok := x.Fun.(*ast.SelectorExpr); ok {
				se.X = w.expr(se.X)
			}
			x.Fun = w.call("Sync", s, x.Fun)
			return x
		}
		if tv, ok := w.info.Types[x.Fun]; ok && tv.IsType() {
			// conversion
		} else if id, ok := x.Fun.(*ast.Ident); ok && w.info.Uses[id] != nil && w.info.Uses[id].Parent() == types.Universe {
			switch id.Name {
			case "delete":
				if len(x.Args) == 2 {
					w.st.MapOps++
					s := w.site(x)
					x.Args[0] = w.call("MW", w.expr(x.Args[0]), s)
					x.Args[1] = w.expr(x.Args[1])
					return x
				}
			case "close":
				if len(x.Args) == 1 {
					w.st.ChanOps++
					return w.call("ChanClose", w.expr(x.Args[0]), w.site(x))
				}
			case "new", "make":
				for i := 1; i < len(x.Args); i++ {
					x.Args[i] = w.expr(x.Args[i])
				}
				return x
			case "append":
				if len(x.Args) >= 1 && !x.Ellipsis.IsValid() || len(x.Args) == 2 {
					w.st.Appends++
					s := w.site(x)
					x.Args[0] = w.call("AppendW", w.expr(x.Args[0]), s)
					for i := 1; i < len(x.Args); i++ {
						x.Args[i] = w.expr(x.Args[i])
					}
					return x
				}
			}
		} else {
			x.Fun = w.expr(x.Fun)
		}
		for i := range x.Args {
			x.Args[i] = w.expr(x.Args[i])
		}
	case *ast.CompositeLit:
		t := w.typeOf(x)
		isStruct := false
		if t != nil {
			u := t.Underlying()
			if p, ok := u.(*types.Pointer); ok {
				u = p.Elem().Underlying()
			}
			_, isStruct = u.(*types.Struct)
		}
		for i, el := range x.Elts {
			if kv, ok := el.(*ast.KeyValueExpr); ok {
				if !isStruct {
					kv.Key = w.expr(kv.Key)
				}
				kv.Value = w.expr(kv.Value)
			} else {
				x.Elts[i] = w.expr(el)
			}
		}
	case *ast.KeyValueExpr:
		x.Value = w.expr(x.Value)
	case *ast.TypeAssertExpr:
		x.X = w.expr(x.X)
	case *ast.FuncLit:
		w.block(x.Body)
	}
	return e
}

// addrArg rewrites an argument that is the address of a synchronisation variable.
func (w *weaver) addrArg(e ast.Expr) ast.Expr {
	if u, ok := e.(*ast.UnaryExpr); ok && u.Op == token.AND {
		u.X = w.inner(u.X)
		return u
	}
	t := w.typeOf(e)
	if t != nil {
		if _, isPtr := t.Underlying().(*types.Pointer); isPtr {
			return w.expr(e)
		}
	}
	return &ast.UnaryExpr{Op: token.AND, X: w.inner(e)}
}

func (w *weaver) lhs(e ast.Expr, define bool) ast.Expr {
	if define {
		return e
	}
	if id, ok := e.(*ast.Ident); ok && id.Name == "_" {
		return e
	}
	if ix, ok := e.(*ast.IndexExpr); ok && isMap(w.typeOf(ix.X)) {
		w.st.MapOps++
		s := w.site(ix)
		ix.X = w.call("MW", w.expr(ix.X), s)
		ix.Index = w.expr(ix.Index)
		return ix
	}
	if w.memLoc(e) {
		w.st.Writes++
		return w.wrap("W", e)
	}
	return w.inner(e)
}

func (w *weaver) block(b *ast.BlockStmt) {
	if b == nil {
		return
	}
	for i, s := range b.List {
		b.List[i] = w.stmt(s)
	}
}

func (w *weaver) stmts(l []ast.Stmt) {
	for i := range l {
		l[i] = w.stmt(l[i])
	}
}

// mapRange rewrites `for k, v := range m` over a string-keyed map into an
// iteration over vrt.MapKeys(m) so that the harness decides the order.
func (w *weaver) mapRange(x *ast.RangeStmt, t types.Type) ast.Stmt {
	w.tmpN++
	kName := fmt.Sprintf("vrtKey%d", w.tmpN)
	mName := fmt.Sprintf("vrtMap%d", w.tmpN)
	site := w.site(x)
	mapExpr := w.expr(x.X)
	w.st.MapRanges++
	var pre []ast.Stmt
	valUsed := x.Value != nil && !isBlank(x.Value)
	keyUsed := x.Key != nil && !isBlank(x.Key)
	tok := x.Tok
	if tok == token.ILLEGAL {
		tok = token.DEFINE
	}
	// entries deleted during the iteration are not produced (Go semantics)
	okName := fmt.Sprintf("vrtOk%d", w.tmpN)
	valName := fmt.Sprintf("vrtVal%d", w.tmpN)
	pre = append(pre, &ast.AssignStmt{
		Lhs: []ast.Expr{ast.NewIdent(valName), ast.NewIdent(okName)}, Tok: token.DEFINE,
		Rhs: []ast.Expr{&ast.IndexExpr{X: ast.NewIdent(mName), Index: ast.NewIdent(kName)}},
	})
	pre = append(pre, &ast.IfStmt{Cond: &ast.UnaryExpr{Op: token.NOT, X: ast.NewIdent(okName)}, Body: &ast.BlockStmt{List: []ast.Stmt{&ast.BranchStmt{Tok: token.CONTINUE}}}})
	pre = append(pre, &ast.AssignStmt{Lhs: []ast.Expr{ast.NewIdent("_")}, Tok: token.ASSIGN, Rhs: []ast.Expr{ast.NewIdent(valName)}})
	if keyUsed {
		k := x.Key
		if tok == token.ASSIGN {
			k = w.lhs(k, false)
		}
		pre = append(pre, &ast.AssignStmt{Lhs: []ast.Expr{k}, Tok: tok, Rhs: []ast.Expr{ast.NewIdent(kName)}})
	}
	if valUsed {
		v := x.Value
		if tok == token.ASSIGN {
			v = w.lhs(v, false)
		}
		pre = append(pre, &ast.AssignStmt{Lhs: []ast.Expr{v}, Tok: tok, Rhs: []ast.Expr{ast.NewIdent(valName)}})
	}
	w.block(x.Body)
	body := &ast.BlockStmt{List: append(pre, x.Body.List...)}
	loop := &ast.RangeStmt{Key: ast.NewIdent("_"), Value: ast.NewIdent(kName), Tok: token.DEFINE,
		X: w.call("MapKeys", ast.NewIdent(mName), site), Body: body}
	return &ast.BlockStmt{List: []ast.Stmt{
		&ast.AssignStmt{Lhs: []ast.Expr{ast.NewIdent(mName)}, Tok: token.DEFINE, Rhs: []ast.Expr{mapExpr}},
		loop,
	}}
}

func isBlank(e ast.Expr) bool {
	id, ok := e.(*ast.Ident)
	return ok && id.Name == "_"
}

func (w *weaver) stmt(s ast.Stmt) ast.Stmt {
	switch x := s.(type) {
	case *ast.ExprStmt:
		if c, ok := x.X.(*ast.CallExpr); ok {
			if _, _, isSync := w.otherSyncCall(c); isSync {
				// a scheduling point before and after the operation
				site := w.site(c)
				x.X = w.expr(x.X)
				return &ast.BlockStmt{List: []ast.Stmt{x, &ast.ExprStmt{X: w.call("SyncAfter", site)}}}
			}
		}
		x.X = w.expr(x.X)
	case *ast.AssignStmt:
		for i := range x.Rhs {
			x.Rhs[i] = w.expr(x.Rhs[i])
		}
		for i := range x.Lhs {
			x.Lhs[i] = w.lhs(x.Lhs[i], x.Tok == token.DEFINE)
		}
	case *ast.IncDecStmt:
		x.X = w.lhs(x.X, false)
	case *ast.DeclStmt:
		if gd, ok := x.Decl.(*ast.GenDecl); ok {
			for _, sp := range gd.Specs {
				if vs, ok := sp.(*ast.ValueSpec); ok {
					for i := range vs.Values {
						vs.Values[i] = w.expr(vs.Values[i])
					}
				}
			}
		}
	case *ast.ReturnStmt:
		for i := range x.Results {
			x.Results[i] = w.expr(x.Results[i])
		}
	case *ast.IfStmt:
		if x.Init != nil {
			x.Init = w.stmt(x.Init)
		}
		x.Cond = w.expr(x.Cond)
		w.block(x.Body)
		if x.Else != nil {
			x.Else = w.stmt(x.Else)
		}
	case *ast.BlockStmt:
		w.block(x)
	case *ast.ForStmt:
		if x.Init != nil {
			x.Init = w.stmt(x.Init)
		}
		x.Cond = w.expr(x.Cond)
		if x.Post != nil {
			x.Post = w.stmt(x.Post)
		}
		w.block(x.Body)
	case *ast.RangeStmt:
		t := w.typeOf(x.X)
		if isStringKeyMap(t) {
			return w.mapRange(x, t)
		}
		x.X = w.expr(x.X)
		if isMap(t) {
			w.st.MapRangesSkipped++
			x.X = w.call("MR", x.X, w.site(x))
		} else if t != nil {
			if _, isSlice := t.Underlying().(*types.Slice); isSlice {
				x.X = w.call("SRange", x.X, w.site(x))
			}
		}
		if x.Tok == token.ASSIGN {
			if x.Key != nil {
				x.Key = w.lhs(x.Key, false)
			}
			if x.Value != nil {
				x.Value = w.lhs(x.Value, false)
			}
		}
		w.block(x.Body)
	case *ast.SwitchStmt:
		if x.Init != nil {
			x.Init = w.stmt(x.Init)
		}
		x.Tag = w.expr(x.Tag)
		for _, c := range x.Body.List {
			cc := c.(*ast.CaseClause)
			for i := range cc.List {
				cc.List[i] = w.expr(cc.List[i])
			}
			w.stmts(cc.Body)
		}
	case *ast.TypeSwitchStmt:
		if x.Init != nil {
			x.Init = w.stmt(x.Init)
		}
		for _, c := range x.Body.List {
			w.stmts(c.(*ast.CaseClause).Body)
		}
	case *ast.SelectStmt:
		w.st.Unmodelled = append(w.st.Unmodelled, fmt.Sprintf("%s: select", w.fset.Position(x.Pos())))
		for _, c := range x.Body.List {
			w.stmts(c.(*ast.CommClause).Body)
		}
	case *ast.DeferStmt:
		if _, _, isSync := w.otherSyncCall(x.Call); isSync && len(x.Call.Args) <= 1 {
			// defer recv.Method(arg) -> defer vrt.DeferSyncN(site, recv.Method, arg): same evaluation
			// order, scheduling points before and after the operation
			site := w.site(x.Call)
			w.st.SyncPoints++
			fnExpr := x.Call.Fun
			if se, ok := fnExpr.(*ast.SelectorExpr); ok {
				se.X = w.expr(se.X)
			}
			args := []ast.Expr{site, fnExpr}
			name := "DeferSync0"
			if len(x.Call.Args) == 1 {
				name = "DeferSync1"
				args = append(args, w.expr(x.Call.Args[0]))
			}
			x.Call = w.call(name, args...)
			return x
		}
		if c, ok := w.expr(x.Call).(*ast.CallExpr); ok {
			x.Call = c
		}
	case *ast.GoStmt:
		w.st.Unmodelled = append(w.st.Unmodelled, fmt.Sprintf("%s: go statement", w.fset.Position(x.Pos())))
		if c, ok := w.expr(x.Call).(*ast.CallExpr); ok {
			x.Call = c
		}
	case *ast.LabeledStmt:
		x.Stmt = w.stmt(x.Stmt)
	case *ast.SendStmt:
		// ch <- v -> vrt.ChanSend(ch, v, site)
		w.st.ChanOps++
		site := w.site(x)
		return &ast.ExprStmt{X: w.call("ChanSend", w.expr(x.Chan), w.expr(x.Value), site)}
	}
	return s
}

func copyTree(src, dst string) error {
	return filepath.WalkDir(src, func(p string, d fs.DirEntry, err error) error {
		if err != nil {
			return err
		}
		rel, _ := filepath.Rel(src, p)
		if rel == ".git" || rel == "vrt" {
			if d.IsDir() {
				return filepath.SkipDir
			}
			return nil // a worktree's .git is a file: SkipDir here would skip the rest of the tree
		}
		out := filepath.Join(dst, rel)
		if d.IsDir() {
			return os.MkdirAll(out, 0o755)
		}
		if d.Type()&fs.ModeSymlink != 0 {
			t, err := os.Readlink(p)
			if err != nil {
				return err
			}
			return os.Symlink(t, out)
		}
		in, err := os.Open(p)
		if err != nil {
			return err
		}
		defer in.Close()
		fi, _ := d.Info()
		o, err := os.OpenFile(out, os.O_CREATE|os.O_WRONLY|os.O_TRUNC, fi.Mode().Perm())
		if err != nil {
			return err
		}
		defer o.Close()
		_, err = io.Copy(o, in)
		return err
	})
}

func main() {
	if len(os.Args) < 4 {
		fmt.Fprintln(os.Stderr, "usage: weave <src> <dst> <vrt dir>")
		os.Exit(2)
	}
	src, dst, vrtSrc := os.Args[1], os.Args[2], os.Args[3]
	if r, err := filepath.EvalSymlinks(src); err == nil {
		src = r // file names reported by go/packages are resolved paths
	}
	if a, err := filepath.Abs(src); err == nil {
		src = a
	}
	must := func(err error) {
		if err != nil {
			fmt.Fprintln(os.Stderr, "weave:", err)
			os.Exit(1)
		}
	}
	must(copyTree(src, dst))
	must(os.MkdirAll(filepath.Join(dst, "vrt"), 0o755))
	ents, err := os.ReadDir(vrtSrc)
	must(err)
	for _, e := range ents {
		b, err := os.ReadFile(filepath.Join(vrtSrc, e.Name()))
		must(err)
		must(os.WriteFile(filepath.Join(dst, "vrt", e.Name()), b, 0o644))
	}
	cfg := &packages.Config{
		Mode: packages.NeedName | packages.NeedFiles | packages.NeedSyntax | packages.NeedTypes | packages.NeedTypesInfo | packages.NeedImports | packages.NeedDeps,
		Dir:  src, Env: append(os.Environ(), "GOFLAGS=-mod=mod"),
	}
	pkgs, err := packages.Load(cfg, "./...")
	must(err)
	st := &stats{}
	for _, p := range pkgs {
		if len(p.Errors) > 0 {
			must(fmt.Errorf("%s: %v", p.PkgPath, p.Errors))
		}
		if !strings.HasPrefix(p.PkgPath, modPath) || p.PkgPath == vrtPath || strings.HasSuffix(p.PkgPath, "/testdata") {
			continue
		}
		// package-level variables -> registry
		var globals []string
		for _, f := range p.Syntax {
			for _, d := range f.Decls {
				gd, ok := d.(*ast.GenDecl)
				if !ok || gd.Tok != token.VAR {
					continue
				}
				for _, sp := range gd.Specs {
					for _, n := range sp.(*ast.ValueSpec).Names {
						if n.Name != "_" {
							globals = append(globals, n.Name)
						}
					}
				}
			}
		}
		pkgDir := ""
		for _, f := range p.Syntax {
			name := p.Fset.File(f.Pos()).Name()
			rel, _ := filepath.Rel(src, name)
			pkgDir = filepath.Dir(rel)
			w := &weaver{pkg: p, info: p.TypesInfo, fset: p.Fset, st: st, rel: rel}
			for _, d := range f.Decls {
				if fd, ok := d.(*ast.FuncDecl); ok && fd.Body != nil {
					w.block(fd.Body)
				}
			}
			if w.used {
				astutil.AddNamedImport(p.Fset, f, "vrt", vrtPath)
			}
			// imports that became unused (time, os, sync/atomic) are dropped
			for _, imp := range []string{"time", "os", "sync/atomic"} {
				if !astutil.UsesImport(f, imp) {
					astutil.DeleteImport(p.Fset, f, imp)
				}
			}
			var buf bytes.Buffer
			must(format.Node(&buf, p.Fset, f))
			must(os.WriteFile(filepath.Join(dst, rel), buf.Bytes(), 0o644))
		}
		if len(globals) > 0 && p.Name != "main" {
			sort.Strings(globals)
			var b bytes.Buffer
			fmt.Fprintf(&b, "// Code generated by verif/weave. DO NOT EDIT.\n\npackage %s\n\nimport vrt %q\n\nfunc init() {\n", p.Name, vrtPath)
			short := strings.TrimPrefix(strings.TrimPrefix(p.PkgPath, modPath), "/")
			if short == "" {
				short = "nfpm"
			}
			for _, g := range globals {
				fmt.Fprintf(&b, "\tvrt.RegisterGlobal(%q, &%s)\n", short+"."+g, g)
				st.Globals++
			}
			b.WriteString("}\n")
			must(os.WriteFile(filepath.Join(dst, pkgDir, "zz_verif_globals.go"), b.Bytes(), 0o644))
		}
	}
	// the command-line tool's packaging function, exported for the concurrency harness (two runs in one directory):
	// internal/cmd cannot be imported from outside the module, a package next to it can. When the function is not found
	// in its known form the package still exists and says so (only that scenario is then lost)
	must(os.MkdirAll(filepath.Join(dst, "vrtcmd"), 0o755))
	head := "// Code generated by verif/weave. DO NOT EDIT.\n\n// Package vrtcmd makes the command-line tool's packaging function reachable from the harness.\npackage vrtcmd\n\n"
	if src, err := os.ReadFile(filepath.Join(dst, "internal", "cmd", "package.go")); err == nil && bytes.Contains(src, []byte("func doPackage(configPath, target, packager string) error")) {
		must(os.WriteFile(filepath.Join(dst, "internal", "cmd", "zz_verif_export.go"), []byte("// Code generated by verif/weave. DO NOT EDIT.\n\npackage cmd\n\n// VerifDoPackage is what `nfpm package -f configPath -t target -p packager` runs.\nfunc VerifDoPackage(configPath, target, packager string) error {\n\treturn doPackage(configPath, target, packager)\n}\n"), 0o644))
		must(os.WriteFile(filepath.Join(dst, "vrtcmd", "vrtcmd.go"), []byte(head+"import \""+modPath+"/internal/cmd\"\n\n// Available tells whether the function was found.\nconst Available = true\n\n// DoPackage is what `nfpm package -f configPath -t target -p packager` runs.\nfunc DoPackage(configPath, target, packager string) error {\n\treturn cmd.VerifDoPackage(configPath, target, packager)\n}\n"), 0o644))
		st.CmdExport = true
	} else {
		must(os.WriteFile(filepath.Join(dst, "vrtcmd", "vrtcmd.go"), []byte(head+"import \"errors\"\n\n// Available tells whether the function was found.\nconst Available = false\n\n// DoPackage: internal/cmd has no func doPackage(configPath, target, packager string) error.\nfunc DoPackage(configPath, target, packager string) error {\n\treturn errors.New(\"internal/cmd.doPackage not found in its known form\")\n}\n"), 0o644))
	}
	sort.Strings(st.Unmodelled)
	rep, _ := json.MarshalIndent(st, "", " ")
	must(os.WriteFile(filepath.Join(dst, "vrt", "weave-report.json"), rep, 0o644))
	fmt.Printf("woven: reads=%d writes=%d mapops=%d mapranges=%d (skipped %d) clock=%d host=%d mutex=%d atomic=%d syncpoints=%d fs=%d appends=%d globals=%d unmodelled=%d\n",
		st.Reads, st.Writes, st.MapOps, st.MapRanges, st.MapRangesSkipped, st.Clock, st.Host, st.Mutex, st.Atomic, st.SyncPoints, st.FSPoints, st.Appends, st.Globals, len(st.Unmodelled))
}
