// Package vrt is the verification runtime woven into a scratch copy of nfpm.
// Outside an active exploration every function is a pass-through.
//
// It provides
//   - choice points (Choose) recorded and replayed by an explorer,
//   - seams for the clock, the host name and map iteration order,
//   - an access log of memory reads/writes performed by woven code with a
//     cooperative scheduler (one goroutine runs at a time, switches happen at
//     accesses to contended shared locations and at synchronisation operations),
//   - a happens-before race detector over that log,
//   - a registry of package-level variables.
package vrt

import (
	"fmt"
	"os"
	"path/filepath"
	"reflect"
	"sort"
	"sync"
	"sync/atomic"
	"time"
	"unsafe"
)

// ---------------------------------------------------------------- globals registry

type Global struct {
	Name string
	Ptr  any // pointer to the variable
}

var globals []Global

// RegisterGlobal is called from generated init functions for every package-level variable.
func RegisterGlobal(name string, ptr any) { globals = append(globals, Global{name, ptr}) }

// Globals lists the registered package-level variables (sorted by name).
func Globals() []Global {
	g := append([]Global{}, globals...)
	sort.Slice(g, func(i, j int) bool { return g[i].Name < g[j].Name })
	return g
}

// ---------------------------------------------------------------- choice points

// Point is one recorded choice point.
type Point struct {
	Kind    string // sched | maporder
	Site    string
	N       int // number of alternatives
	Chosen  int
	Cur     int  // sched: running thread before the choice (-1 none)
	CurOK   bool // sched: the running thread was still enabled (choosing another one is a preemption)
	Enabled []int
}

var (
	prefix   []int
	Points   []Point
	choosing bool
)

// BeginChoices starts recording choice points, replaying the given prefix first.
func BeginChoices(pfx []int) {
	prefix = pfx
	Points = nil
	choosing = true
}

// EndChoices stops recording and returns the points of this execution.
func EndChoices() []Point {
	choosing = false
	p := Points
	Points = nil
	return p
}

// ErrDivergence is raised (by panic) when a replayed prefix does not fit the execution.
type ErrDivergence struct{ Msg string }

func (e ErrDivergence) Error() string { return "schedule divergence: " + e.Msg }

func choose(kind, site string, n int, cur int, curOK bool, enabled []int) int {
	if !choosing || n <= 1 {
		return 0
	}
	k := len(Points)
	c := 0
	if k < len(prefix) {
		c = prefix[k]
		if c >= n {
			panic(ErrDivergence{fmt.Sprintf("choice %d at point %d (%s %s) but only %d alternatives", c, k, kind, site, n)})
		}
	}
	Points = append(Points, Point{Kind: kind, Site: site, N: n, Chosen: c, Cur: cur, CurOK: curOK, Enabled: enabled})
	return c
}

// ---------------------------------------------------------------- clock / host seams

var (
	fakeNow   time.Time
	nowCalls  int
	fakeHost  string
	hostCalls int
)

// SetClock installs a fixed clock (zero = real clock).
func SetClock(t time.Time) { fakeNow = t; nowCalls = 0 }

// NowCalls reports how often woven code read the clock since SetClock.
func NowCalls() int { return nowCalls }

// Now replaces time.Now in woven code.
func Now() time.Time {
	nowCalls++
	if fakeNow.IsZero() {
		return time.Now()
	}
	return fakeNow
}

// SetHostname installs a fixed host name ("" = real).
func SetHostname(h string) { fakeHost = h; hostCalls = 0 }
func HostnameCalls() int   { return hostCalls }

// Hostname replaces os.Hostname in woven code.
func Hostname() (string, error) {
	hostCalls++
	if fakeHost == "" {
		return os.Hostname()
	}
	return fakeHost, nil
}

// ---------------------------------------------------------------- map order seam

var mapOrderActive bool
var MapRanges int // number of woven map ranges executed while the seam was active

// SetMapOrder switches the map-order seam on: every woven `range` over a
// string-keyed map becomes a choice point among key orders.
func SetMapOrder(on bool) { mapOrderActive = on; MapRanges = 0 }

// perms lists the orders offered for n keys: all n! for n<=4, otherwise
// sorted, reversed and every rotation. Order 0 is always "sorted".
func perms(n int) [][]int {
	id := make([]int, n)
	for i := range id {
		id[i] = i
	}
	if n <= 4 {
		var out [][]int
		var rec func(cur, rest []int)
		rec = func(cur, rest []int) {
			if len(rest) == 0 {
				out = append(out, append([]int{}, cur...))
				return
			}
			for i := range rest {
				r := append(append([]int{}, rest[:i]...), rest[i+1:]...)
				rec(append(cur, rest[i]), r)
			}
		}
		rec(nil, id)
		return out
	}
	out := [][]int{id}
	rev := make([]int, n)
	for i := range rev {
		rev[i] = n - 1 - i
	}
	out = append(out, rev)
	for r := 1; r < n; r++ {
		p := make([]int, n)
		for i := range p {
			p[i] = (i + r) % n
		}
		out = append(out, p)
	}
	return out
}

// MapKeys returns the keys of m in the order the explorer chose (sorted by default).
// Without an active seam it returns them in Go's own (random) order - sorted while the scheduler runs.
func MapKeys[M ~map[string]V, V any](m M, site string) []string {
	keys := make([]string, 0, len(m))
	for k := range m {
		keys = append(keys, k)
	}
	if active && m != nil {
		access(mapPtr(m), 8, false, site)
	}
	if !mapOrderActive {
		if active {
			// under the scheduler an execution is a function of its schedule: one fixed key order (the orders
			// themselves are the map-order seam's subject)
			sort.Strings(keys)
		}
		return keys
	}
	MapRanges++
	sort.Strings(keys)
	if len(keys) < 2 {
		return keys
	}
	ps := perms(len(keys))
	c := choose("maporder", site, len(ps), -1, false, nil)
	out := make([]string, len(keys))
	for i, j := range ps[c] {
		out[i] = keys[j]
	}
	return out
}

// ---------------------------------------------------------------- access log + scheduler

type region struct {
	lo, hi uintptr
	id     int
	name   string
}

// Event is one logged access to a registered shared region.
type Event struct {
	T      int
	Region int
	Off    uintptr
	Size   uintptr
	Write  bool
	Site   string
}

// Race is one detected data race.
type Race struct {
	Where      string // region name + offset, or "unregistered memory"
	First      string // "T0 write at site"
	Second     string
	Registered bool
}

type thread struct {
	id      int
	resume  chan struct{}
	done    bool
	blocked *sync.Mutex
	waiting func() bool // a channel operation that cannot proceed yet: reports whether it can now
	vc      []int
	panic   any
}

type wordState struct {
	wT    int
	wVC   []int
	wSite string
	has   bool
	rVC   map[int][]int
	rSite map[int]string
}

var (
	active                    bool
	regions                   []region
	cur                       *thread
	threads                   []*thread
	ctl                       chan int
	Events                    []Event
	contended                 = map[[2]uintptr]bool{} // (region, word) written by some thread in some execution
	newContended              bool
	words                     map[uintptr]*wordState
	Races                     []Race
	raceSeen                  map[string]bool
	muVC                      map[*sync.Mutex][]int
	atomVC                    map[unsafe.Pointer][]int
	SharedReads, SharedWrites int
	AllAccesses               int
	UnmodelledSync            []string
)

func lookup(a uintptr) (region, uintptr, bool) {
	i := sort.Search(len(regions), func(i int) bool { return regions[i].hi > a })
	if i < len(regions) && regions[i].lo <= a {
		return regions[i], a - regions[i].lo, true
	}
	return region{}, 0, false
}

func vcLeq(a, b []int) bool {
	for i := range a {
		if a[i] > b[i] {
			return false
		}
	}
	return true
}

func vcCopy(a []int) []int { return append([]int{}, a...) }
func vcJoin(dst, src []int) {
	for i := range src {
		if i < len(dst) && src[i] > dst[i] {
			dst[i] = src[i]
		}
	}
}

func report(where string, registered bool, first, second string) {
	key := where + "|" + first + "|" + second
	if raceSeen[key] {
		return
	}
	raceSeen[key] = true
	Races = append(Races, Race{Where: where, First: first, Second: second, Registered: registered})
}

// sink makes every logged pointer escape, so that woven locations live on the
// heap: their addresses are stable (no stack moves) and unique while the GC is off.
var sink unsafe.Pointer

func access(p unsafe.Pointer, size uintptr, write bool, site string) {
	sink = p
	if !active || cur == nil || size == 0 {
		return
	}
	AllAccesses++
	a := uintptr(p)
	reg, off, ok := lookup(a)
	// race detection on every woven access, word by word
	me := cur
	nw := (a+size+7)/8 - a/8
	if nw > 512 {
		nw = 512
	}
	for i := uintptr(0); i < nw; i++ {
		w := a/8 + i
		st := words[w]
		if st == nil {
			st = &wordState{rVC: map[int][]int{}, rSite: map[int]string{}}
			words[w] = st
		}
		where := "unregistered memory"
		if ok {
			where = fmt.Sprintf("%s+%d", reg.name, (w*8-reg.lo)&^7)
			if w*8 < reg.lo {
				where = fmt.Sprintf("%s+0", reg.name)
			}
		}
		kind := "read"
		if write {
			kind = "write"
		}
		if st.has && st.wT != me.id && !vcLeq(st.wVC, me.vc) {
			report(where, ok, fmt.Sprintf("T%d write at %s", st.wT, st.wSite), fmt.Sprintf("T%d %s at %s", me.id, kind, site))
		}
		if write {
			for t, rv := range st.rVC {
				if t != me.id && !vcLeq(rv, me.vc) {
					report(where, ok, fmt.Sprintf("T%d read at %s", t, st.rSite[t]), fmt.Sprintf("T%d write at %s", me.id, site))
				}
			}
			st.has, st.wT, st.wVC, st.wSite = true, me.id, vcCopy(me.vc), site
			st.rVC, st.rSite = map[int][]int{}, map[int]string{}
		} else {
			st.rVC[me.id] = vcCopy(me.vc)
			st.rSite[me.id] = site
		}
	}
	if !ok {
		return
	}
	Events = append(Events, Event{me.id, reg.id, off, size, write, site})
	if write {
		SharedWrites++
	} else {
		SharedReads++
	}
	key := [2]uintptr{uintptr(reg.id), off / 8}
	if write && !contended[key] {
		contended[key] = true
		newContended = true
	}
	if contended[key] {
		yield()
	}
}

func yield() {
	me := cur
	ctl <- me.id
	<-me.resume
}

// R / W are generic identity functions: the woven expression is evaluated at
// exactly the position of the original one.
func R[T any](p *T, site string) *T {
	if active {
		access(unsafe.Pointer(p), unsafe.Sizeof(*p), false, site)
	}
	return p
}

func W[T any](p *T, site string) *T {
	if active {
		access(unsafe.Pointer(p), unsafe.Sizeof(*p), true, site)
	}
	return p
}

func mapPtr(m any) unsafe.Pointer { return reflect.ValueOf(m).UnsafePointer() }

// MR / MW log a read / write of a map (as one location: the map header).
func MR[M ~map[K]V, K comparable, V any](m M, site string) M {
	if active && m != nil {
		access(mapPtr(m), 8, false, site)
	}
	return m
}

func MW[M ~map[K]V, K comparable, V any](m M, site string) M {
	if active && m != nil {
		access(mapPtr(m), 8, true, site)
	}
	return m
}

// SRange logs the read of the elements a range statement visits.
func SRange[S ~[]E, E any](s S, site string) S {
	if active && len(s) > 0 {
		access(unsafe.Pointer(&s[0]), uintptr(len(s))*unsafe.Sizeof(s[0]), false, site)
	}
	return s
}

// AppendW logs the write an append performs into spare capacity of a shared backing array.
func AppendW[S ~[]E, E any](s S, site string) S {
	if active && cap(s) > len(s) {
		full := s[:cap(s)]
		access(unsafe.Pointer(&full[len(s)]), unsafe.Sizeof(full[0]), true, site)
	}
	return s
}

// ---- synchronisation shims

func MuLock(mu *sync.Mutex, site string) {
	if !active || cur == nil {
		mu.Lock()
		return
	}
	yield() // a synchronisation operation is a scheduling point
	spins := 0
	for !mu.TryLock() {
		cur.blocked = mu
		yield()
		spins++
		if spins > 10000 {
			panic("vrt: thread spins on a mutex forever (deadlock)")
		}
	}
	cur.blocked = nil
	if v := muVC[mu]; v != nil {
		vcJoin(cur.vc, v)
	}
}

func MuUnlock(mu *sync.Mutex, site string) {
	if active && cur != nil {
		v := muVC[mu]
		if v == nil {
			v = make([]int, len(cur.vc))
		}
		vcJoin(v, cur.vc)
		muVC[mu] = v
		cur.vc[cur.id]++
	}
	mu.Unlock()
}

// ---- channels
//
// A send or receive on a buffered channel is a scheduling point; one that cannot proceed blocks the thread until it
// can (a full channel has room again, an empty one holds a value or was closed by woven code), and "every thread
// blocked" is a deadlock. Happens-before: every operation on a channel is ordered after all earlier operations on it
// (coarser than the language's rule, which can only hide a race report, never invent one). Unbuffered channels are
// operated natively and recorded in UnmodelledSync.

var (
	chanVC     = map[unsafe.Pointer][]int{}
	chanClosed = map[unsafe.Pointer]bool{}
	ChanOps    int
)

func chanSync(p unsafe.Pointer) {
	v := chanVC[p]
	if v == nil {
		v = make([]int, len(cur.vc))
	}
	vcJoin(cur.vc, v)
	vcJoin(v, cur.vc)
	chanVC[p] = v
	cur.vc[cur.id]++
}

func ChanSend[C ~chan T | ~chan<- T, T any](ch C, v T, site string) {
	if !active || cur == nil {
		ch <- v
		return
	}
	if cap(ch) == 0 {
		UnmodelledSync = append(UnmodelledSync, site+": send on an unbuffered channel")
		ch <- v
		return
	}
	ChanOps++
	p := reflect.ValueOf(ch).UnsafePointer()
	yield()
	for {
		if chanClosed[p] {
			ch <- v // panics, as the language says
		}
		select {
		case ch <- v:
			cur.waiting = nil
			chanSync(p)
			return
		default:
		}
		cur.waiting = func() bool { return len(ch) < cap(ch) || chanClosed[p] }
		yield()
	}
}

func ChanRecv[C ~chan T | ~<-chan T, T any](ch C, site string) T {
	if !active || cur == nil {
		return <-ch
	}
	if cap(ch) == 0 {
		UnmodelledSync = append(UnmodelledSync, site+": receive on an unbuffered channel")
		return <-ch
	}
	ChanOps++
	p := reflect.ValueOf(ch).UnsafePointer()
	yield()
	for {
		select {
		case v := <-ch:
			cur.waiting = nil
			chanSync(p)
			return v
		default:
		}
		cur.waiting = func() bool { return len(ch) > 0 || chanClosed[p] }
		yield()
	}
}

func ChanClose[C ~chan T | ~chan<- T, T any](ch C, site string) {
	if active && cur != nil {
		p := reflect.ValueOf(ch).UnsafePointer()
		chanClosed[p] = true
		chanSync(p)
	}
	close(ch)
}

func atomicSync(p unsafe.Pointer) {
	if !active || cur == nil {
		return
	}
	yield()
	v := atomVC[p]
	if v == nil {
		v = make([]int, len(cur.vc))
	}
	vcJoin(cur.vc, v)
	vcJoin(v, cur.vc)
	atomVC[p] = v
	cur.vc[cur.id]++
}

func AtomicAddUint64(p *uint64, d uint64, site string) uint64 {
	atomicSync(unsafe.Pointer(p))
	return atomic.AddUint64(p, d)
}

func AtomicLoadUint64(p *uint64, site string) uint64 {
	atomicSync(unsafe.Pointer(p))
	return atomic.LoadUint64(p)
}

// ---- the file system namespace as shared locations. A path is a location: creating, truncating, removing or renaming
// it is a write, opening it read-only, reading it or asking about it is a read. Two such accesses of different threads,
// one of them a write, not ordered by happens-before, are a race like any other (a temporary file two builds both pick).
// A write is also a scheduling point, so that the schedules around it are explored.

type fsState struct {
	has   bool
	wT    int
	wVC   []int
	wSite string
	rVC   map[int][]int
	rSite map[int]string
}

var fsWords = map[string]*fsState{}

// FSAccesses counts the file system accesses seen in the current execution.
var FSAccesses int

func fsAccess(path string, write bool, site string) {
	if !active || cur == nil {
		return
	}
	if path != cwdKey {
		if abs, err := filepath.Abs(path); err == nil {
			path = abs
		}
	}
	FSAccesses++
	me := cur
	if write {
		yield()
	}
	st := fsWords[path]
	if st == nil {
		st = &fsState{rVC: map[int][]int{}, rSite: map[int]string{}}
		fsWords[path] = st
	}
	where := "file " + path
	kind := "read"
	if write {
		kind = "write"
	}
	if st.has && st.wT != me.id && !vcLeq(st.wVC, me.vc) {
		report(where, true, fmt.Sprintf("T%d write at %s", st.wT, st.wSite), fmt.Sprintf("T%d %s at %s", me.id, kind, site))
	}
	if write {
		for t, rv := range st.rVC {
			if t != me.id && !vcLeq(rv, me.vc) {
				report(where, true, fmt.Sprintf("T%d read at %s", t, st.rSite[t]), fmt.Sprintf("T%d write at %s", me.id, site))
			}
		}
		st.has, st.wT, st.wVC, st.wSite = true, me.id, vcCopy(me.vc), site
		st.rVC, st.rSite = map[int][]int{}, map[int]string{}
	} else {
		st.rVC[me.id] = vcCopy(me.vc)
		st.rSite[me.id] = site
	}
}

// OnFS, when set, is called before every woven file system access (also outside the scheduler): the harness's
// seam for changing the environment at exactly that moment (a source that grows, shrinks or disappears between two
// accesses of the code under test).
var OnFS func(path string, write bool, site string)

func fsHook(path string, write bool, site string) {
	if OnFS != nil {
		OnFS(path, write, site)
	}
}

// FSW / FSR are identity functions on a path argument.
// cwdKey names the process's working directory as a shared location.
const cwdKey = "<working directory of the process>"

func relRead(path, site string) {
	if path != "" && path[0] != '/' {
		fsAccess(cwdKey, false, site)
	}
}

// FSChdir: os.Chdir(path) writes the working directory.
func FSChdir(path string, site string) string {
	fsAccess(cwdKey, true, site)
	return path
}

func FSW(path string, site string) string {
	fsHook(path, true, site)
	relRead(path, site)
	fsAccess(path, true, site)
	return path
}

func FSR(path string, site string) string {
	fsHook(path, false, site)
	relRead(path, site)
	fsAccess(path, false, site)
	return path
}

func OpenFile(name string, flag int, perm os.FileMode, site string) (*os.File, error) {
	w := flag&(os.O_WRONLY|os.O_RDWR|os.O_CREATE|os.O_TRUNC|os.O_APPEND) != 0
	fsHook(name, w, site)
	fsAccess(name, w, site)
	return os.OpenFile(name, flag, perm)
}

func CreateTemp(dir, pattern string, site string) (*os.File, error) {
	f, err := os.CreateTemp(dir, pattern)
	if err == nil {
		fsAccess(f.Name(), true, site)
	}
	return f, err
}

func MkdirTemp(dir, pattern string, site string) (string, error) {
	d, err := os.MkdirTemp(dir, pattern)
	if err == nil {
		fsAccess(d, true, site)
	}
	return d, err
}

// ---- other synchronisation objects (sync.Pool, sync.Map ...): scheduling points
// with conservative happens-before (every such operation orders after all earlier ones)

var syncVC []int

func syncBarrier() {
	if !active || cur == nil {
		return
	}
	if syncVC == nil {
		syncVC = make([]int, len(cur.vc))
	}
	vcJoin(cur.vc, syncVC)
	vcJoin(syncVC, cur.vc)
	cur.vc[cur.id]++
}

// Sync is a scheduling point placed before a non-blocking synchronisation
// operation: vrt.Sync(site, recv.Method)(args...).
func Sync[F any](site string, f F) F {
	if active && cur != nil {
		yield()
		syncBarrier()
	}
	return f
}

// SyncAfter is a scheduling point placed after such an operation.
func SyncAfter(site string) {
	if active && cur != nil {
		syncBarrier()
		yield()
	}
}

func DeferSync0(site string, f func()) {
	Sync(site, f)()
	SyncAfter(site)
}

// DeferSync1 takes the operation and its argument untyped (the argument of
// sync.Pool.Put is an interface): the call is made by reflection.
func DeferSync1(site string, f any, a any) {
	fv := reflect.ValueOf(Sync(site, f))
	av := reflect.ValueOf(a)
	if !av.IsValid() {
		av = reflect.Zero(fv.Type().In(0))
	}
	fv.Call([]reflect.Value{av})
	SyncAfter(site)
}

// ---- shared regions

// ShareReset forgets the registered regions (the contended set survives: it is
// keyed by region number and word, which are canonical across executions).
func ShareReset() { regions = nil }

// Share registers everything reachable from v as shared regions named name+path.
func Share(name string, v any) {
	seen := map[uintptr]bool{}
	for _, r := range regions {
		seen[r.lo] = true
	}
	add := func(p, n uintptr, nm string) {
		if n == 0 || seen[p] {
			return
		}
		seen[p] = true
		regions = append(regions, region{lo: p, hi: p + n, name: nm})
	}
	var walk func(v reflect.Value, path string, depth int)
	walk = func(v reflect.Value, path string, depth int) {
		if depth > 40 {
			return
		}
		switch v.Kind() {
		case reflect.Pointer:
			if v.IsNil() {
				return
			}
			if seen[v.Pointer()] {
				return
			}
			add(v.Pointer(), v.Type().Elem().Size(), path)
			walk(v.Elem(), path, depth+1)
		case reflect.Struct:
			for i := 0; i < v.NumField(); i++ {
				walk(v.Field(i), path+"."+v.Type().Field(i).Name, depth+1)
			}
		case reflect.Slice:
			if v.Len() == 0 && v.Cap() == 0 {
				return
			}
			add(v.Pointer(), uintptr(v.Cap())*v.Type().Elem().Size(), path+"[]")
			for i := 0; i < v.Len(); i++ {
				walk(v.Index(i), fmt.Sprintf("%s[%d]", path, i), depth+1)
			}
		case reflect.Map:
			if v.IsNil() {
				return
			}
			add(v.Pointer(), 8, path+"{map}")
			keys := v.MapKeys()
			sort.Slice(keys, func(i, j int) bool { return fmt.Sprint(keys[i]) < fmt.Sprint(keys[j]) })
			for _, k := range keys {
				walk(v.MapIndex(k), fmt.Sprintf("%s[%v]", path, k), depth+1)
			}
		case reflect.Interface:
			if !v.IsNil() {
				walk(v.Elem(), path, depth+1)
			}
		}
	}
	walk(reflect.ValueOf(v), name, 0)
}

// ShareGlobals registers every package-level variable of the woven packages.
func ShareGlobals() {
	for _, g := range Globals() {
		Share(g.Name, g.Ptr)
	}
}

func finishRegions() {
	// canonical numbering: in registration order (deterministic walk), lookup sorted by address
	for i := range regions {
		regions[i].id = i
	}
	sort.Slice(regions, func(i, j int) bool { return regions[i].lo < regions[j].lo })
	out := regions[:0]
	var hi uintptr
	for _, r := range regions {
		if r.lo >= hi {
			out = append(out, r)
			hi = r.hi
		}
	}
	regions = out
}

// NRegions reports the number of registered shared regions.
func NRegions() int { return len(regions) }

// NewContended reports whether the last execution discovered new contended locations.
func NewContended() bool { return newContended }

// ResetContended forgets what was learned (new scenario).
func ResetContended() { contended = map[[2]uintptr]bool{} }
func NContended() int { return len(contended) }

// Result of one execution.
type Result struct {
	Points       []Point
	Events       []Event
	Races        []Race
	SharedReads  int
	SharedWrites int
	AllAccesses  int
	Panics       []any
	Deadlock     bool
}

// Run executes the bodies as threads under the cooperative scheduler, replaying
// the choice prefix and then always continuing the running thread (choice 0).
func Run(pfx []int, bodies ...func()) (res Result) {
	finishRegions()
	BeginChoices(pfx)
	Events, Races, raceSeen = nil, nil, map[string]bool{}
	words = map[uintptr]*wordState{}
	fsWords, FSAccesses = map[string]*fsState{}, 0
	muVC, atomVC = map[*sync.Mutex][]int{}, map[unsafe.Pointer][]int{}
	chanVC, chanClosed, ChanOps = map[unsafe.Pointer][]int{}, map[unsafe.Pointer]bool{}, 0
	syncVC = nil
	SharedReads, SharedWrites, AllAccesses = 0, 0, 0
	newContended = false
	ctl = make(chan int)
	threads = nil
	n := len(bodies)
	for i, b := range bodies {
		t := &thread{id: i, resume: make(chan struct{}), vc: make([]int, n)}
		t.vc[i] = 1
		threads = append(threads, t)
		b := b
		go func() {
			<-t.resume
			defer func() {
				if r := recover(); r != nil {
					t.panic = r
				}
				t.done = true
				ctl <- -1 - t.id
			}()
			b()
		}()
	}
	active = true
	defer func() {
		active = false
		cur = nil
		res.Points = EndChoices()
		res.Events, res.Races = Events, Races
		res.SharedReads, res.SharedWrites, res.AllAccesses = SharedReads, SharedWrites, AllAccesses
		for _, t := range threads {
			if t.panic != nil {
				res.Panics = append(res.Panics, t.panic)
			}
		}
	}()
	running := threads[0]
	first := true
	canRun := func(t *thread) bool {
		if t.done {
			return false
		}
		if t.waiting != nil {
			return t.waiting()
		}
		if t.blocked == nil {
			return true
		}
		// a thread waiting for a mutex is enabled once the mutex is free
		if t.blocked.TryLock() {
			t.blocked.Unlock()
			return true
		}
		return false
	}
	for {
		var enabled []int
		curOK := !first && canRun(running)
		if canRun(running) {
			enabled = append(enabled, running.id)
		}
		for _, t := range threads {
			if t.id != running.id && canRun(t) {
				enabled = append(enabled, t.id)
			}
		}
		if len(enabled) == 0 {
			for _, t := range threads {
				if !t.done {
					res.Deadlock = true
				}
			}
			break
		}
		c := choose("sched", "", len(enabled), running.id, curOK, enabled)
		first = false
		running = threads[enabled[c]]
		cur = running
		running.resume <- struct{}{}
		<-ctl
	}
	return res
}
